"""C14 — cross-thread entry points have no unsynchronised conflicting accesses.

Static lockset + confinement analysis: schedule-independent by construction.

Every rule is evaluated in calling contexts (entry points with their helpers inlined) and speaks about
*state* (fields of the named record types, file-scope locations), *exported functions* and *roles* (installed signal
handler, atfork handlers, thread bodies, handler installed into a particular object, tls init hooks, constructors,
poll-method slots, the child side of a fork()).  No rule names a static function, a file-scope variable or a lock:

  * which lock protects a location is *derived*: the lock that is held at the sites that modify it (h14/Model.lock_of);
  * file-scope locations (variables and fields of file-scope structs alike) are classified by what is done with
    them: lock objects, lock-protected data, one-way flags, configuration setters, set-up-phase data;
  * the fields of the work pool's private records are classified from their accesses (immutable after publication /
    lock-protected / own synchronisation / thread-confined), the records themselves are found by role;
  * (seeded round 3, R-C14f) a record that its owner frees once nobody has a claim on it must not be touched by a thread
    after the lock region in which that thread gave up its claim (the count of claims is found by role, too).
"""
from ..core import (AnalysisBroken, Inliner, canon, strip, strip_load, last_member, forward, lvalue_steps, lvalue_root,
                    is_null, walk, relpath)
from ..analyses import (held, SIGBLOCK, callback_kind, describe, LOCK_FUNCS)
from . import h14 as h

# fields of the named (header-declared) record types that the property text lists as shared state.  The lock is not
# tabled: it is the lock held where the field is modified (derived), and every other access must hold the same one.
PROTECTED_FIELDS = {
    ('iv_event', 'list'): 'link of a posted event in its owner\'s pending list',
    ('iv_signal', 'an'): 'tree node of a signal interest',
    ('iv_signal', 'active'): 'signal interest woken',
    ('iv_wait_interest', 'avl_node'): 'tree node of a wait interest',
    ('iv_wait_interest', 'events_pending'): 'queued status changes',
    ('iv_wait_interest', 'flags'): 'dead marker',
}
# two more are fields of private records and are found by role (Model._role_fields): the list iv_event_post links
# an event into (pending list of the owner's loop state) and the per-thread tree iv_signal_register inserts a signal
# interest into

SIGNAL_SAFE_EXTERNAL = {'getpid', 'write', 'read', 'pthread_getspecific', 'pthread_spin_lock', 'pthread_spin_unlock',
                        'pthread_spin_trylock', '__errno_location', 'pthread_sigmask', 'sigprocmask'}
# calls that only read / only (re)initialise / modify the object whose address they are given
READ_CALLS = {'iv_list_empty', 'iv_avl_tree_empty', 'iv_avl_tree_min', 'iv_avl_tree_max', 'iv_avl_tree_next', 'iv_avl_tree_prev'}
INIT_CALLS = {'INIT_IV_LIST_HEAD'}
MUTATOR_CALLS = {'iv_list_add', 'iv_list_add_tail', 'iv_list_del', 'iv_list_del_init', 'iv_list_splice', 'iv_list_splice_init',
                 'iv_list_splice_tail', 'iv_list_splice_tail_init', '__iv_list_splice', '__iv_list_steal_elements',
                 'iv_avl_tree_insert', 'iv_avl_tree_delete'}
LOCK_OBJECT_CALLS = set(LOCK_FUNCS) | {'___mutex_init', '___mutex_destroy', 'spin_init', 'fallback_spin_init'}
ANY = frozenset(['read', 'overwrite', 'rmw'])


def roots_of(prog):
    called = set()
    for f in prog.all_funcs():
        u = prog.unit_of(f)
        for e in f.events():
            if e['ev'] == 'call' and 'callee' in e:
                g = prog.resolve(u, e['callee']) if u else prog.funcs.get(e['callee'])
                if g:
                    called.add(g.q)
    return [f for f in sorted(prog.all_funcs(), key=lambda f: f.q) if f.q not in called and f.file.endswith('.c')]


# --------------------------------------------------------------------------
# accesses
# --------------------------------------------------------------------------

def access_items(e, al):
    """[(object expression, kind)] the event itself touches; kind: read / overwrite (the old value is not used) /
    rmw (everything else, incl. list and tree mutation) / lockop (the object is used as a lock) /
    extern (address handed to a function we know nothing about)."""
    if e['ev'] == 'load':
        return [(e['e'], 'read')]
    if e['ev'] == 'store':
        return [(e['lhs'], 'overwrite' if e.get('op') == '=' else 'rmw')]
    if e['ev'] == 'call':
        cal = e.get('callee')
        kind = ('lockop' if cal in LOCK_OBJECT_CALLS else 'read' if cal in READ_CALLS else 'overwrite' if cal in INIT_CALLS
                else 'rmw' if cal in MUTATOR_CALLS else 'extern')
        out = []
        lock_arg = LOCK_FUNCS[cal][1] if cal in LOCK_FUNCS else 0
        for n, a in enumerate(e.get('args', [])):
            t = h.pointee(a, al)
            if t is not None:
                out.append((t, kind if (kind != 'lockop' or n == lock_arg) else 'extern'))
        return out
    return []


def keys_of(x, al, recs):
    """keys of the locations an object expression names: (record, field) for every member step inside the object
    (up to the pointer that is followed) whose record is in `recs`, and ('global', path tuple) when the path stays
    inside a file-scope object.  A node that copy propagation put in the place of a read of a caching local (`_was`)
    is a read of that local, not of memory: the memory was read where the local was assigned (an event of its own).
    Pointers held in alias locals (`q = &pool->work_items; q->next`) are followed."""
    out = set()
    y = x
    n = 0
    while isinstance(y, dict) and n < 64:
        n += 1
        k = y.get('k')
        if y.get('_was') and k != 'addr':
            return set()
        if k == 'member':
            if y.get('record') in recs:
                out.add((y.get('record'), y['field']))
            if y['arrow']:
                t = h._alias_target(y['base'], al)
                if t is None:
                    break
                y = t
            else:
                y = y['base']
        elif k == 'index':
            y = strip_load(y['base'])
        elif k == 'deref':
            t = h._alias_target(y['e'], al)
            if t is None:
                break
            y = t
        elif k in ('cast', 'load', 'paren'):
            y = y['e']
        else:
            break
    gp = h.gpath(x, al)
    if gp is not None:
        out.add(('global', gp))
    return out


def _arg_names(e, key, al, callees=None, argi=None):
    """call event one of whose (address) arguments names a location with `key`"""
    if e['ev'] != 'call' or (callees is not None and e.get('callee') not in callees):
        return False
    for i, a in enumerate(e.get('args', [])):
        if argi is not None and i != argi:
            continue
        t = h.pointee(a, al)
        if t is not None:
            y = strip(t)
            if isinstance(y, dict) and y.get('k') == 'member' and (y.get('record'), y['field']) == key:
                return True
    return False


def _publishes_pool(e, al):
    return e['ev'] == 'store' and last_member(e['lhs']) == ('iv_work_pool', 'priv') and 'rhs' in e and not is_null(e['rhs'])


def _publishes_interest(e, al):
    return _arg_names(e, ('iv_wait_interest', 'avl_node'), al, ('iv_avl_tree_insert',))


def _creates_thread(e):
    return e['ev'] in ('call', 'enter') and e.get('callee') in h.THREAD_CREATE


def _allocates(e):
    if e['ev'] != 'store' or 'rhs' not in e:
        return False
    v = strip(e['rhs'])
    return isinstance(v, dict) and v.get('k') == 'call' and v.get('callee') in ('malloc', 'calloc')


def _base_var(x, rec, al):
    """name of the pointer variable through which the object of type `rec` is reached in the access path x"""
    y = x
    n = 0
    while isinstance(y, dict) and n < 64:
        n += 1
        k = y.get('k')
        if k == 'member':
            if y['arrow']:
                t = h._alias_target(y['base'], al)
                if t is not None:
                    y = t
                    continue
                b = strip(y['base'])
                if y.get('record') == rec and isinstance(b, dict) and b.get('k') == 'var':
                    return b['name']
                return None
            y = y['base']
        elif k == 'index':
            y = strip_load(y['base'])
        elif k in ('cast', 'load', 'paren'):
            y = y['e']
        else:
            return None
    return None


class Access:
    __slots__ = ('key', 'kind', 'e', 'x', 'cx', 'b', 'i', 'H', 'anchor')

    def __init__(self, key, kind, e, x, cx, b, i, H, anchor):
        self.key, self.kind, self.e, self.x, self.cx, self.b, self.i, self.H, self.anchor = key, kind, e, x, cx, b, i, H, anchor

    @property
    def initial(self):
        """made where no second thread can exist: by a constructor, or in the child of a fork()"""
        return bool(self.cx.root.constructor) or self.cx.child(self.b, self.i)

    @property
    def loc(self):
        return self.e.get('loc')


class Context:
    """One entry point with everything it calls inlined, its locksets and lazily computed path predicates."""

    def __init__(self, prog, root):
        self.root = root
        self.g = Inliner(prog, expand_methods=True).inline(root)
        self.entry = frozenset()
        self.al = h.addr_aliases(self.g)
        self.eff = h.lock_effect_in(self.g)      # lock identities by object, lock pointers in locals resolved
        self._ls = None
        self._memo = {}
        self._child = None

    @property
    def ls(self):
        if self._ls is None:
            self._ls = h.locksets_in(self.g, entry=self.entry, eff=self.eff)
        return self._ls

    def child(self, b, i):
        if self._child is None:
            self._child = h.fork_child(self.g) if h.has_fork(self.g) else {}
        return bool(self._child.get((b, i)))

    def may_follow(self, name, pred, b, i, reset=None):
        k = ('may', name)
        if k not in self._memo:
            self._memo[k] = h.may_follow(self.g, lambda e: pred(e, self.al), reset=(lambda e: reset(e, self.al)) if reset else None)
        return bool(self._memo[k].get((b, i)))

    def must_follow(self, name, pred, b, i):
        k = ('must', name)
        if k not in self._memo:
            self._memo[k] = h.must_follow(self.g, lambda e: pred(e, self.al))
        return bool(self._memo[k].get((b, i)))

    def fresh(self, bname, b, i):
        """statuses of the record `bname` points to -- {1}: it was allocated in this context on every path to the point
        and no thread was created since (nobody else can hold a pointer to it); 0 in the set: not allocated here on
        some path; 2: a thread was created since.  The pointer may have been copied from the variable that received
        the allocation (`thr = alloc_helper()`, an out-parameter)."""
        k = 'fresh'
        if k not in self._memo:
            def tr(x, S):
                if x['ev'] == 'store':
                    l = h._lhs_var(x['lhs'])
                    if l is not None:
                        S = frozenset(p for p in S if p[0] != l['name'])
                        if _allocates(x):
                            return S | {(l['name'], 1)}
                        r = strip(x['rhs']) if x.get('op') == '=' and 'rhs' in x else None
                        if isinstance(r, dict) and r.get('k') == 'var':
                            return S | {(l['name'], st) for (v, st) in S if v == r['name']}
                    return S
                if _creates_thread(x):
                    return frozenset((v, 2 if st == 1 else st) for (v, st) in S)
                return S

            def join(a, b2):
                if a == b2:
                    return a
                va, vb = {v for v, _ in a}, {v for v, _ in b2}
                return a | b2 | {(v, 0) for v in va ^ vb}
            _, self._memo[k] = forward(self.g, frozenset(), tr, join)
        S = self._memo[k].get((b, i)) or frozenset()
        return frozenset(st for (v, st) in S if v == bname) or frozenset([0])

    def points(self):
        for b, blk in self.g.blocks.items():
            for i, e in enumerate(blk.events):
                S = self.ls.get((b, i))
                if S is not None:
                    yield b, i, e, held(S)


# --------------------------------------------------------------------------
# entry locksets (signal handler, atfork handlers)
# --------------------------------------------------------------------------

def _sa_store(e):
    if e['ev'] != 'store' or 'rhs' not in e:
        return None
    lm = last_member(e['lhs'])
    if not lm or lm[1] not in ('sa_handler', 'sa_sigaction'):
        return None
    rt = lvalue_root(e['lhs'])
    return rt['name'] if rt is not None else ''


def handler_masks(prog, graphs):
    """{handler q-name: bool}: every installation of the function as a process signal handler blocks all signals
    while it runs: for every store `X.sa_handler = f`, on every feasible path from that store to a sigaction() call
    that is given &X, X.sa_mask was filled (sigfillset) and not emptied/changed since.  Evaluated in the inlined
    entry points, so a set-up helper that receives the handler (or the signal number) as a parameter is judged with
    the argument it is called with: `handler == SIG_DFL` is false for a function."""
    masks = {}
    for g in graphs:
        stores = []
        for e in g.events():
            nm = _sa_store(e)
            if nm is None:
                continue
            f = h.func_node(prog, prog.funcs.get(e.get('fn')) or g, e['rhs'])
            if f is not None:
                stores.append((e, nm, f))
        for (se, name, hf) in stores:
            if not name:
                masks[hf.q] = False
                continue

            def mask_arg(x, callees, name=name):
                if x['ev'] != 'call' or x.get('callee') not in callees or not x.get('args'):
                    return False
                t = h.pointee(x['args'][0], None)
                if t is None:
                    return False
                r2 = lvalue_root(t)
                lm = last_member(t)
                return r2 is not None and r2['name'] == name and lm is not None and lm[1] == 'sa_mask'

            def fills(x):
                return mask_arg(x, ('sigfillset',))

            def spoils(x):
                if mask_arg(x, ('sigemptyset', 'sigdelset', 'sigaddset')):
                    return True
                if x['ev'] == 'store':
                    r2 = lvalue_root(x['lhs'])
                    return r2 is not None and r2['name'] == name and ('sa_mask' in [s[1] for s in lvalue_steps(x['lhs'])]
                                                                     or strip(x['lhs']).get('k') == 'var')
                return False
            filled = h.must_follow(g, fills, reset=spoils)
            armed = h.may_follow(g, lambda x, se=se: x is se)
            ok = True
            seen = False
            for x in g.events():
                if x['ev'] == 'call' and x.get('callee') == 'sigaction' and len(x.get('args', [])) >= 2:
                    t = h.pointee(x['args'][1], None)
                    r2 = lvalue_root(t) if t is not None else None
                    if r2 is not None and r2['name'] == name and armed.get((x['_b'], x['_i'])):
                        seen = True
                        if not filled.get((x['_b'], x['_i'])):
                            ok = False
            if seen:
                masks[hf.q] = masks.get(hf.q, True) and ok
            else:
                masks.setdefault(hf.q, masks.get(hf.q, True))
    return masks


def entry_locksets(prog, graphs):
    """What an entry point may assume to hold when it is entered, derived from how it is installed:
       * a process signal handler installed with a full sa_mask runs with all signals blocked;
       * the atfork parent/child handlers run with what the prepare handler leaves held."""
    entry = {}
    masks = handler_masks(prog, graphs)
    for (hf, inst, e) in h.signal_installs(prog):
        masks.setdefault(hf.q, False)
    for q, ok in masks.items():
        entry[q] = frozenset([SIGBLOCK]) if ok else frozenset()
    for (prep, parent, child) in h.atfork_triples(prog):
        if prep is None:
            continue
        H = h.exit_lockset(Inliner(prog, expand_methods=True).inline(prep))
        for x in (parent, child):
            if x is not None:
                entry[x.q] = frozenset(entry.get(x.q, frozenset()) | H)
    return entry, masks


def contexts(prog):
    c = getattr(prog, '_c14_contexts', None)
    if c is None:
        c = [Context(prog, r) for r in h.entry_points(prog, roots_of(prog))]
        # roles (who is the signal handler, the atfork handlers, ...) are looked up in the inlined entry points too
        h.set_graphs(prog, [cx.g for cx in c])
        entry, masks = entry_locksets(prog, [cx.g for cx in c])
        for cx in c:
            cx.entry = entry.get(cx.root.q, frozenset())
        # functions that are only entered through a file-scope dispatch table (`ops[kind].fn(x)`) run with what is
        # held at every indirect call through that table (the inliner cannot expand those calls)
        only = h.table_only_functions(prog)
        if only:
            by_root = {cx.root.q: cx for cx in c}
            for _round in range(2):
                seen = {}
                for cx in c:
                    for b, i, e, H in cx.points():
                        ts = h.table_call_targets(prog, e, cx.al) if e['ev'] == 'call' and 'fnexpr' in e else None
                        for t in ts or ():
                            if t.q in only:
                                seen[t.q] = (seen[t.q] & H) if t.q in seen else frozenset(H)
                changed = False
                for q, H in seen.items():
                    cx = by_root.get(q)
                    if cx is not None and cx.entry != frozenset(H):
                        cx.entry = frozenset(H)
                        cx._ls = None
                        changed = True
                if not changed:
                    break
        prog._c14_contexts = c
        prog._c14_masks = masks
    return c


# --------------------------------------------------------------------------
# the model: all accesses in all contexts, roles, derived locks
# --------------------------------------------------------------------------

def pool_records(prog):
    """(pool record, thread record) of the work pool, by role: the record whose address iv_work_pool_create
    publishes in iv_work_pool.priv, and the record that points to it and is handed to the threads created for it."""
    pools = set()
    for f in prog.all_funcs():
        for e in f.events():
            if e['ev'] == 'store' and 'rhs' in e and last_member(e['lhs']) == ('iv_work_pool', 'priv'):
                v = strip(e['rhs'])
                if isinstance(v, dict) and v.get('record') and v.get('ptr'):
                    pools.add(v['record'])
    if len(pools) != 1:
        raise AnalysisBroken('work pool: the record published in iv_work_pool.priv is not unique: %s' % sorted(pools))
    P = pools.pop()
    thrs = set()
    for (f, e, fs) in h.call_func_args(prog, h.THREAD_CREATE):
        for a in e.get('args', []):
            v = strip(a)
            if isinstance(v, dict) and v.get('record') and v.get('ptr'):
                r = prog.records.get(v['record'], {})
                if any(fl.get('record') == P and fl.get('ptr') for fl in r.get('fields', [])):
                    thrs.add(v['record'])
    if len(thrs) != 1:
        raise AnalysisBroken('work pool: the record handed to the pool\'s threads is not unique: %s' % sorted(thrs))
    return P, thrs.pop()


class Model:
    def __init__(self, prog):
        self.prog = prog
        self.cxs = contexts(prog)
        self.errors = []               # anchors that vanished: reported by the section that needs them, after everything else
        try:
            self.P, self.T = pool_records(prog)
        except AnalysisBroken as e:
            self.P = self.T = None
            self.errors.append(str(e))
        self._role_fields()
        self.fields = dict(PROTECTED_FIELDS)
        for k in self.pending:
            self.fields[k] = 'pending list of posted events'
        for k in self.thr_trees:
            self.fields[k] = 'per-thread signal interests'
        self.recs = {r for (r, _) in self.fields} | ({self.P, self.T} - {None})
        self.order_edges = {}
        self.user_under_lock = []
        raw = []
        lock_keys = set()
        self.lock_holders = set()      # fields that contain a lock object
        gpaths = set()
        self.pid_keys = set()          # file-scope locations that hold the owner's process id (assigned from getpid())
        self.stepped = {}              # global path -> {(op, frozenset(frames))}: ++/-- stores
        # function-pointer fields that hold a copy of a caller-supplied hook of a public record (`pool->stop = this->thread_stop`)
        from ..analyses import CALLBACK_FIELDS, HOOK_FIELDS
        self.hook_src = {}
        for f in prog.all_funcs():
            for e in f.events():
                if e['ev'] == 'store' and e.get('op') == '=' and 'rhs' in e:
                    src, dst = last_member(e['rhs']), last_member(e['lhs'])
                    if dst and src and (src in CALLBACK_FIELDS or src in HOOK_FIELDS) and dst != src:
                        self.hook_src[dst] = src
        for cx in self.cxs:
            r = cx.root
            pidlocals = set()
            for e in cx.g.events():
                if e['ev'] == 'store' and 'rhs' in e:
                    v = strip(e['rhs'])
                    l = strip(e['lhs'])
                    if isinstance(v, dict) and v.get('k') == 'call' and v.get('callee') == 'getpid' and l.get('k') == 'var':
                        pidlocals.add(l['name'])
            for b, i, e, H in cx.points():
                for (op, lid) in cx.eff(e):
                    if op == 'lock' and lid != SIGBLOCK:
                        for hl in H:
                            if hl != SIGBLOCK and hl != lid:
                                self.order_edges.setdefault((hl, lid), (e, r))
                if e['ev'] == 'call' and 'fnexpr' in e:
                    ck = callback_kind(e)
                    if ck and ck[0] == 'unknown' and last_member(e['fnexpr']) in self.hook_src:
                        ck = ('hook', 'copy of %s.%s' % self.hook_src[last_member(e['fnexpr'])])
                    if ck and ck[0] in ('callback', 'hook', 'param') and (H - {SIGBLOCK}):
                        self.user_under_lock.append((e, r, H - {SIGBLOCK}, ck, cx.child(b, i)))
                items = access_items(e, cx.al)
                if not items:
                    continue
                anchor = None
                for (x, kind) in items:
                    for key in keys_of(x, cx.al, self.recs):
                        if kind == 'lockop':
                            # the lock object itself: the innermost step of the path (a sub-struct that holds a lock
                            # and data is not a lock), or the file-scope path
                            lm = last_member(x)
                            if key[0] == 'global' or key == lm:
                                lock_keys.add(key)
                            else:
                                self.lock_holders.add(key)
                            continue
                        if kind == 'extern' and key[0] == 'global':
                            continue       # key objects, once controls, signal sets: the callee synchronises / kernel interface
                        if kind == 'extern':
                            kind2 = 'rmw'
                        else:
                            kind2 = kind
                        if anchor is None:
                            anchor = h.anchor_frame(prog, e, r)
                        raw.append(Access(key, kind2, e, x, cx, b, i, H, anchor))
                        if key[0] == 'global':
                            gpaths.add(key[1])
                            if e['ev'] == 'store' and 'rhs' in e:
                                v = strip(e['rhs'])
                                if isinstance(v, dict) and ((v.get('k') == 'call' and v.get('callee') == 'getpid') or
                                                            (v.get('k') == 'var' and v['name'] in pidlocals)):
                                    self.pid_keys.add(key[1])
        # file-scope locations: an access to an object is an access to every part of it, so paths one of which is
        # a prefix of the other are one location (named by the shortest accessed path); lock objects stay apart
        self.lock_objects = {k for k in lock_keys}
        lockpaths = {k[1] for k in lock_keys if k[0] == 'global'}
        gpaths -= lockpaths
        unit = {}
        for p in sorted(gpaths, key=len):
            u = p
            for n in range(1, len(p)):
                if p[:n] in gpaths:
                    u = p[:n]
                    break
            unit[p] = u
        self.by_key = {}
        for a in raw:
            if a.key[0] == 'global':
                if a.key[1] in lockpaths or any(a.key[1][:n] in lockpaths for n in range(1, len(a.key[1]))):
                    continue
                a.key = ('global', '.'.join(unit[a.key[1]]))
            elif a.key in lock_keys:
                continue
            self.by_key.setdefault(a.key, []).append(a)
        self.pid_keys = {('global', '.'.join(unit[p])) for p in self.pid_keys if p in unit}
        self._lock = {}
        self._roles()

    def _role_fields(self):
        """(record, field) of the pending list that iv_event_post links `iv_event.list` into, and of the trees inside
        heap/thread objects that iv_signal_register inserts `iv_signal.an` into"""
        prog = self.prog
        post = h.api(prog, 'iv_event_post')[0].q
        reg = h.api(prog, 'iv_signal_register')[0].q
        self.pending, self.thr_trees = set(), set()
        def head_of(x, al):
            """x is `H.next` / `H.prev` of a list head H (possibly through an alias pointer): the expression H"""
            y = strip(x)
            if not (isinstance(y, dict) and y.get('k') == 'member' and y.get('record') == 'iv_list_head' and y['field'] in ('next', 'prev')):
                return None
            if y['arrow']:
                return h._alias_target(y['base'], al)
            return y['base']
        for cx in self.cxs:
            if cx.root.q not in (post, reg):
                continue
            for e in cx.g.events():
                if cx.root.q == post and e['ev'] == 'store' and e.get('op') == '=' and 'rhs' in e:
                    # the open-coded link: `node->next = &X` / `X.prev = node` with node the event's list member
                    a_, b_ = head_of(e['lhs'], cx.al), h.pointee(e['rhs'], cx.al)
                    if a_ is not None and b_ is not None:
                        for (u, v) in ((a_, b_), (b_, a_)):
                            lm = last_member(v)
                            if last_member(u) == ('iv_event', 'list') and lm and lm != ('iv_event', 'list') and \
                                    strip(v).get('trecord') == 'iv_list_head' and h.gpath(v, cx.al) is None:
                                self.pending.add(lm)
                if e['ev'] != 'call' or len(e.get('args', [])) < 2:
                    continue
                if cx.root.q == post and e.get('callee') in ('iv_list_add_tail', 'iv_list_add'):
                    t0 = h.pointee(e['args'][0], cx.al)
                    if t0 is not None and last_member(t0) == ('iv_event', 'list'):
                        for t1 in h.addr_targets(cx.g, e['args'][1], cx.al):
                            lm = last_member(t1)
                            if lm and h.gpath(t1, cx.al) is None:
                                self.pending.add(lm)
                if cx.root.q == reg and e.get('callee') == 'iv_avl_tree_insert':
                    t1 = h.pointee(e['args'][1], cx.al)
                    if t1 is not None and last_member(t1) == ('iv_signal', 'an'):
                        for t0 in h.addr_targets(cx.g, e['args'][0], cx.al):
                            lm = last_member(t0)
                            if lm and h.gpath(t0, cx.al) is None:
                                self.thr_trees.add(lm)
        if not self.pending:
            self.errors.append('iv_event_post: the list an event is linked into was not found')
        if not self.thr_trees:
            self.errors.append('iv_signal_register: the per-thread tree a signal interest is inserted into was not found')

    # -- derived lock of a location ------------------------------------------------
    def lock_of(self, key):
        """The lock that protects a location: among the locks that are held (in every context) at a site that modifies
        it, the one held at most of its access sites.  SIGNALS-BLOCKED only excludes the signal handler of the same
        thread: it cannot protect a file-scope location.  None: no modification is made under a lock."""
        if key in self._lock:
            return self._lock[key]
        accs = [a for a in self.by_key.get(key, ()) if not a.initial]

        def site_sets(sel):
            sites = {}
            for a in accs:
                if sel(a):
                    sites[a.loc] = (sites[a.loc] & a.H) if a.loc in sites else frozenset(a.H)
            return sites
        w = site_sets(lambda a: a.kind != 'read')
        cands = set()
        for M in w.values():
            cands |= M
        if key[0] == 'global':
            cands.discard(SIGBLOCK)
        L = None
        if cands:
            alls = site_sets(lambda a: True)
            L = max(sorted(cands), key=lambda l: (sum(1 for M in alls.values() if l in M), l != SIGBLOCK))
        self._lock[key] = L
        return L

    # -- roles of file-scope locations -------------------------------------------
    def _roles(self):
        prog = self.prog
        self.slot_fns = set()
        for t, slots in prog.method_tables().items():
            for s_, v in slots.items():
                if v and v[0] != 'str':
                    fn = prog.resolve(v[0], v[1])
                    if fn is not None:
                        self.slot_fns.add(fn.q)
        on = {f.q for f in prog.slot_targets('event_rx_on')}
        off = {f.q for f in prog.slot_targets('event_rx_off')}
        on_ops, off_ops, made = {}, {}, set()
        UP, DOWN = ('++', '+='), ('--', '-=')
        for key, lst in self.by_key.items():
            if key[0] != 'global':
                continue
            for a in lst:
                if a.e['ev'] != 'store':
                    continue
                fr = set(h.frames(a.e, a.cx.root))
                op = a.e.get('op')
                if op in UP + DOWN and fr & on:
                    on_ops.setdefault(key, set()).add('up' if op in UP else 'down')
                if op in UP + DOWN and fr & off:
                    off_ops.setdefault(key, set()).add('up' if op in UP else 'down')
                if op == '=' and fr & on and 'rhs' in a.e and h._intval(a.e['rhs']) is None:
                    made.add(key)
        # reference count of the shared wake-up descriptor: event_rx_off steps it in one direction only (the drop),
        # event_rx_on steps it the other way (the take; its failure path may drop again).  Whether the count runs up
        # or down is immaterial.  The descriptor: what event_rx_on (re)creates.
        self.refcounts = set()
        self.take_ops = {}
        for key, ops in off_ops.items():
            if len(ops) == 1:
                take = 'down' if ops == {'up'} else 'up'
                if take in on_ops.get(key, ()):
                    self.refcounts.add(key)
                    self.take_ops[key] = UP if take == 'up' else DOWN
        self.descriptors = made - self.refcounts

    def enters_slot(self, e, al):
        """a poll-method slot function is entered: each activation of event_rx_on/off/send is judged on its own"""
        return e['ev'] == 'enter' and bool(set(e.get('targets', ())) & self.slot_fns)

    def drops_reference(self, e, al):
        """a store to the reference count other than the step that takes a reference"""
        if e['ev'] != 'store':
            return False
        gp = h.gpath(e['lhs'], al)
        if gp is None:
            return False
        p = '.'.join(gp)
        for k in self.refcounts:
            if k[1] == p or k[1].startswith(p + '.') or p.startswith(k[1] + '.'):
                if e.get('op') not in self.take_ops[k]:
                    return True
        return False


def model(prog):
    m = getattr(prog, '_c14_model', None)
    if m is None:
        m = Model(prog)
        prog._c14_model = m
    return m


# --------------------------------------------------------------------------
# exemptions
# --------------------------------------------------------------------------

def exemptions(prog, M):
    """Unlocked accesses that are nevertheless race-free, each with the role of the code that may make them
    (`within`: the innermost stable frame of the access; `root`: the entry point), the kind of access, an optional
    condition on the path (`unless_after`: must not follow that event; `after_release`: every path released the
    location's lock before; `fresh`: the object was allocated in this context and no thread was created since)
    and the reason.  Roles are resolved against the program: API names, or what the function is used for.
    `prepub`: the exemption describes initialisation before the object is published."""
    def A(*names):
        return {f.q for f in h.api(prog, *names)}

    def R(fs, what):
        # (an empty role exempts nothing: the accesses it was meant for are then reported)
        return {f.q for f in fs if f is not None}
    P, T = M.P or '<no pool record>', M.T or '<no thread record>'

    def links_thread(e, al):
        if e['ev'] != 'call' or e.get('callee') not in ('iv_list_add', 'iv_list_add_tail') or not e.get('args'):
            return False
        t = h.pointee(e['args'][0], al)
        y = strip(t) if t is not None else None
        return isinstance(y, dict) and y.get('k') == 'member' and y.get('record') == T
    pool_handlers = [f for f in h.installed_at(prog, [('iv_event', 'handler'), (P, None)])]
    return [
        dict(within=A('iv_event_register'), loc=('iv_event', 'list'), kinds={'overwrite'}, prepub=True,
             why='initialisation before the event is published (no poster can hold it yet)'),
        dict(within=A('iv_event_unregister'), loc=('iv_event', 'list'), kinds={'read'},
             why='emptiness read: posters must be quiescent when an event is unregistered (documented); owner-side mutation happens in this thread'),
        dict(within={f.q for f in prog.all_funcs() if h.only_via(prog, f, A('iv_init'))}, locs=M.pending, kinds={'overwrite'}, prepub=True,
             why='state block not yet published (initialised as part of iv_init)'),
        dict(within=A('iv_work_pool_create'), loc=P + '.*', kinds={'overwrite'}, unless_after=('pool published', _publishes_pool), prepub=True,
             why='pool not yet published (this->priv is stored last)'),
        dict(within=R(h.thread_bodies(prog), 'thread body'), loc=T + '.*', kinds={'overwrite'},
             unless_after=('thread record linked', links_thread), prepub=True,
             why='thread record reachable by others only through the idle list, linked later under the lock'),
        dict(loc=T + '.*', kinds={'overwrite'}, fresh=T, prepub=True,
             why='record allocated here and not yet handed to the thread that is created for it'),
        dict(within=R(pool_handlers, 'handler of an event of the pool'),
             loc=P + '.*', kinds={'read'}, owner_only=A('iv_work_pool_create', 'iv_work_pool_put'),
             why='written only by the owner thread; this is the owner thread reading it'),
        dict(within=A('iv_wait_interest_register', 'iv_wait_interest_register_spawn'), loc='iv_wait_interest.*', kinds={'overwrite'},
             unless_after=('interest inserted into the tree', _publishes_interest), prepub=True,
             why='initialisation before the tree insertion publishes the interest'),
        dict(within=A('iv_wait_interest_unregister', 'iv_wait_interest_register_spawn'), loc=('iv_wait_interest', 'events_pending'), kinds=ANY,
             after_release=True,
             why='after removal from the tree under the lock the reaper cannot reach the interest'),
        dict(within=R([x[0] for x in h.signal_installs(prog)], 'process signal handler'), locs=M.pid_keys, kinds={'read'},
             why='owner pid: stored before the first handler can be installed; later stores only after fork in the child'),
        dict(root=R(h.constructors(prog), 'constructor'), loc='*', kinds=ANY, why='constructor: runs before any thread exists'),
        dict(within=R(h.initialiser_hooks(prog, 'iv_tls_user', 'init_thread'), 'tls init_thread hook'),
             locs=M.thr_trees, kinds={'overwrite'},
             why='per-thread area initialised before the thread can register interests'),
        dict(fork_child=True, loc='*', kinds=ANY, why='post-fork child is single-threaded'),
        dict(locs=M.descriptors, kinds={'read'}, unless_after=('own reference dropped', M.drops_reference, M.enters_slot),
             why='shared wake-up descriptor: read while this thread holds a reference (it is re-created only on the 0 -> 1 edge)'),
    ]


def _loc_matches(x, key):
    if 'locs' in x:
        return key in x['locs']
    loc = x['loc']
    return loc == '*' or loc == key or (isinstance(loc, str) and loc.endswith('.*') and key[0] == loc[:-2])


def find_exemption(exs, M, a, any_kind=False, only_prepub=False):
    """(exemption, None) or (None, why the nearest candidate does not apply)"""
    miss = None
    cx, b, i = a.cx, a.b, a.i
    for x in exs:
        if only_prepub and not x.get('prepub'):
            continue
        if not _loc_matches(x, a.key):
            continue
        if x.get('fork_child'):
            if not cx.child(b, i):
                continue
        elif 'root' in x:
            if cx.root.q not in x['root']:
                continue
        elif 'within' in x and a.anchor not in x['within'] and not (x['within'] & set(h.frames(a.e, cx.root))):
            continue      # (the reasons are about a dynamic extent: some active frame has the role)
        if a.kind not in x['kinds'] and not any_kind:
            miss = 'a %s access is not covered by the exemption "%s"' % (a.kind, x['why'])
            continue
        if x.get('unless_after') and cx.may_follow(x['unless_after'][0], x['unless_after'][1], b, i,
                                                   reset=x['unless_after'][2] if len(x['unless_after']) > 2 else None):
            miss = 'the access may follow the point "%s": exemption "%s" does not apply' % (x['unless_after'][0], x['why'])
            continue
        if x.get('fresh'):
            bn = _base_var(a.x, x['fresh'], cx.al)
            st_ = cx.fresh(bn, b, i) if bn else frozenset([0])
            if st_ != frozenset([1]):
                miss = ('after the thread that receives the record was created' if 2 in st_ else
                        'not on a record allocated in this context (the running thread or another one can see it)')
                continue
        if x.get('after_release'):
            lk = M.lock_of(a.key)
            if lk is None or not cx.must_follow('release of ' + lk, lambda e, al, lk=lk, cx=cx: ('unlock', lk) in cx.eff(e), b, i):
                miss = 'not every path to the access released %s before: exemption "%s" does not apply' % (lk, x['why'])
                continue
        return x, None
    return None, miss


# --------------------------------------------------------------------------
# rules
# --------------------------------------------------------------------------

def run(ctx):
    ctx.rule('R-C14a', 'lockset must-hold: every access to a shared location (listed fields of the public records, the lock-protected '
                       'fields of the pool records, the lock-protected file-scope locations) is made with the lock that protects it '
                       '(the one held where it is modified) in the must-held lockset, in every calling context from every entry point '
                       '(public API, handlers, thread bodies, constructors); exemptions name a role, an access kind, a path condition '
                       'and one reason', floor=65)
    ctx.rule('R-C14a.tbl', 'every field of the cross-thread record types is classified from its accesses (the lock / own '
                           'synchronisation / immutable after publication / lock-protected / thread-confined); a field that fits no '
                           'class is a report', floor=20)
    ctx.rule('R-C14b', 'foreign-state confinement: through an event\'s owner pointer a poster touches only the owner\'s list lock, '
                       'the pending list (locked) and the read-only kick descriptors', floor=3)
    ctx.rule('R-C14c', 'file-scope locations written outside lock regions are one-way flags: every store writes a constant and the '
                       'value transitions that the guards allow form no cycle (method-table pointers: first selection or '
                       'fallback by the running method); or configuration set by a pure setter call, or data of the set-up phase '
                       'before the first iv_init; everything else is a report', floor=12)
    ctx.rule('R-C14d', 'signal context: everything the process signal handler can reach is async-signal-safe (no mutex, no allocation); '
                       'it is installed with all signals blocked', floor=5)
    ctx.rule('R-C14e', 'lock order: the held->acquired graph over all entry points is acyclic; no user callback under a lock '
                       'except the tabled thread_stop hook', floor=3)
    ctx.rule('R-C14f', 'no access to a shared record after the lock region in which the thread gave up its claim on it: once a '
                       'worker has stepped the pool\'s count of live threads back (the count that the thread-creating side steps '
                       'up and that lets the owner free the pool), every later access of that activation to the pool record -- '
                       'the lock included -- is made before the lock that protects the count is released for the first time; the '
                       'body of a worker thread that gives its claim up inside the loop does not touch the pool after the loop',
             floor=2)
    ctx.section(lockset_rule)
    ctx.section(claim_release)
    ctx.section(confinement)
    ctx.section(one_way)
    ctx.section(signal_context)
    ctx.section(active_fd)


def _confined_roots(prog, M):
    """entry points that run in the thread a thread record belongs to: the thread bodies and the handlers installed
    into members of the record, provided every registration of such a member is made from one of them"""
    conf = {f.q for f in h.thread_bodies(prog)}
    members = {}
    for f, e in h.event_pool(prog):
        if e['ev'] == 'store' and 'rhs' in e:
            st = list(lvalue_steps(e['lhs']))
            if len(st) >= 2 and st[0][1] == 'handler' and st[1][0] == M.T:
                t = h.func_node(prog, f, e['rhs'])
                if t is not None:
                    conf.add(t.q)
                    members[st[1]] = True
    ok = True
    for cx in M.cxs:
        for e in cx.g.events():
            if e['ev'] in ('call', 'enter') and e.get('callee') and e['callee'].endswith('_register') and e.get('args'):
                t = h.pointee(e['args'][0], cx.al)
                y = strip(t) if t is not None else None
                if isinstance(y, dict) and y.get('k') == 'member' and (y.get('record'), y['field']) in members and cx.root.q not in conf:
                    ok = False
    return conf if ok else set()


def _leaves(prog, f, depth=0):
    """leaf field paths of a field: the fields of an anonymous struct member are listed one by one"""
    r = prog.records.get(f.get('record') or '') if str(f.get('record') or '').startswith('<anon') and not f.get('ptr') else None
    if not r or 'fields' not in r or depth > 3:
        return [f['name']]
    return ['%s.%s' % (f['name'], x) for g in r['fields'] for x in _leaves(prog, g, depth + 1)]


def lockset_rule(ctx):
    prog = ctx.prog
    M = model(prog)
    exs = exemptions(prog, M)
    P, T = M.P, M.T
    # ---- which locations are lock-protected -------------------------------------------------------------
    protected = {}     # key -> lock
    classes = {}       # pool record field key -> (ok, text)
    conf = None
    deferred = list(M.errors)      # vanished anchors break their own obligations only; reported at the end
    pool_recs = [rec for rec in (P, T) if rec is not None and 'fields' in (prog.records.get(rec) or {})]
    for rec in pool_recs:
        r = prog.records.get(rec)
        for f in r['fields']:
            key = (rec, f['name'])
            accs = [a for a in M.by_key.get(key, ()) if not a.initial]
            if key in M.lock_objects or (key in M.lock_holders and not M.by_key.get(key)):
                classes[key] = (True, 'the lock itself')
                continue
            if f.get('record') == 'iv_event' and not f.get('ptr'):
                classes[key] = (True, 'iv_event: own synchronisation')
                continue
            writes = [a for a in accs if a.kind != 'read']
            late = [a for a in writes if find_exemption(exs, M, a, any_kind=True, only_prepub=True)[0] is None]
            if not writes:
                classes[key] = (False, 'UNCLASSIFIED field of a cross-thread record: it is never written')
                continue
            if not late:
                classes[key] = (True, 'immutable after publication: %d store sites, all before the record is published'
                                % len({a.loc for a in writes}))
                continue
            if rec == T and f.get('record') not in ('iv_list_head', 'iv_avl_node', 'iv_avl_tree'):
                # (a link into a shared container is modified by whoever touches its neighbours: never confined)
                if conf is None:
                    conf = _confined_roots(prog, M)
                if conf and all(a.cx.root.q in conf for a in accs):
                    classes[key] = (True, 'touched only by the worker thread itself (thread body and handlers of the record\'s own members)')
                    continue
            L = M.lock_of(key)
            if L is None:
                a0 = late[0]
                classes[key] = (False, 'written after publication without a lock: %s (entry %s)' % (describe(a0.e), a0.cx.root.name), a0)
                continue
            protected[key] = L
            classes[key] = None       # decided below: protected iff every access holds L or is exempt
    for key in M.fields:
        if key[0] not in prog.records or not M.by_key.get(key):
            deferred.append('no access to %s.%s found' % key)
            continue
        protected[key] = M.lock_of(key)
    nglob = 0
    for key in sorted(M.by_key):
        if key[0] == 'global' and M.lock_of(key) is not None:
            protected[key] = M.lock_of(key)
            nglob += 1
    if nglob < 4:
        deferred.append('only %d lock-protected file-scope locations found' % nglob)
    # ---- every access holds the lock -------------------------------------------------------------------
    results = {}   # (anchor frame, key) -> list of (ok, access, exemption, miss)
    writers = {}   # key -> {anchor frame: event} (for owner-only exemptions)
    for key, L in protected.items():
        for a in M.by_key[key]:
            ok = L is not None and L in a.H
            ex, miss = (None, None) if ok else find_exemption(exs, M, a)
            results.setdefault((a.anchor, key), []).append((ok, a, ex, miss))
            if a.kind != 'read':
                writers.setdefault(key, {})[a.anchor] = a.e
    owner_keys = {}
    clean = {}
    for (anchor, key), lst in sorted(results.items(), key=lambda kv: (kv[0][0], str(kv[0][1]))):
        L = protected[key]
        bad = [(a, miss) for (ok, a, ex, miss) in lst if not ok and ex is None]
        used = [ex for (ok, a, ex, miss) in lst if not ok and ex is not None]
        a0, miss0 = bad[0] if bad else (lst[0][1], None)
        inst = '%s:%s.%s' % (h.short(anchor), key[0], key[1])
        for ex in used[:1]:
            ctx.exempt('R-C14a', inst, ex['why'])
        for ex in used:
            if ex.get('owner_only'):
                owner_keys[key] = ex
        if bad:
            clean[key] = False
        else:
            clean.setdefault(key, True)
        nsites = len({a.loc for (_, a, _, _) in lst})
        ctx.ob('R-C14a', inst, not bad, loc=a0.loc,
               detail=('%s accessed without %s when entered from %s: %s%s' % ('%s.%s' % key, L or 'any lock (no modification is made under a lock)',
                                                                            a0.cx.root.name, describe(a0.e),
                                                                            ('; ' + miss0) if miss0 else '')) if bad else
                      ('%d access sites in %d contexts, %s held%s' % (nsites, len({a.cx.root.q for _, a, _, _ in lst}), L,
                                                                     (' (exempt: %s)' % used[0]['why']) if used else '')),
               fn=anchor)
    # an exemption that rests on "only the owner thread writes this" obliges the writers
    for key, x in sorted(owner_keys.items()):
        ws = writers.get(key, {})
        bad = sorted(a for a in ws if a not in x['owner_only'])
        e0 = ws[bad[0]] if bad else (sorted(ws.items())[0][1] if ws else None)
        ctx.ob('R-C14a', 'owner-thread-writes:%s.%s' % key, bool(ws) and not bad, loc=e0['loc'] if e0 else None,
               detail='%s.%s is read without the lock by its owner thread, so only the owner-thread API may write it; written within: %s'
                      % (key[0], key[1], sorted(h.short(a) for a in ws)))
    if not owner_keys and pool_recs:
        deferred.append('no field of the pool record is read by the owner thread\'s event handler without the lock '
                        '(shutting-down test expected)')
    # ---- classification of the pool records' fields ------------------------------------------------------
    for rec in pool_recs:
        r = prog.records[rec]
        for f in r['fields']:
            key = (rec, f['name'])
            c = classes.get(key)
            loc = r['loc']
            if c is None:
                L = protected[key]
                ok = clean.get(key, True)
                det = ('protected by %s' % L) if ok else ('written after publication under %s but not every access holds it: neither '
                                                         'lock-protected nor immutable after publication' % L)
                if not ok:
                    b0 = [a for (an, k), lst in results.items() if k == key for (ok_, a, ex, miss) in lst if not ok_ and ex is None]
                    loc = b0[0].loc if b0 else loc
            else:
                ok, det = c[0], c[1]
                if len(c) > 2:
                    loc = c[2].loc
            # one obligation per leaf field: grouping fields into an anonymous sub-struct does not change the count
            for leaf in _leaves(prog, f):
                ctx.ob('R-C14a.tbl', '%s.%s' % (rec, leaf), ok, loc=loc, detail=det)
    # ---- lock order -------------------------------------------------------------
    order_edges = M.order_edges
    cyc = h.find_cycle(set(order_edges))
    for (a, b), (e, r) in sorted(order_edges.items()):
        ctx.ob('R-C14e', 'order:%s->%s' % (a, b), not (cyc and a in cyc and b in cyc), loc=e['loc'],
               detail='%s acquired while %s is held (entry %s)%s' % (b, a, r.name, ('; part of cycle ' + ' -> '.join(cyc)) if cyc and a in cyc and b in cyc else ''))
    if not order_edges:
        deferred.append('no nested lock acquisition found (wait lock -> event list mutex expected)')
    groups = {}
    for (e, r, H, ck, child) in M.user_under_lock:
        lm = last_member(e['fnexpr']) if 'fnexpr' in e else None
        inst = 'user-call-under-lock:%s' % ('%s.%s' % lm if lm else canon(e.get('fnexpr')))
        groups.setdefault(inst, []).append((e, r, H, lm, child))
    for inst, lst in sorted(groups.items()):
        e, r, H, lm, _ = lst[0]
        if all(child for (_, _, _, _, child) in lst):
            why = ('the caller-supplied function runs in the forked child only (single-threaded copy of the '
                   'process); the parent never runs user code under the lock')
            ctx.exempt('R-C14e', inst, why)
            ctx.ob('R-C14e', inst, True, loc=e['loc'], detail='exempt: ' + why)
        elif lm == ('iv_work_pool', 'thread_stop') or M.hook_src.get(lm) == ('iv_work_pool', 'thread_stop'):
            why = ('thread_stop hook runs with the pool lock held (man page: hooks are "not explicitly serialised"); '
                   'no listed property forbids it; recorded as exemption N2')
            ctx.exempt('R-C14e', inst, why)
            ctx.ob('R-C14e', inst, True, loc=e['loc'], detail='exempt: ' + why)
        else:
            e, r, H = [(e, r, H) for (e, r, H, _, child) in lst if not child][0]
            ctx.ob('R-C14e', inst, False, loc=e['loc'], detail='user code entered with %s held (entry %s)' % (sorted(H), r.name))
    if deferred:
        raise AnalysisBroken('; '.join(deferred))


def _creates_pool_thread(e, T):
    """a thread is created and handed a thread record of the pool"""
    if not _creates_thread(e):
        return False
    for a in e.get('args', []):
        v = strip(a)
        if isinstance(v, dict) and v.get('record') == T and v.get('ptr'):
            return True
    return False


def _touched(e, al, recs, rec):
    """[(object expression, kind)] the event accesses inside an object of record type rec (lock operations and
    addresses handed to functions that are not inlined included)"""
    return [(x, kind) for (x, kind) in access_items(e, al) if any(k[0] == rec for k in keys_of(x, al, recs))]


def claim_release(ctx):
    """R-C14f.  The pool record is freed by its owner as soon as it sees, under the pool lock, that no thread has a
    claim on it any more.  The claim of a worker is its unit in the count of live threads: the integer inside the pool
    record that only contexts which create a thread for the pool step one way (the take, made on behalf of the new
    thread) and that is stepped back elsewhere (the give-up).  From the give-up on, the only thing that keeps the
    owner from freeing the record is the lock the worker still holds: every access to the record (its lock included)
    that may follow the give-up must be made before that lock is released for the first time.  Evaluated in every
    context that contains a give-up, helpers inlined; what matters is the order of events on paths, not how the code is
    cut into functions, nor whether the count runs up or down or where in the record it lives."""
    prog = ctx.prog
    M = model(prog)
    P, T = M.P, M.T
    if P is None or T is None:
        raise AnalysisBroken('work pool records not found')
    # ---- the count of claims: stepped both ways, one way only where a thread is created for the pool -----------
    steps = {}       # path -> dir -> [(cx, b, i, e, H)]
    creating = set()
    for cx in M.cxs:
        for b, i, e, H in cx.points():
            if _creates_pool_thread(e, T):
                creating.add(cx.root.q)
            st = h.step_of(e, P, cx.al) if e['ev'] == 'store' else None
            if st is not None:
                steps.setdefault(st[0], {}).setdefault(st[1], []).append((cx, b, i, e, H))
    counts = {}      # path -> direction of the give-up
    for path, d in steps.items():
        if len(d) != 2:
            continue
        take = [dr for dr, lst in d.items() if all(cx.root.q in creating for (cx, _, _, _, _) in lst)]
        if len(take) != 1:
            continue
        give = 'down' if take[0] == 'up' else 'up'
        if any(cx.root.q not in creating for (cx, _, _, _, _) in d[give]):
            counts[path] = give
    if not counts:
        raise AnalysisBroken('work pool: no count of live threads found in %s (an integer that only thread-creating contexts step one '
                             'way and that a worker steps back)' % P)
    bodies = _uniq_funcs(fs_ for (_, e, fs) in h.call_func_args(prog, h.THREAD_CREATE) if _creates_pool_thread(e, T) for fs_ in fs)
    by_root = {cx.root.q: cx for cx in M.cxs}
    for path, give in sorted(counts.items()):
        name = '%s.%s' % (P, '.'.join(path))
        key = (P, path[0])
        L = M.lock_of(key)
        sites = {}        # anchor frame of the give-up -> dict(locs, roots, bad)
        by_cx = {}
        loc2anchor = {}
        for (cx, b, i, e, H) in steps[path][give]:
            by_cx.setdefault(cx.root.q, (cx, {}))[1].setdefault(id(e), True)
            if L is None or L not in H:
                by_cx[cx.root.q][1][id(e)] = False
            an = h.anchor_frame(prog, e, cx.root)
            s_ = sites.setdefault(an, dict(locs={}, roots=set(), bad=[], e=e))
            s_['locs'][e.get('loc')] = an
            s_['roots'].add(cx.root.name)
            loc2anchor[(cx.root.q, e.get('loc'))] = an
        for q, (cx, stp) in sorted(by_cx.items()):
            ev_in = h.claim_regions(cx.g, cx.eff, L, stp)
            for b, i, e, H in cx.points():
                closed = [x for x in (ev_in.get((b, i)) or ()) if x[0] == 'closed']
                if not closed:
                    continue
                tch = _touched(e, cx.al, M.recs, P)
                if not tch:
                    continue
                for c in sorted(closed, key=str):
                    an = loc2anchor.get((cx.root.q, c[1]))
                    if an is not None:
                        sites[an]['bad'].append((e, c, cx, tch[0]))
        for an, s_ in sorted(sites.items()):
            # (reported: the first access in the source file where the claim was given up, else the first one)
            def site(t):
                # where the access is made, seen from the source file in which the claim was given up: the access itself,
                # or the call in that file through which an inlined function makes it
                e, c = t[0], t[1]
                fl = h.loc_order(c[1])[0]
                if h.loc_order(e.get('loc'))[0] == fl:
                    return e.get('loc')
                for (_, cl, _) in reversed(e.get('chain') or []):
                    if h.loc_order(cl)[0] == fl:
                        return cl
                return e.get('loc')
            bad = sorted(s_['bad'], key=lambda t: (h.loc_order(site(t))[0] != h.loc_order(t[1][1])[0], h.loc_order(site(t)),
                                                   h.loc_order(t[0].get('loc'))))
            inst = 'released:%s:%s' % (name, h.short(an))
            if bad:
                e, c, cx, (x, kind) = bad[0]
                nb = len({site(t) for t in bad})
                det = ('%s (%s %s) after this thread gave up its claim on the pool (%s stepped %s at %s) and %s: the owner may '
                       'already have destroyed and freed the pool (entry %s; %d such access sites)'
                       % (describe(e), 'lock operation on' if kind == 'lockop' else kind + ' of', canon(x), name, give, relpath(c[1]),
                          ('released %s at %s' % (L, relpath(c[2]))) if c[2] else ('did not hold %s there' % (L or 'any lock')),
                          cx.root.name, nb))
                ctx.ob('R-C14f', inst, False, loc=site(bad[0]), detail=det, fn=an,
                       path=['give-up: %s' % relpath(c[1])] + (['lock released: %s' % relpath(c[2])] if c[2] else []) +
                            ['access: %s' % relpath(e.get('loc'))])
            else:
                ctx.ob('R-C14f', inst, True, loc=s_['e'].get('loc'),
                       detail='%s stepped %s with %s held at %d sites (entries %s); no access to %s follows the first release of the lock'
                              % (name, give, L, len(s_['locs']), sorted(s_['roots']), P), fn=an)
    # ---- after the loop -------------------------------------------------------------------------------------------
    if not bodies:
        raise AnalysisBroken('work pool: no thread body found')

    def runs_loop(e, al):
        return e['ev'] in ('call', 'enter') and e.get('callee') == 'iv_main'
    for f in bodies:
        cx = by_root.get(f.q)
        if cx is None:
            raise AnalysisBroken('thread body %s is not an entry point' % f.name)
        own = any(cx2.root.q == f.q for path, give in counts.items() for (cx2, _, _, _, _) in steps[path][give])
        inst = 'released:after-loop:%s' % f.name
        if own:
            ctx.ob('R-C14f', inst, True, loc=f.loc, detail='the thread body gives the claim up itself (judged above)', fn=f.q)
            continue
        if not any(runs_loop(e, cx.al) for e in cx.g.events()):
            raise AnalysisBroken('thread body %s neither gives up its claim on the pool nor runs the event loop' % f.name)
        bad = []
        for b, i, e, H in cx.points():
            if cx.may_follow('event loop ended', runs_loop, b, i):
                tch = _touched(e, cx.al, M.recs, P)
                if tch and not runs_loop(e, cx.al):
                    bad.append((e, tch[0]))
        bad.sort(key=lambda t: h.loc_order(t[0].get('loc')))
        ctx.ob('R-C14f', inst, not bad, loc=(bad[0][0].get('loc') if bad else f.loc),
               detail=('%s (%s of %s) after the thread\'s event loop has ended: the handlers of the thread record, one of which '
                       'gave up the thread\'s claim on the pool, have run and been unregistered by then; the owner may have freed the pool'
                       % (describe(bad[0][0]), bad[0][1][1], canon(bad[0][1][0]))) if bad else
                      'the claim is given up by a handler that runs inside the loop; nothing after iv_main() touches %s' % P, fn=f.q)


def _uniq_funcs(fs):
    out, seen = [], set()
    for f in fs:
        if f is not None and f.q not in seen:
            seen.add(f.q)
            out.append(f)
    return out


def confinement(ctx):
    prog = ctx.prog
    M = model(prog)
    f = h.api(prog, 'iv_event_post')[0]
    g = Inliner(prog, expand_methods=True).inline(f)
    # variables holding the owner pointer
    owners = set()
    for e in g.events():
        if e['ev'] in ('store', 'decl'):
            rhs = e.get('rhs') if e['ev'] == 'store' else e.get('init')
            if rhs is not None and last_member(rhs) == ('iv_event', 'owner'):
                owners.add(canon(e['lhs']) if e['ev'] == 'store' else e['name'])
    if not owners and not any(e['ev'] == 'load' and last_member(e['e']) == ('iv_event', 'owner') for e in g.events()):
        raise AnalysisBroken('iv_event_post: owner pointer not found')
    # propagate copies (parameter temporaries)
    changed = True
    while changed:
        changed = False
        for e in g.events():
            if e['ev'] == 'store' and strip(e['lhs']).get('k') == 'var' and 'rhs' in e:
                r = strip(e['rhs'])
                if isinstance(r, dict) and r.get('k') == 'var' and r['name'] in owners and strip(e['lhs'])['name'] not in owners:
                    owners.add(strip(e['lhs'])['name'])
                    changed = True
    ls = h.locksets_in(g)
    al = h.addr_aliases(g)
    send_fns = {x.q for x in prog.slot_targets('event_send')}
    # where `owner == iv_get_state()` holds the state is the poster's own, whichever pointer it is reached through
    selfvars = set()
    for e in g.events():
        if e['ev'] == 'store' and e.get('op') == '=' and 'rhs' in e:
            v, l = strip(e['rhs']), strip(e['lhs'])
            if isinstance(v, dict) and v.get('k') == 'call' and v.get('callee') == 'iv_get_state' and l.get('k') == 'var':
                selfvars.add(l['name'])

    def is_self(x):
        v = strip(x)
        return isinstance(v, dict) and ((v.get('k') == 'call' and v.get('callee') == 'iv_get_state') or
                                        (v.get('k') == 'var' and v['name'] in selfvars))

    def is_owner(x):
        v = strip(x)
        return isinstance(v, dict) and ((v.get('k') == 'var' and v['name'] in owners) or last_member(v) == ('iv_event', 'owner'))

    def own_kills(e):
        if e['ev'] == 'store':
            l = strip(e['lhs'])
            if l.get('k') == 'var':
                return {l['name']}
            if last_member(e['lhs']) == ('iv_event', 'owner'):
                return 'all'
        return None

    def own_facts(blk, si):
        out = set()
        for (op, lc, rc, l, r) in h.norm_cond(blk.term['cond'], si == 0):
            if op == '==' and isinstance(l, dict) and isinstance(r, dict):
                if is_owner(l) and is_self(r):
                    out.add(canon(strip(l)))
                elif is_owner(r) and is_self(l):
                    out.add(canon(strip(r)))
        return out
    # (must-analysis over the feasible paths: the outcome of the comparison may be recorded in a local discriminator
    # -- `kick = LOCAL; ... switch (kick)` -- and acted upon later: h.guarded_must)
    own_at = h.guarded_must(g, own_facts, own_kills)
    fields = {}
    for b, blk in g.blocks.items():
        for i, e in enumerate(blk.events):
            for (x, kind) in access_items(e, al):
                y = x
                chain = []
                n = 0
                while isinstance(y, dict) and y.get('k') in ('member', 'index', 'cast', 'load') and n < 64:
                    n += 1
                    if y.get('k') == 'member':
                        chain.append(y)
                        if y['arrow']:
                            t = h._alias_target(y['base'], al)
                            if t is None:
                                break
                            y = t
                        else:
                            y = y['base']
                    elif y.get('k') == 'index':
                        y = y['base']
                    else:
                        y = y['e']
                if not chain or not chain[-1]['arrow']:
                    continue
                top = chain[-1]
                b0 = strip(top['base'])
                if top.get('record') == 'iv_state' and isinstance(b0, dict) and (
                        (b0.get('k') == 'var' and b0['name'] in owners) or last_member(b0) == ('iv_event', 'owner')):
                    if canon(b0) in (own_at.get((b, i)) or ()):
                        continue       # owner == iv_get_state() holds here: the poster's own state
                    steps = {(m.get('record'), m['field']) for m in chain}
                    # the list lock and the pending list are obligations of their own, whatever sub-struct they live in
                    name = top['field']
                    if kind == 'lockop':
                        name = chain[0]['field']
                    elif steps & M.pending:
                        name = sorted(steps & M.pending)[0][1]
                    role = ('kick' if top.get('trecord') == 'iv_event_raw' and not top.get('tptr') else
                            'method' if set(h.frames(e, f)) & send_fns else None)
                    fields.setdefault(name, []).append((kind, e, held(ls.get((b, i))), steps, role))
    if not fields:
        raise AnalysisBroken('iv_event_post: no access through the owner pointer found')
    seen_lock = seen_pending = False
    for fld, lst in sorted(fields.items()):
        e0 = lst[0][1]
        bad = []
        what = set()
        for (kind, e, H, steps, topf) in lst:
            if kind == 'lockop':
                what.add('the owner\'s list lock')      # taking/releasing a lock inside the owner's state
                seen_lock = True
            elif steps & M.pending:
                what.add('the pending list, accessed under its lock')
                seen_pending = True
                L = M.lock_of(sorted(steps & M.pending)[0])
                if L is None or L not in H:
                    bad.append(e)
            elif topf == 'kick' and kind in ('read', 'extern'):
                what.add('read of the raw-event wake-up object (written only while the owner has no event registered)')
            elif topf == 'method' and kind == 'read':
                what.add('read of poll-method state by the event_send slot of the running method')
            else:
                bad.append(e)
        ctx.ob('R-C14b', 'iv_event_post:owner->%s' % fld, not bad, loc=(bad[0] if bad else e0)['loc'],
               detail=('; '.join(sorted(what)) if not bad else
                       'thread-confined field of another thread\'s loop state accessed by a poster (allowed: the list lock, the pending list '
                       'under it, reads of the raw-event wake-up object, reads made by the event_send slot): %s'
                       % describe(bad[0])),
               fn=f.q)
    if not (seen_lock and seen_pending):
        raise AnalysisBroken('iv_event_post: the owner\'s list lock / pending list are not reached through the owner pointer')
    # who follows an event's owner pointer: only code that runs as part of iv_event_post (any thread) or
    # iv_event_unregister (owner thread only, documented), whatever helpers they are cut into
    allowed = {x.q for x in h.api(prog, 'iv_event_post', 'iv_event_unregister')}
    readers = {}
    for fn in prog.all_funcs():
        for e in fn.events():
            if e['ev'] == 'load' and last_member(e['e']) == ('iv_event', 'owner'):
                readers.setdefault(fn.q, fn)
    stray = sorted(q for q, fn in readers.items() if not h.only_within(prog, fn, allowed))
    ctx.ob('R-C14b', 'iv_event.owner:readers', bool(readers) and not stray, loc=f.loc,
           detail='functions that follow an event\'s owner pointer: %s; reachable other than through iv_event_post / iv_event_unregister: %s '
                  '(post: any thread; unregister: owner thread only, documented)' % (sorted(h.short(q) for q in readers), stray or 'none'))


def _table_value(v):
    """the stored value is (the address of) a poll-method table: judged by type, not by how it is spelled"""
    v = strip(v)
    if not isinstance(v, dict) or v.get('k') in ('null', 'int'):
        return False
    if v.get('k') == 'addr':
        return strip(v['e']).get('record') == 'iv_fd_poll_method'
    if v.get('k') == 'cond':
        return _table_value(v.get('a')) and _table_value(v.get('b'))
    return (v.get('record') == 'iv_fd_poll_method' and v.get('k') == 'var') or \
        ('iv_fd_poll_method' in (v.get('type') or '') and '*' in (v.get('type') or ''))


def _loc_type(a):
    """('table' | 'int' | 'other') kind of value the stored-to location holds, from the type of the lvalue"""
    l = strip(a.e['lhs']) if a.e['ev'] == 'store' else None
    if not isinstance(l, dict):
        return 'other'
    while l.get('k') == 'index':
        l = strip_load(l['base'])
        l = strip(l)
    rec = l.get('record') if l.get('k') == 'var' else l.get('trecord')
    ptr = l.get('ptr') if l.get('k') == 'var' else l.get('tptr')
    ty = l.get('type') or ''
    if rec == 'iv_fd_poll_method' and ptr:
        return 'table'
    if rec or '*' in ty or '(' in ty or 'struct ' in ty or 'union ' in ty:
        return 'other'
    return 'int'


def _global_init(prog, path):
    """integer initial value of a file-scope location (0 when it has no initialiser)"""
    parts = path.split('.')
    inits = [g.get('init') for k, g in prog.globals.items() if g.get('name') == parts[0] and not g.get('extern_decl')]
    vals = set()
    for iv in inits or [None]:
        for p in parts[1:]:
            iv = iv.get('fields', {}).get(p) if isinstance(iv, dict) and iv.get('k') == 'init' else None
        v = h._intval(iv) if iv is not None else 0
        vals.add(0 if v is None else v)
    return vals


def _store_value(e):
    """integer a store writes (NULL = 0; the address of a method table = 1), or None"""
    if e.get('op') != '=' or 'rhs' not in e:
        return None
    v = h._intval(e['rhs'])
    if v is not None:
        return v
    return 1 if _table_value(e['rhs']) else None


def _relative_step(a, name):
    """+1 / -1 / 0 when the store `a` to the integer flag `name` writes a value that lies at or beyond the value the
    flag was last observed to have, in a known direction: `F++`, `F += k`, `F = X + k`, `F = X - k`, `F = X` (k a
    positive constant) where X is a read of the flag or a local that *tracks* it: every assignment to the local in
    this context is a copy of the flag or a step by a positive constant in the same direction (`for (i = F; ...; i++)`).
    None when nothing of the kind can be said."""
    e = a.e
    al = a.cx.al

    def is_flag(x):
        gp = h.gpath(x, al, cached_ok=True)
        return gp is not None and '.'.join(gp) == name

    def posconst(x):
        v = h._intval(x)
        return v if v is not None and v > 0 else None

    def tracked(x, sign):
        """x reads the flag, or a local tracking it in direction sign (+1 / -1; 0: either, returns the direction found)"""
        if is_flag(x):
            return sign or 0
        v = strip(x)
        if not (isinstance(v, dict) and v.get('k') == 'var' and v.get('vk') not in ('global', 'staticlocal', 'func')):
            return None
        dirs = set()
        ndefs = 0
        for d in a.cx.g.events():
            if d['ev'] != 'store':
                continue
            l = strip(d['lhs'])
            if not (isinstance(l, dict) and l.get('k') == 'var' and l['name'] == v['name']):
                continue
            ndefs += 1
            op = d.get('op')
            if op == '=' and 'rhs' in d:
                r = strip(d['rhs'])
                if is_flag(d['rhs']):
                    continue
                if isinstance(r, dict) and r.get('k') == 'bin' and r.get('op') in ('+', '-'):
                    lv, rv = strip(r['l']), strip(r['r'])
                    if isinstance(lv, dict) and lv.get('k') == 'var' and lv['name'] == v['name'] and posconst(r['r']):
                        dirs.add(1 if r['op'] == '+' else -1)
                        continue
                return None
            if op in ('++', '--'):
                dirs.add(1 if op == '++' else -1)
            elif op in ('+=', '-=') and 'rhs' in d and posconst(d['rhs']):
                dirs.add(1 if op == '+=' else -1)
            else:
                return None
        if not ndefs or len(dirs) > 1:
            return None
        d0 = dirs.pop() if dirs else 0
        if sign and d0 and d0 != sign:
            return None
        return d0 or sign or 0
    if e['ev'] != 'store':
        return None
    gp = h.gpath(e['lhs'], al)
    if gp is None or '.'.join(gp) != name:
        return None
    op = e.get('op')
    if op in ('++', '--'):
        return 1 if op == '++' else -1
    if op in ('+=', '-=') and 'rhs' in e and posconst(e['rhs']):
        return 1 if op == '+=' else -1
    if op != '=' or 'rhs' not in e:
        return None
    r = strip(e['rhs'])
    if isinstance(r, dict) and r.get('k') == 'bin' and r.get('op') in ('+', '-'):
        sign = 1 if r['op'] == '+' else -1
        if posconst(r['r']) and tracked(r['l'], sign) is not None:
            return sign
        if r['op'] == '+' and posconst(r['l']) and tracked(r['r'], 1) is not None:
            return 1
        return None
    return tracked(e['rhs'], 0)


def one_way(ctx):
    prog = ctx.prog
    M = model(prog)
    slot_fns = set()
    for t, slots in prog.method_tables().items():
        for s_, v in slots.items():
            if v and v[0] != 'str':
                fn = prog.resolve(v[0], v[1])
                if fn is not None:
                    slot_fns.add(fn.q)
    # file-scope locations that are modified somewhere but by no site under a lock (R-C14a covers the others)
    cand = {}
    for key, lst in M.by_key.items():
        if key[0] != 'global' or M.lock_of(key) is not None:
            continue
        ws = [a for a in lst if a.kind != 'read' and not a.initial]
        if ws:
            cand[key[1]] = ws
    kinds = {}
    for name, ws in cand.items():
        ks = {_loc_type(a) for a in ws if a.e['ev'] == 'store'}
        kinds[name] = ks.pop() if len(ks) == 1 else 'other'
    domains = {}
    for name, ws in cand.items():
        if kinds[name] in ('int', 'table'):
            d = set(_global_init(prog, name))
            for a in ws:
                v = _store_value(a.e) if a.e['ev'] == 'store' and h.gpath(a.e['lhs'], a.cx.al) is not None \
                    and '.'.join(h.gpath(a.e['lhs'], a.cx.al)) == name else None
                if v is not None:
                    d.add(v)
            domains[name] = frozenset(d)
    # possible values of the flags at every write, per context
    vals = {}

    def values_at(a):
        cx = a.cx
        if cx not in vals:
            vals[cx] = h.flag_values(cx.g, domains, _store_value)
        ev_in, getv = vals[cx]
        S = ev_in.get((a.b, a.i))
        return (lambda f: getv(S, f)) if S is not None else (lambda f: domains[f])
    # flags of the set-up phase: integer flags that only iv_init (first initialisation of the library) moves
    init_api = {f.q for f in h.api(prog, 'iv_init')}
    init_flags = set()
    for name, ws in cand.items():
        if kinds[name] == 'int' and all(a.e['ev'] == 'store' and _store_value(a.e) is not None and
                                        h.only_via(prog, prog.funcs.get(a.e.get('fn')) or a.cx.root, init_api) for a in ws):
            init_flags.add(name)

    def in_setup(a):
        v = values_at(a)
        return any(v(f) and v(f) <= frozenset(_global_init(prog, f)) for f in init_flags)

    by_root = {cx.root.q: cx for cx in M.cxs}
    pure = {}

    def pure_setter(a):
        """the access is the whole effect of a public set-up call: that API function (everything inlined) calls
        nothing and stores to no other memory"""
        k = (a.anchor, a.key)
        if k not in pure:
            cx = by_root.get(a.anchor)
            ok = cx is not None and a.anchor in h.public_api(prog)
            for e in (cx.g.events() if ok else ()):
                if e['ev'] == 'call':
                    ok = False
                elif e['ev'] == 'store':
                    rt = lvalue_root(e['lhs'])
                    if rt is None:
                        ok = False
                    elif rt.get('vk') in ('global', 'staticlocal'):
                        gp = h.gpath(e['lhs'], cx.al)
                        if gp is None or '.'.join(gp) != a.key[1]:
                            ok = False
            pure[k] = ok
        return pure[k]
    nflags = 0
    ntables = 0
    for name, ws in sorted(cand.items()):
        kind = kinds[name]
        first = ws[0]
        if all(pure_setter(a) for a in ws):
            why = 'configuration: only written by a set-up call that does nothing else (%s); documented as not thread-safe configuration' % \
                  ', '.join(sorted({h.short(a.anchor) for a in ws}))
            inst = '%s:configuration' % name
            ctx.exempt('R-C14c', inst, why)
            ctx.ob('R-C14c', inst, True, loc=first.loc, detail=why)
            continue
        if name not in init_flags and init_flags and all(in_setup(a) for a in ws):
            why = ('set-up phase: only written while a flag that the first iv_init moves still has its initial value (%s); '
                   'the first iv_init is documented to complete before other threads use the library' % ', '.join(sorted(init_flags)))
            inst = '%s:set-up-phase' % name
            ctx.exempt('R-C14c', inst, why)
            ctx.ob('R-C14c', inst, True, loc=first.loc, detail=why)
            continue
        if kind == 'other':
            bad = [a for a in ws if not a.H - {SIGBLOCK}] or ws
            ctx.ob('R-C14c', '%s:unclassified' % name, False, loc=bad[0].loc,
                   detail='file-scope location modified without a lock (%s, entry %s); neither a one-way flag nor configuration nor set-up data'
                          % (describe(bad[0].e), bad[0].cx.root.name))
            continue
        by_site = {}
        for a in ws:
            by_site.setdefault((a.anchor, a.loc), []).append(a)
        trans = set()
        rel = set()        # directions of the stores that step from the observed value
        for (anchor, loc), group in sorted(by_site.items(), key=str):
            a0 = group[0]
            inst = '%s:%s' % (name, h.short(anchor))
            svals = [(_store_value(a.e) if a.e['ev'] == 'store' and '.'.join(h.gpath(a.e['lhs'], a.cx.al) or ()) == name else None)
                     for a in group]
            vok = all(v is not None for v in svals)
            if kind == 'int':
                steps = [None if v is not None else _relative_step(a, name) for a, v in zip(group, svals)]
                if not vok and all(v is not None or st is not None for v, st in zip(svals, steps)):
                    vok = True
                    rel |= {st for st in steps if st is not None}
                    det = 'stores a value at or %s the one the flag was observed to have: %s' % (
                        'beyond' if any(steps) else 'equal to', describe(a0.e))
                else:
                    det = 'stores the constant %s' % svals[0] if vok else \
                        'stored value is neither a compile-time constant nor a step from the observed value in a known direction: %s' % describe(a0.e)
                why = 'one-way flag'
            else:
                firsts = all(values_at(a)(name) <= frozenset([0]) for a in group)
                fallback = all(any(q in slot_fns for q in h.frames(a.e, a.cx.root)) for a in group)
                vok = vok and all(v == 1 for v in svals) and (firsts or fallback)
                det = ('first selection (the pointer is still NULL)' if firsts else 'fallback made by the running poll method itself' if fallback
                       else 'neither guarded by a NULL test of the pointer nor made by a poll-method slot function') + '; stored value %s' % (
                           canon(a0.e.get('rhs')) if 'rhs' in a0.e else a0.e.get('op'))
                why = 'selected during the first iv_init; later only compatible fallbacks (C15)'
            ctx.ob('R-C14c', inst, vok, loc=a0.loc, detail='%s; %s' % (why, det), fn=anchor)
            for a, c in zip(group, svals):
                if c is not None:
                    for d in values_at(a)(name):
                        if d != c:
                            trans.add((d, c))
        if kind == 'int':
            nflags += 1
            # value transitions: a store of c moves every value the flag can have there (as last observed) to c
            cyc = h.find_cycle(trans)
            dirs = rel - {0}
            if rel:
                # stores relative to the observed value: all of them, and every constant store, must move the same way
                against = sorted((d, c) for (d, c) in trans if dirs and ((c < d) if 1 in dirs else (c > d)))
                ok = len(dirs) <= 1 and not against and not cyc
                det = 'stepping stores move %s; constant transitions %s%s' % (
                    {1: 'up', -1: 'down'}.get(next(iter(dirs)), '?') if len(dirs) == 1 else ('nowhere' if not dirs else 'both ways'),
                    sorted(trans), (': against that direction: %s' % against) if against else '')
                ctx.ob('R-C14c', '%s:one-way' % name, ok, loc=first.loc, detail=det)
            else:
                ctx.ob('R-C14c', '%s:one-way' % name, not cyc, loc=first.loc,
                       detail=('transitions %s' % sorted(trans)) + ((': value can come back: ' + ' -> '.join(str(x) for x in cyc)) if cyc else ': no value is ever restored'))
        else:
            ntables += 1
    if nflags < 5 or ntables < 1:
        raise AnalysisBroken('one-way flags: only %d integer flags and %d method-table pointers found' % (nflags, ntables))


def signal_context(ctx):
    prog = ctx.prog
    installs = h.signal_installs(prog)
    if not installs:
        raise AnalysisBroken('no function is installed as a process signal handler (sa_handler)')
    contexts(prog)
    masks = prog._c14_masks
    handlers = {}
    for (hf, inst, e) in installs:
        handlers.setdefault(hf.q, (hf, e))
    ext = {}
    seen = {}
    for q, (hf, ie) in sorted(handlers.items()):
        ctx.ob('R-C14d', 'signal-handler:all-signals-blocked', masks.get(q, False), loc=ie['loc'],
               detail='the handler takes a spinlock and walks trees that only blocking signals protects: it must be installed with a '
                      'full sa_mask (sigfillset on the same sigaction object on every path to sigaction())')
        work = [(hf, [hf.name])]
        while work:
            f, path = work.pop()
            if f.q in seen:
                continue
            seen[f.q] = path
            u = prog.unit_of(f)
            for e in f.events():
                if e['ev'] != 'call':
                    continue
                if f.blocks[e['_b']].noreturn:
                    continue          # argument evaluation of / the fatal call itself: the process aborts
                if 'callee' in e:
                    g = prog.resolve(u, e['callee']) if u else prog.funcs.get(e['callee'])
                    if g is not None and g.blocks:
                        if g.noreturn or e.get('noreturn'):
                            continue      # fatal handler: aborts the process
                        work.append((g, path + [g.name]))
                    else:
                        if e.get('noreturn'):
                            continue
                        ext.setdefault(e['callee'], (e, path))
                else:
                    ts = h.table_call_targets(prog, e)
                    if ts:
                        for g in ts:
                            work.append((g, path + [g.name]))
                    else:
                        ext.setdefault('<indirect %s>' % canon(e['fnexpr']), (e, path))
    for name, (e, path) in sorted(ext.items()):
        ok = name in SIGNAL_SAFE_EXTERNAL
        ctx.ob('R-C14d', 'signal-handler-reaches:%s' % name, ok, loc=e['loc'],
               detail='via %s' % ' > '.join(path))
    bad = [q for q in seen if q.split(':')[-1].startswith('___mutex_') or q.split(':')[-1] in ('iv_event_post', 'malloc', 'free')]
    h0 = sorted(handlers.items())[0][1][0]
    ctx.ob('R-C14d', 'signal-handler:no-mutex', not bad, loc=h0.loc,
           detail='repo functions reachable: %d; mutex/allocating ones: %s' % (len(seen), bad or 'none'))


def active_fd(ctx):
    """The shared wake-up descriptor (what the event_rx_on slot creates) and its reference count (what event_rx_on
    steps up and event_rx_off steps down) are protected by one lock; the accesses themselves are R-C14a obligations
    of lockset_rule (the descriptor may be read without the lock only while the reader holds a reference: never
    after its own reference was dropped)."""
    prog = ctx.prog
    M = model(prog)
    if not M.refcounts or not M.descriptors:
        raise AnalysisBroken('event_rx_on/event_rx_off slots: no reference-counted shared descriptor found (counts %s, descriptors %s)'
                             % (sorted(k[1] for k in M.refcounts), sorted(k[1] for k in M.descriptors)))
    locks = {M.lock_of(k) for k in M.refcounts}
    for key in sorted(M.refcounts | M.descriptors):
        L = M.lock_of(key)
        ws = [a for a in M.by_key[key] if a.kind != 'read' and not a.initial]
        bad = [a for a in ws if L is None or L not in a.H]
        ok = L is not None and locks == {L} and not bad
        a0 = (bad or ws or M.by_key[key])[0]
        ctx.ob('R-C14a', 'active-fd:%s:%s' % (key[1], 'count' if key in M.refcounts else 'descriptor'), ok, loc=a0.loc,
               detail=('written with %s held, the lock of the reference count' % L) if ok else
                      ('%s is modified without the lock that protects the reference count (%s): %s' % (key[1], sorted(str(l) for l in locks), describe(a0.e))))
    # anchor: the descriptor is used in the dynamic extent of each of the three wake-up slots
    for slot in ('event_rx_on', 'event_rx_off', 'event_send'):
        fs = {f.q for f in prog.slot_targets(slot)}
        if not any(set(h.frames(a.e, a.cx.root)) & fs for k in M.descriptors for a in M.by_key[k]):
            raise AnalysisBroken('the shared wake-up descriptor is not accessed by any %s slot function' % slot)
