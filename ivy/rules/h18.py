"""Helpers of the C18 rules (memory/descriptor hygiene).

Everything in here is property-independent machinery that the C18 rules need and the shared
core does not (yet) offer:

  holding2      branch-atom must analysis; like analyses.holding, but an atom spelled with a
                *caching local* (`idx` for `fd->u.index`) depends on that local only
  View          one function (plain, with helpers inlined, or a root with everything inlined)
                with its atoms, definitions, value ranges, single-definition resolution
  site_verdict  evaluates a site obligation in the function itself, then with its helpers
                inlined, then in every calling context (public/handler roots) that reaches it
  path_states   disjunctive forward analysis (fact x abstract return-value environment)
  path_key      structural identity of an access path (record/field steps, no variable names)
"""
import re

from ..core import (AnalysisBroken, canon, strip, strip_load, walk, norm_cond, forward, last_member,
                    lvalue_steps, lvalue_root, names_of, field_chain)
from ..analyses import _mem_keys, atoms_imply, aval, refine, relevant_vars, _envkey, callback_kind
from .. import roles

INF = float('inf')


# --------------------------------------------------------------------------
# structural identity of access paths
# --------------------------------------------------------------------------

def path_key(x):
    """(record, field) steps of an access path `v->a.b.c` / `g.a.b`, without the spelling of the
    root variable: two functions that name their state parameter differently agree on it."""
    x = strip(x)
    if not isinstance(x, dict) or x.get('k') != 'member':
        return None
    base, chain = field_chain(x)
    if not chain:
        return None
    b = strip(base) if isinstance(base, dict) else None
    root = None
    if isinstance(b, dict) and b.get('k') == 'var' and b.get('vk') in ('global', 'staticlocal'):
        root = b['name']
    return (root,) + tuple(chain)


def var_name(x):
    x = strip(x)
    if isinstance(x, dict) and x.get('k') == 'var' and x.get('vk') != 'func':
        return x['name']
    return None


def plain_lhs(lhs):
    """the variable node a store of the form `*&v = ...` writes (an out-parameter that became the caller's `&v` when
    the helper was inlined), else None"""
    l = strip(lhs)
    if isinstance(l, dict) and l.get('k') == 'deref':
        a = strip(l.get('e'))
        if isinstance(a, dict) and a.get('k') == 'addr':
            v = strip(a.get('e'))
            if isinstance(v, dict) and v.get('k') == 'var':
                return v
    return None


def escaped_locals(g):
    """names of the variables whose address leaves the analysed code: taken anywhere except (a) directly under a
    dereference (`*&v`), (b) as an argument of a call whose body was inlined (the callee's uses of the parameter are
    then in sight, with `&v` in its place), (c) in a bare read of the address value"""
    esc = set()

    def visit(n, under_deref):
        if isinstance(n, list):
            for y in n:
                visit(y, False)
            return
        if not isinstance(n, dict):
            return
        k = n.get('k')
        if k == 'addr':
            v = strip(n.get('e'))
            if isinstance(v, dict) and v.get('k') == 'var':
                if not under_deref:
                    esc.add(v['name'])
                return
        for key, v in n.items():
            if key == 'sizeof' or not isinstance(v, (dict, list)):
                continue
            if k == 'deref' and key == 'e':
                visit(v, True)
            elif k in ('load', 'cast') and key == 'e':
                visit(v, under_deref)
            else:
                visit(v, False)
    for e in g.events():
        if e['ev'] == 'enter':
            continue
        if e['ev'] == 'load':
            t = strip(e.get('e'))
            if isinstance(t, dict) and t.get('k') == 'addr':
                continue
        for key, v in e.items():
            if isinstance(v, (dict, list)) and key not in ('chain',):
                visit(v, False)
    for b in g.blocks.values():
        if b.term and isinstance(b.term.get('cond'), dict):
            visit(b.term['cond'], False)
    return esc


def intlit(s):
    try:
        return int(s)
    except (TypeError, ValueError):
        return None


# --------------------------------------------------------------------------
# atoms that hold (local equivalent of analyses.holding with per-spelling kill keys)
# --------------------------------------------------------------------------

def _akeys(name, expr):
    """kill keys of one operand of an atom that is spelled `name`: when `name` is the local the
    value was cached in (copy propagation replaced its read), the atom speaks about that local."""
    if not isinstance(expr, dict):
        return set()
    if name != canon(expr) and name in names_of(expr):
        return {('var', name)}
    return _mem_keys(expr)


def _unsigned_cast(x):
    while isinstance(x, dict) and x.get('k') in ('load', 'cast', 'paren', 'stmtexpr') and isinstance(x.get('e'), dict):
        if x.get('k') == 'cast' and '*' not in str(x.get('to', '')) and type_range(str(x.get('to', '')))[0] == 0:
            return True
        x = x['e']
    return False


def _pure_path(x):
    for y in walk(x):
        if y.get('k') in ('call', 'assign', 'incdec', 'stmtexpr', 'other', 'deep', 'va_arg', 'cond'):
            return False
    return True


_FLIP = {'<': '>', '<=': '>=', '>': '<', '>=': '<=', '==': '==', '!=': '!='}
# what an atom `x OP U` (U symbolic, not mentioning x) becomes when x is lowered / raised by a positive amount
_AFTER_DEC = {'==': '<', '<=': '<', '<': '<', '>': '>='}
_AFTER_INC = {'==': '>', '>=': '>', '>': '>', '<': '<='}
# the strongest relation implied by either of two relations between the same operands (join of two paths)
_WEAKEN = {frozenset(('==', '<')): '<=', frozenset(('==', '<=')): '<=', frozenset(('<', '<=')): '<=',
           frozenset(('==', '>')): '>=', frozenset(('==', '>=')): '>=', frozenset(('>', '>=')): '>=',
           frozenset(('<', '>')): '!=', frozenset(('<', '!=')): '!=', frozenset(('>', '!=')): '!='}


def _word_in(name, text):
    return re.search(r'(?<![\w.>~@#])%s(?![\w~@#])' % re.escape(name), text) is not None


def _shift_atoms(S, name, delta):
    """atoms after the plain local `name` was changed by `delta` (a non-zero integer; only its sign matters for
    relations with a symbolic operand): numeric bounds move along, `x == U` / `x <= U` become `x < U` after a
    decrement, ... ; atoms that mention the local in any other way are dropped"""
    vk = ('var', name)
    out = set()
    tab = _AFTER_DEC if delta < 0 else _AFTER_INC
    for a in S:
        if vk not in a[3]:
            out.add(a)
            continue
        op, lc, rc = a[0], a[1], a[2]
        if op == 'from++':
            continue
        if rc == name and lc != name and not _word_in(name, lc):
            op, lc, rc = _FLIP.get(op), rc, lc
        if op is None or lc != name or _word_in(name, rc):
            continue
        n = intlit(rc)
        if n is not None:
            out.add((op, lc, str(n + delta), a[3]))
        elif op in tab:
            out.add((tab[op], lc, rc, a[3]))
    return frozenset(out)


def _num_interval(S, lc):
    lo, hi, keys = -INF, INF, None
    for a in S:
        if a[1] != lc:
            continue
        n = intlit(a[2])
        if n is None:
            continue
        keys = a[3] if keys is None else keys
        if a[0] == '==':
            lo, hi = max(lo, n), min(hi, n)
        elif a[0] == '<':
            hi = min(hi, n - 1)
        elif a[0] == '<=':
            hi = min(hi, n)
        elif a[0] == '>':
            lo = max(lo, n + 1)
        elif a[0] == '>=':
            lo = max(lo, n)
    return lo, hi, keys


def _join_atoms(old, new):
    """atoms that hold whichever of two paths was taken: the common ones, for two different relations between the same
    operands the weakest relation that both imply, and for numeric facts about one spelling the hull of the two
    intervals (widened: a bound that moved since `old` is given up, so loops converge)"""
    common = old & new
    ra, rb = old - common, new - common
    if not ra or not rb:
        return common
    out = set(common)
    by = {}
    for x in new:
        by.setdefault((x[1], x[2]), []).append(x)
    for x in ra:
        if intlit(x[2]) is not None or x[0] == 'from++':
            continue
        for y in by.get((x[1], x[2]), ()):
            if y[0] == x[0] or y[0] == 'from++':
                continue
            w = _WEAKEN.get(frozenset((x[0], y[0])))
            if w:
                out.add((w, x[1], x[2], x[3] | y[3]))
    for lc in {x[1] for x in ra if intlit(x[2]) is not None} & {x[1] for x in rb if intlit(x[2]) is not None}:
        alo, ahi, ak = _num_interval(old, lc)
        blo, bhi, bk = _num_interval(new, lc)
        if ak is None or bk is None:
            continue
        keys = ak | bk
        lo, hi = min(alo, blo), max(ahi, bhi)
        if lo < alo:
            lo = -INF
        if hi > ahi:
            hi = INF
        if lo != -INF:
            out.add(('>=', lc, str(int(lo)), keys))
        if hi != INF:
            out.add(('<=', lc, str(int(hi)), keys))
    return frozenset(out)


def _cond_atoms(c, pol):
    """norm_cond with operands of the form x++ / --x resolved: the step is a store event of its own that precedes the
    branch, so on the edge the variable already has its new value; an atom about the old value (postfix) is restated
    for the new one"""
    out = []
    for (op, lc, rc, l, r) in norm_cond(c, pol):
        if op == 'const':
            out.append((op, lc, rc, l, r))
            continue
        l0 = strip(l)
        if isinstance(l0, dict) and l0.get('k') == 'incdec' and _pure_path(l0['e']) and op in _FLIP and lc == canon(l):
            x = l0['e']
            n = intlit(rc)
            if l0.get('prefix'):
                out.append((op, canon(x), rc, x, r))
            elif n is not None:
                out.append((op, canon(x), str(n - 1 if l0['op'] == '--' else n + 1), x, r))
            else:
                tab = _AFTER_DEC if l0['op'] == '--' else _AFTER_INC
                if op in tab and op != '==':
                    out.append((tab[op], canon(x), rc, x, r))
            continue
        out.append((op, lc, rc, l, r))
    return out


def holding2(fn, user_call_kills=True, frozen=None):
    """`frozen(record, field)`: no code outside the analysed function can write that field of an object living in this
    frame (see View._frozen): an atom about `L.f` then survives a call that is handed `&L`.
    Branch atoms (op, lhs spelling, rhs spelling, kill keys) that hold at every program point.  Beyond
    analyses.holding: an atom spelled with a caching local depends on that local only; stepping a plain local moves
    its atoms along instead of dropping them (`i = n; while (i-- > 0)` keeps `i < n`); a copy `x = y` / `x = y - c`
    relates x to y; the join weakens instead of dropping (`i == n` on entry and `i < n` on the back edge: `i <= n`)."""
    def gen(blk, si):
        atoms = []
        if blk.term and blk.term.get('cls') == 'SwitchStmt' and blk.term.get('cond') is not None:
            # `switch (x)`: x == v on the edge of `case v`, x != every case value on the default edge (under every
            # spelling of x: the expression itself and the local it was cached in)
            cases = blk.term.get('cases') or []
            c = blk.term['cond']
            if si < len(cases) and _pure_path(c):
                me = cases[si]
                same_target = [cv for k_, cv in enumerate(cases) if k_ < len(blk.succ) and blk.succ[k_] == blk.succ[si]]
                sp = {canon(c)} | set(names_of(c))
                for nm in sp:
                    keys = frozenset(_akeys(nm, c))
                    if me != 'default' and isinstance(me, int) and len(same_target) == 1:
                        atoms.append(('==', nm, str(me), keys))
                    elif me == 'default' and len(same_target) == 1:
                        for cv in cases:
                            if isinstance(cv, int):
                                atoms.append(('!=', nm, str(cv), keys))
            return atoms
        if blk.term and len(blk.succ) == 2 and blk.term.get('cls') not in ('SwitchStmt', 'MethodDispatch'):
            c = blk.term.get('cond')
            if c is not None:
                for (op, lc, rc, l, r) in _cond_atoms(c, si == 0):
                    if op == 'const':
                        continue
                    atoms.append((op, lc, rc, frozenset(_akeys(lc, l) | _akeys(rc, r))))
                    # `(unsigned)x < c`: the comparison is made on the converted value, so x is non-negative too
                    n = intlit(rc)
                    if n is not None and n >= 0 and (op in ('<', '<=') or (op == '==')) and _unsigned_cast(l):
                        atoms.append(('>=', lc, '0', frozenset(_akeys(lc, l))))
        return atoms

    def transfer(e, S):
        if S is None:
            return S
        ev = e['ev']
        if ev == 'store':
            l = strip(e['lhs'])
            if plain_lhs(e['lhs']) is not None:
                l = plain_lhs(e['lhs'])
                e = dict(e, lhs=l)
            op = e.get('op')
            if l.get('k') == 'var' and op in ('++', '--'):
                return _shift_atoms(S, l['name'], 1 if op == '++' else -1)
            if l.get('k') == 'var' and op in ('+=', '-=') and intlit(canon(e['rhs'])) is not None and intlit(canon(e['rhs'])) != 0 \
                    and isinstance(strip(e['rhs']), dict) and strip(e['rhs']).get('k') == 'int':
                d = intlit(canon(e['rhs'])) * (1 if op == '+=' else -1)
                return _shift_atoms(S, l['name'], d)
            kills = set(lvalue_steps(e['lhs']))
            if l.get('k') == 'var':
                kills.add(('var', l['name']))
            if l.get('k') in ('deref', 'index'):
                kills.add(('mem', '*'))
            if not kills:
                lm = last_member(e['lhs'])
                if lm:
                    kills.add(lm)
            rc_ = canon(e['rhs']) if 'rhs' in e and e['op'] == '=' else None
            S2 = frozenset(a for a in S if not (a[3] & kills) or (rc_ is not None and a[1] == rc_ and a[2].lstrip('-').isdigit()))
            if e['op'] == '=' and 'rhs' in e:
                v0 = strip(e['rhs'])
                lcn = canon(e['lhs'])
                lkeys = frozenset({('var', l['name'])}) if l.get('k') == 'var' else frozenset(_mem_keys(e['lhs']))
                if isinstance(v0, dict) and v0.get('k') == 'incdec' and _pure_path(v0['e']):
                    tgt = canon(v0['e'])
                    tk = frozenset(_mem_keys(v0['e']))
                    if v0['op'] == '++' and not v0['prefix']:
                        S2 = S2 | {('from++', lcn, tgt, frozenset(_mem_keys(e['lhs']))), ('<', lcn, tgt, lkeys | tk)}
                    elif v0['prefix']:
                        S2 = S2 | {('==', lcn, tgt, lkeys | tk)}          # the value of --E / ++E is the new E
                    else:
                        S2 = S2 | {('>', lcn, tgt, lkeys | tk)}           # E-- yields the old, larger value
                if isinstance(v0, dict) and v0.get('k') in ('int', 'null'):
                    S2 = S2 | {('==', lcn, '0' if v0.get('k') == 'null' else str(v0['v']), lkeys)}
                if isinstance(v0, dict) and l.get('k') == 'var' and _pure_path(v0):
                    # a local assigned a value read elsewhere: related to it until either side is written
                    rel, src = None, None
                    if v0.get('k') == 'member' or (v0.get('k') == 'var' and v0.get('vk') in ('local', 'param') and v0['name'] != l['name']):
                        rel, src = '==', v0
                    elif v0.get('k') == 'bin' and v0['op'] in ('+', '-') and isinstance(strip(v0['r']), dict) \
                            and strip(v0['r']).get('k') == 'int' and strip(v0['r'])['v'] > 0:
                        b0 = strip(v0['l'])
                        if isinstance(b0, dict) and (b0.get('k') == 'member' or (b0.get('k') == 'var' and b0.get('vk') in ('local', 'param')
                                                                                      and b0['name'] != l['name'])):
                            rel, src = ('<' if v0['op'] == '-' else '>'), b0
                    if rel is not None and not _word_in(l['name'], canon(src)):
                        S2 = S2 | {(rel, l['name'], canon(src), frozenset({('var', l['name'])} | _mem_keys(src)))}
                if isinstance(v0, dict) and v0.get('k') in ('var', 'member'):
                    vc = canon(v0)
                    for a in S:
                        if a[1] == vc and a[2].lstrip('-').isdigit() and a[0] in ('==', '!=', '<', '<=', '>', '>='):
                            S2 = S2 | {(a[0], lcn, a[2], lkeys)}
                        if a[0] == 'from++' and a[1] == vc:
                            S2 = S2 | {('from++', lcn, a[2], lkeys)}
            return S2
        if ev == 'decl' and 'init' in e:
            return frozenset(a for a in S if ('var', e['name']) not in a[3])
        if ev == 'call':
            if 'fnexpr' in e and user_call_kills and (callback_kind(e) or ('?',))[0] != 'method':
                # user code runs (a poll-method slot is library code: like a direct call)
                return frozenset(a for a in S if all(k[0] == 'var' for k in a[3]))
            ks = set()
            objs = set()
            for a in e.get('args', []):
                a = strip(a)
                if isinstance(a, dict) and a.get('k') == 'addr':
                    v = strip(a['e'])
                    if isinstance(v, dict) and v.get('k') == 'var':
                        ks.add(('var', v['name']))
                        if v.get('vk') == 'local' and v.get('record') and not v.get('ptr'):
                            objs.add(('var', v['name']))

            def survives(a):
                # the atom reads only fields of frame objects handed to the callee, and none of those fields can be
                # written by anybody but this function
                if frozen is None or not ((a[3] & ks) <= objs):
                    return False
                flds = [k for k in a[3] if k[0] != 'var']
                return bool(flds) and all(k[0] != 'mem' and frozen(k[0], k[1]) for k in flds)
            if ks:
                return frozenset(a for a in S if not (a[3] & ks) or survives(a))
        return S

    def edge(blk, si, S):
        g = gen(blk, si)
        return (S | frozenset(g)) if g else S

    _, ev_in = forward(fn, frozenset(), transfer, _join_atoms, edge=edge)
    return ev_in


# --------------------------------------------------------------------------
# views
# --------------------------------------------------------------------------

TYPE_SIZE = {'char': 1, 'signed char': 1, 'unsigned char': 1, 'uint8_t': 1, 'short': 2, 'unsigned short': 2, 'uint16_t': 2,
             'int': 4, 'unsigned int': 4, 'uint32_t': 4, 'uint64_t': 8, 'long': 8, 'unsigned long': 8, 'size_t': 8, 'ssize_t': 8}


def type_range(t):
    t = (t or '').replace('const ', '').replace('volatile ', '').strip()
    if t in ('unsigned char', 'uint8_t'):
        return (0, 255)
    if t in ('unsigned short', 'uint16_t'):
        return (0, 65535)
    if t in ('_Bool', 'bool'):
        return (0, 1)
    if t.startswith('unsigned') or t in ('uint32_t', 'uint64_t', 'size_t', '__u32', '__u64', 'uintptr_t', 'nfds_t'):
        return (0, INF)
    return (-INF, INF)


def array_type(t):
    """('char', 1024) for 'char[1024]'; None for anything else (pointers, VLAs)."""
    m = re.match(r'^(.*?)\s*\[(\d+)\]$', (t or '').strip())
    if not m:
        return None
    return m.group(1).replace('const ', '').strip(), int(m.group(2))


def seen_has(seen, tag):
    return tag in seen


def mark(seen, tag):
    return frozenset(seen) | {tag}


def canon_init(i):
    import json
    return json.dumps(i, sort_keys=True, default=str)


# --------------------------------------------------------------------------
# value-range invariant of a struct field: the hull of everything the program ever stores into it
# --------------------------------------------------------------------------

_FR_BUSY = set()


def field_range(prog, record, field):
    """[lo, hi] enclosing every value any store in the program puts into field `record.field`, or None when that
    cannot be told (the field's address is handed to code that is not understood, compound stores, objects of the
    record initialised at file scope, ...).  Stores through an out-parameter (`f(&obj.field)` with `*p = v` in f)
    are followed.  Only for records defined in a .c file.  A reader that has no better fact about the field may assume
    this range: the field of a live object holds a value some store put there."""
    if not record or not field or str(record).startswith('<anon'):
        return None
    cache = prog.__dict__.setdefault('_h18_field_range', {})
    key = (record, field)
    if key in cache:
        return cache[key]
    if key in _FR_BUSY:
        return None
    _FR_BUSY.add(key)
    try:
        cache[key] = _field_range(prog, record, field)
    finally:
        _FR_BUSY.discard(key)
    return cache[key]


def _is_field(x, record, field):
    x = strip(x)
    return isinstance(x, dict) and x.get('k') == 'member' and x.get('record') == record and x['field'] == field


def _field_range(prog, record, field):
    rec = prog.records.get(record, {})
    fdef = [f for f in rec.get('fields', []) if f['name'] == field]
    if not fdef:
        return None
    # only records that are private to one translation unit: every store is then in sight (a record declared in a
    # header may be filled in by other units or by the application)
    if not str(rec.get('loc', '')).split(':')[0].endswith('.c'):
        return None
    ty = (fdef[0].get('type') or '').replace('const ', '').strip()
    if ty not in TYPE_SIZE and ty not in ('_Bool', 'bool'):
        return None                         # integers only
    for g in prog.globals.values():
        if isinstance(g, dict) and g.get('record') == record and not g.get('ptr') and g.get('init') is not None:
            return None
    lo, hi = INF, -INF
    n = 0
    up = down = False

    def add(r):
        nonlocal lo, hi, n
        lo, hi, n = min(lo, r[0]), max(hi, r[1]), n + 1

    for f in prog.all_funcs():
        V = None
        for e in f.events():
            if e['ev'] == 'store':
                if _is_field(e['lhs'], record, field):
                    op_ = e.get('op')
                    if op_ in ('++', '--'):
                        # a step moves the value away from what plain stores put there, in one direction (the representable
                        # range of the field's type clips it at the reader, as for a stepped local in View._raw)
                        up, down = (up or op_ == '++'), (down or op_ == '--')
                        continue
                    if op_ in ('+=', '-=') and 'rhs' in e:
                        V = V or view_of(prog, f)
                        r_ = V.range(e['rhs'], (e['_b'], e['_i']), frozenset({'#fr'}))
                        if r_[0] >= 0:
                            up, down = (up or op_ == '+='), (down or op_ == '-=')
                        elif r_[1] <= 0:
                            up, down = (up or op_ == '-='), (down or op_ == '+=')
                        else:
                            return None
                        continue
                    if op_ != '=' or 'rhs' not in e:
                        return None
                    V = V or view_of(prog, f)
                    add(V.range(e['rhs'], (e['_b'], e['_i']), frozenset({'#fr'})))
                    continue
                # whole-object stores (struct assignment) of the record: values come from another object of the record
            srcs = []
            if e['ev'] == 'store' and 'rhs' in e:
                srcs.append((None, e['rhs']))
            elif e['ev'] in ('call', 'enter'):
                srcs += [(i, a) for i, a in enumerate(e.get('args', []))]
            elif e['ev'] == 'ret' and 'value' in e:
                srcs.append((None, e['value']))
            for (ai, s_) in srcs:
                for y in walk(s_):
                    if y.get('k') == 'addr' and isinstance(y.get('e'), dict) and _is_field(y['e'], record, field):
                        # the field's address leaves: only `callee(..., &obj.field, ...)` with the callee storing
                        # through that parameter (and doing nothing else with it) is understood
                        if ai is None or strip(s_) is not y or 'callee' not in e:
                            return None
                        t = prog.resolve(prog.unit_of(f), e['callee'])
                        if t is None or not t.blocks or ai >= len(t.params):
                            return None
                        r = _out_param_range(prog, t, t.params[ai]['name'])
                        if r is None:
                            return None
                        if r[0] <= r[1]:
                            add(r)
    if n == 0:
        return None
    if up:
        hi = INF
    if down:
        lo = -INF
    return (min(lo, 0), max(hi, 0))         # zero-initialised storage (calloc, static objects) reads 0 before any store


def global_range(prog, v):
    """[lo, hi] enclosing every value the file-scope integer variable named by the node v can hold, or None: the variable
    has internal linkage (every store is in its own .c file, hence in sight), its name designates one object in the whole
    program, its address is never taken (no store through a pointer), it is not volatile, and every store is a plain
    assignment (its value ranged at the store) or a step (which opens the range in that direction).  The value read is
    the initialiser's (zero without one) or one some store put there -- whichever thread stored it."""
    if not (isinstance(v, dict) and v.get('k') == 'var' and v.get('vk') == 'global'):
        return None
    name = v['name']
    cache = prog.__dict__.setdefault('_h18_global_range', {})
    if name in cache:
        return cache[name]
    if ('g', name) in _FR_BUSY:
        return None
    _FR_BUSY.add(('g', name))
    try:
        cache[name] = _global_range(prog, name)
    finally:
        _FR_BUSY.discard(('g', name))
    return cache[name]


def _global_range(prog, name):
    cands = [g for g in prog.globals.values() if isinstance(g, dict) and g.get('name') == name]
    if len(cands) != 1 or cands[0].get('extern_decl') or not cands[0].get('static'):
        return None
    gl = cands[0]
    ty = str(gl.get('type') or '')
    if 'volatile' in ty or ty.replace('const ', '').strip() not in TYPE_SIZE and ty.strip() not in ('_Bool', 'bool'):
        return None
    init = gl.get('init')
    lo = hi = 0
    if init is not None:
        i0 = strip(init)
        if not (isinstance(i0, dict) and i0.get('k') == 'int'):
            return None
        lo = hi = i0['v']
    for g2 in prog.globals.values():
        if isinstance(g2, dict) and isinstance(g2.get('init'), (dict, list)):
            if any(y.get('k') == 'var' and y.get('name') == name and y.get('vk') == 'global' for y in walk(g2['init'])):
                return None                     # named in a file-scope initialiser: its address is published

    def is_it(x):
        x = strip(x)
        return isinstance(x, dict) and x.get('k') == 'var' and x.get('vk') == 'global' and x['name'] == name
    up = down = False
    for f in prog.all_funcs():
        V = None
        for e in f.events():
            if e['ev'] == 'store' and is_it(e['lhs']):
                op_ = e.get('op')
                if op_ in ('++', '--'):
                    up, down = (up or op_ == '++'), (down or op_ == '--')
                elif op_ == '=' and 'rhs' in e:
                    V = V or view_of(prog, f)
                    r = V.range(e['rhs'], (e['_b'], e['_i']), frozenset({'#fr', name}))
                    lo, hi = min(lo, r[0]), max(hi, r[1])
                else:
                    return None
            for key in ('lhs', 'rhs', 'args', 'value', 'fnexpr', 'e'):
                if key in e:
                    for y in walk(e[key]):
                        if y.get('k') == 'addr' and isinstance(y.get('e'), dict) and is_it(y['e']):
                            return None
        for b in f.blocks.values():
            c = b.term.get('cond') if b.term else None
            if c is not None and any(y.get('k') == 'addr' and isinstance(y.get('e'), dict) and is_it(y['e']) for y in walk(c)):
                return None
    if up:
        hi = INF
    if down:
        lo = -INF
    return (lo, hi)


def field_pointees(prog, record, field, seen=frozenset(), depth=0):
    """const-table elements (initialiser nodes) a pointer field of a record private to one .c file can designate: the
    union over every store the program makes to it (each judged in the storing function: View.pointees); None when a
    store is not understood, the field's address is taken, or an object of the record is initialised at file scope.
    Zero-initialised storage and NULL stores contribute nothing (a read through the pointer cannot have seen them)."""
    if not record or not field or str(record).startswith('<anon'):
        return None
    tag = '#fp:%s.%s' % (record, field)
    if tag in seen:
        return None
    cache = prog.__dict__.setdefault('_h18_field_pointees', {})
    if (record, field) in cache:
        return cache[(record, field)]
    rec = prog.records.get(record, {})
    fdef = [f for f in rec.get('fields', []) if f['name'] == field]
    if not fdef or not str(rec.get('loc', '')).split(':')[0].endswith('.c') or '*' not in (fdef[0].get('type') or ''):
        return None
    for g in prog.globals.values():
        if isinstance(g, dict) and g.get('record') == record and not g.get('ptr') and g.get('init') is not None:
            return None
    out, n, res = [], 0, 'ok'
    for f in prog.all_funcs():
        if res is None:
            break
        V = None
        for e in f.events():
            if e['ev'] == 'store' and _is_field(e['lhs'], record, field):
                if e.get('op') != '=' or 'rhs' not in e:
                    res = None
                    break
                V = V or view_of(prog, f)
                r = V.pointees(e['rhs'], (e['_b'], e['_i']), frozenset(s_ for s_ in seen if str(s_).startswith('#')) | {tag}, depth + 1)
                if r is None:
                    res = None
                    break
                out += r
                n += 1
                continue
            for key, v in e.items():
                if isinstance(v, (dict, list)) and key != 'chain':
                    for y in walk(v):
                        if y.get('k') == 'addr' and isinstance(y.get('e'), dict) and _is_field(y['e'], record, field):
                            res = None
    val = out if (res is not None and n) else None
    if not (set(seen) - {tag}):
        cache[(record, field)] = val
    return val


def field_storers(prog, record, field):
    """{function q: every store it makes to record.field addresses a local object of its own frame (`L.f = v`)} over all
    functions that store the field, take its address, or assign whole objects of the record; None when the stores are
    not all in sight (see field_range)"""
    cache = prog.__dict__.setdefault('_h18_field_storers', {})
    key = (record, field)
    if key in cache:
        return cache[key]
    cache[key] = None
    rec = prog.records.get(record, {}) if record else {}
    if not rec or not str(rec.get('loc', '')).split(':')[0].endswith('.c') or not [f for f in rec.get('fields', []) if f['name'] == field]:
        return None                                   # a record declared in a header may be written by code not in sight
    out = {}
    whole = 'struct ' + str(record)
    for f in prog.all_funcs():
        for e in f.events():
            if e['ev'] == 'store':
                if _is_field(e['lhs'], record, field):
                    root = lvalue_root(e['lhs'])
                    loc_ = root is not None and root.get('vk') == 'local' and not root.get('ptr')
                    out[f.q] = out.get(f.q, True) and loc_
                else:
                    l = strip(e['lhs'])
                    if isinstance(l, dict) and str(l.get('type', '')).replace('const ', '').strip() == whole:
                        out[f.q] = False
            for y in walk(e):
                if y.get('k') == 'addr' and isinstance(y.get('e'), dict) and _is_field(y['e'], record, field):
                    out[f.q] = False
    cache[key] = out
    return out


def handed_field_range(prog, V, x):
    """Range of the field read `P->f` when P is the pointer parameter of a function g that is only ever named as the
    function argument of calls which are also handed `&L`, L an object of the record in the caller's frame whose field f
    nobody but that caller writes (field_storers) and which the caller does not write after the call: the callee (or what
    it spawns) runs g on that object, so g reads what the object held at the hand-over -- the hull over all such call
    sites of the range of `L.f` there.  None when the protocol is not of that form."""
    if prog is None or not (isinstance(x, dict) and x.get('k') == 'member' and x.get('arrow')):
        return None
    rec, fld = x.get('record'), x.get('field')
    g = V.g
    b = V.resolve(x['base'])
    if not (isinstance(b, dict) and b.get('k') == 'var' and b.get('vk') == 'param' and b['name'] in V.root_params):
        return None
    if any(d for d in V.defs.get(b['name'], [])):
        return None                                   # the parameter is re-pointed
    key = ('handed', getattr(g, 'q', None), b['name'], rec, fld)
    cache = prog.__dict__.setdefault('_h18_handed', {})
    if key in cache:
        return cache[key]
    cache[key] = None
    st = field_storers(prog, rec, fld)
    if st is None or not all(st.values()):
        return None
    pidx = [i for i, p_ in enumerate(g.params) if p_.get('name') == b['name']]
    lo, hi, n = INF, -INF, 0

    def in_init(i):
        if isinstance(i, list):
            return any(in_init(y) for y in i)
        if isinstance(i, dict):
            if i.get('k') == 'var' and i.get('name') == g.name:
                return True
            return any(in_init(v) for v in i.values() if isinstance(v, (dict, list)))
        return False
    if any(isinstance(gl, dict) and gl.get('init') is not None and in_init(gl['init']) for gl in prog.globals.values()):
        return None                                   # installed in a file-scope table
    for h in prog.all_funcs():
        if g.static and prog.unit_of(h) != prog.unit_of(g):
            continue
        Vh = None
        for e in h.events():
            if e['ev'] != 'call':
                # the function named as a value outside the argument list of a call (stored, returned): runs at times
                # nobody sees here.  (A call nested in the expression has a call event of its own.)
                if any(_names_fn_outside_calls(v_, g.name) for k_, v_ in e.items() if k_ in ('rhs', 'value', 'lhs', 'init')):
                    return None
                continue
            named = [y for y in walk(e) if y.get('k') == 'var' and y.get('vk') == 'func' and y.get('name') == g.name]
            if not named:
                continue
            if e['ev'] == 'call' and e.get('callee') == g.name and not any(
                    y.get('name') == g.name for a in e.get('args', []) for y in walk(a) if y.get('k') == 'var' and y.get('vk') == 'func'):
                # a direct call: the object is the argument itself
                objs = [strip(e['args'][i]) for i in pidx if i < len(e.get('args', []))]
            elif e['ev'] == 'call' and 'callee' in e:
                objs = [strip(a) for a in e.get('args', [])]
                objs = [a for a in objs if isinstance(a, dict) and a.get('k') == 'addr' and isinstance(strip(a['e']), dict)
                        and strip(a['e']).get('k') == 'var' and strip(a['e']).get('record') == rec and not strip(a['e']).get('ptr')]
            else:
                return None                           # installed as a handler / stored: runs at times nobody sees here
            if len(objs) != 1 or not (objs[0].get('k') == 'addr' and strip(objs[0]['e']).get('vk') == 'local'):
                return None
            L = strip(objs[0]['e'])
            if set(st) - {h.q}:
                return None                           # somebody else writes the field
            # the caller does not write the field once the object is handed over

            def tr(ev, s_, site=e):
                if ev is site:
                    return True
                if s_ and ev['ev'] == 'store' and _is_field(ev['lhs'], rec, fld):
                    raise _Late()
                return s_
            try:
                forward(h, False, tr, lambda a_, b_: a_ or b_)
            except _Late:
                return None
            Vh = Vh or view_of(prog, h)
            node = {'k': 'member', 'arrow': False, 'base': L, 'field': fld, 'record': rec, 'type': x.get('type')}
            r = Vh.range(node, (e['_b'], e['_i']), frozenset({'#handed'}))
            lo, hi, n = min(lo, r[0]), max(hi, r[1]), n + 1
    if n:
        cache[key] = (lo, hi)
    return cache[key]


class _Late(Exception):
    pass


def _names_fn_outside_calls(x, name):
    if isinstance(x, list):
        return any(_names_fn_outside_calls(y, name) for y in x)
    if not isinstance(x, dict):
        return False
    if x.get('k') == 'var':
        return x.get('vk') == 'func' and x.get('name') == name
    if x.get('k') == 'call':
        return _names_fn_outside_calls(x.get('fnexpr'), name) if 'fnexpr' in x else False
    return any(_names_fn_outside_calls(v, name) for k, v in x.items() if isinstance(v, (dict, list)) and k != 'sizeof')


def return_range(prog, unit, callee, seen):
    """hull of the values the library function `callee` returns (each `return v` ranged in the function taken alone);
    None for functions without a body in sight"""
    t = prog.resolve(unit, callee) if callee else None
    if t is None or not t.blocks:
        return None
    tag = '#ret:' + t.q
    if tag in seen:
        return None
    Vt = view_of(prog, t)
    lo, hi, n = INF, -INF, 0
    for e in t.events():
        if e['ev'] == 'ret':
            if 'value' not in e:
                return None
            r = Vt.range(e['value'], (e['_b'], e['_i']), frozenset(x_ for x_ in seen if str(x_).startswith('#')) | {tag})
            lo, hi, n = min(lo, r[0]), max(hi, r[1]), n + 1
    return (lo, hi) if n else None


def _out_param_range(prog, t, pname):
    """hull of the values function t stores through its pointer parameter pname; None when the parameter is used
    in any other way (re-assigned, passed on, compared is fine, read through is fine)"""
    V = view_of(prog, t)
    lo, hi = INF, -INF
    for e in t.events():
        if e['ev'] == 'store':
            l = strip(e['lhs'])
            if isinstance(l, dict) and l.get('k') == 'var' and l['name'] == pname:
                return None
            if isinstance(l, dict) and l.get('k') == 'deref' and var_name(l.get('e')) == pname:
                if e.get('op') != '=' or 'rhs' not in e:
                    return None
                r = V.range(e['rhs'], (e['_b'], e['_i']), frozenset({'#fr'}))
                lo, hi = min(lo, r[0]), max(hi, r[1])
                continue
            if 'rhs' in e and any(y.get('k') == 'var' and y['name'] == pname and y.get('vk') == 'param' for y in walk(e['rhs'])) \
                    and not _only_derefs(e['rhs'], pname):
                return None
        elif e['ev'] in ('call', 'enter'):
            for a in e.get('args', []):
                if any(y.get('k') == 'var' and y['name'] == pname and y.get('vk') == 'param' for y in walk(a)) and not _only_derefs(a, pname):
                    return None
        elif e['ev'] == 'ret' and 'value' in e:
            if any(y.get('k') == 'var' and y['name'] == pname and y.get('vk') == 'param' for y in walk(e['value'])) and not _only_derefs(e['value'], pname):
                return None
    return (lo, hi)


def _only_derefs(x, pname):
    """every occurrence of the parameter in x is under a dereference that reads through it"""
    def rec(y, under):
        if isinstance(y, list):
            return all(rec(z, under) for z in y)
        if not isinstance(y, dict):
            return True
        if y.get('k') == 'var' and y.get('name') == pname:
            return under
        if y.get('k') == 'deref':
            return rec(y.get('e'), True)
        if y.get('k') in ('load', 'cast', 'paren'):
            return rec(y.get('e'), under)
        return all(rec(v, False) for kk, v in y.items() if isinstance(v, (dict, list)) and kk != 'sizeof')
    return rec(x, False)


def _env_index(idx, env):
    """(lo, hi) of the index expression `v`, `v + c`, `v - c`, `v + w` under the valuation class env of the path being
    followed (path_must), or None"""
    i0 = strip(idx)
    if not isinstance(i0, dict):
        return None
    if i0.get('k') == 'var':
        v = env.get(i0['name'])
        return (v[0], v[1]) if v is not None else None
    if i0.get('k') == 'int':
        return (i0['v'], i0['v'])
    if i0.get('k') == 'bin' and i0.get('op') in ('+', '-'):
        a, b = _env_index(i0['l'], env), _env_index(i0['r'], env)
        if a is None or b is None:
            return None
        return (a[0] + b[0], a[1] + b[1]) if i0['op'] == '+' else (a[0] - b[1], a[1] - b[0])
    return None


class View:
    """A function as the rules look at it: atoms, definitions of locals, value ranges."""

    def __init__(self, g, prog=None):
        self.g = g
        self.prog = prog
        self._origins = {getattr(g, 'q', None)} | {e['fn'] for e in g.events() if e.get('fn')}
        self.hd = holding2(g, frozen=self._frozen if prog is not None else None)
        self.defs = {}
        self.escaped = set()
        self.decl = {}
        self.expr_of = {}
        self.root_params = {p['name'] for p in getattr(g, 'params', [])}
        self.escaped = escaped_locals(g)
        for e in g.events():
            if e['ev'] == 'store':
                n = var_name(e['lhs']) if strip(e['lhs']).get('k') == 'var' else None
                if n is None and plain_lhs(e['lhs']) is not None:
                    n = plain_lhs(e['lhs'])['name']        # `*&v = x`: a definition of v
                if n:
                    self.defs.setdefault(n, []).append(e)
                    if 'rhs' in e:
                        for r0 in walk(e['rhs']):
                            if r0.get('k') == 'member' and _pure_path(r0):
                                self.expr_of.setdefault(canon(r0), r0)
            elif e['ev'] == 'decl':
                self.decl[e['name']] = e
        for b in g.blocks.values():
            c = b.term.get('cond') if b.term else None
            if c is None:
                continue
            for (op, lc, rc, l, r) in norm_cond(c, True) + norm_cond(c, False):
                if op == 'const':
                    continue
                if isinstance(l, dict) and lc == canon(l):
                    self.expr_of.setdefault(lc, l)
                if isinstance(r, dict) and rc == canon(r):
                    self.expr_of.setdefault(rc, r)
        self._after_dec = {}
        self._reach = None

    def _frozen(self, record, field):
        """record.field of an object that lives in this frame can be written by the viewed function only: the record is
        private to one .c file, every store to the field in the whole program is in sight (field_storers), made by the
        function(s) in view and addressed through a local object (so a re-entered activation writes its own frame),
        and the field's address never leaves"""
        st = field_storers(self.prog, record, field)
        return st is not None and all(ok and q in self._origins for q, ok in st.items())

    # -- atoms -----------------------------------------------------------------
    def atoms(self, point):
        return self.hd.get(point) or frozenset()

    def at(self, e):
        return self.atoms((e['_b'], e['_i']))

    def spellings(self, x):
        out = set(names_of(x)) if isinstance(x, dict) else set()
        out.add(canon(x))
        s = strip(x)
        if isinstance(s, dict):
            out |= set(names_of(s))
        return out

    def expr_named(self, name):
        """expression an atom operand spelled `name` stands for (a branch operand or a local)"""
        if name in self.expr_of:
            return self.expr_of[name]
        if name in self.defs or name in self.decl:
            d = self.decl.get(name, {})
            return {'k': 'var', 'name': name, 'vk': 'local', 'type': d.get('type', '')}
        return None

    # -- definitions -----------------------------------------------------------
    def defs_at(self, name, point):
        """the definitions (store events) of the plain local `name` that can reach `point`: a plain assignment
        replaces the earlier ones, a step or compound assignment adds itself to them.  All definitions when the point
        is unknown."""
        if point is None or name not in self.defs:
            return self.defs.get(name, [])
        if self._reach is None:
            alld = []
            idx = {}
            for n, ds in self.defs.items():
                for d in ds:
                    idx[id(d)] = len(alld)
                    alld.append((n, d))
            byname = {}
            for i, (n, d) in enumerate(alld):
                byname.setdefault(n, set()).add(i)

            def tr(e, S):
                i = idx.get(id(e))
                if i is None:
                    return S
                n = alld[i][0]
                if e.get('op') == '=':
                    return (S - byname[n]) | {i}
                return S | {i}
            def edge(blk, si, S):
                # an edge whose condition is a constant of the wrong truth value (a parameter replaced by the caller's
                # constant) is never taken: definitions do not flow over it
                c = blk.term.get('cond') if blk.term else None
                if c is not None and len(blk.succ) == 2 and blk.term.get('cls') not in ('SwitchStmt', 'MethodDispatch'):
                    if any(a[0] == 'const' and a[1] == 'False' for a in norm_cond(c, si == 0)):
                        return None
                return S
            _, ev_in = forward(self.g, frozenset(), tr, lambda a, b: a | b, edge=edge)
            self._reach = (alld, ev_in)
        alld, ev_in = self._reach
        S = ev_in.get(point)
        if S is None:
            return self.defs.get(name, [])
        return [alld[i][1] for i in sorted(S) if alld[i][0] == name]

    def is_plain_local(self, x):
        x = strip(x)
        return isinstance(x, dict) and x.get('k') == 'var' and x.get('vk') in ('local', 'param') \
            and x['name'] not in self.escaped and x['name'] not in self.root_params

    def resolve(self, x, seen=()):
        """value-carrying core of x with single-definition locals replaced by what they were assigned
        (flow-insensitive: the value *at the time of that one assignment*)."""
        x = strip(x)
        n = 0
        while self.is_plain_local(x) and n < 8:
            ds = self.defs.get(x['name'], [])
            if len(ds) != 1 or ds[0].get('op') != '=' or 'rhs' not in ds[0] or x['name'] in seen:
                break
            seen = seen + (x['name'],)
            x = strip(ds[0]['rhs'])
            n += 1
        return x

    def sole_def(self, x):
        x = strip(x)
        if self.is_plain_local(x):
            ds = self.defs.get(x['name'], [])
            if len(ds) == 1 and ds[0].get('op') == '=' and 'rhs' in ds[0]:
                return ds[0]
        return None

    # -- value ranges ----------------------------------------------------------
    def range(self, expr, point, seen=frozenset()):
        """[lo, hi] enclosing every value expr can have at `point`: interval evaluation of the
        expression (constants, ?:, masks, arithmetic, locals through all their definitions)
        intersected with the branch atoms that hold at the point under any spelling of expr."""
        lo, hi = self._raw(expr, point, seen)
        names = {n for n in self.spellings(expr) if intlit(n) is None}      # a literal is not a spelling atoms speak about
        for a in self.atoms(point):
            op, side = a[0], None
            if a[1] in names:
                side, other = 'l', a[2]
            elif a[2] in names and op in ('<', '<=', '>', '>=', '=='):
                side, other = 'r', a[1]
                op = {'<': '>', '<=': '>=', '>': '<', '>=': '<=', '==': '=='}[op]
            if side is None or op not in ('<', '<=', '>', '>=', '==', '!='):
                continue
            n = intlit(other)
            if n is not None:
                olo = ohi = n
            else:
                if other in seen or op == '!=':
                    continue
                oe = self.expr_named(other)
                if oe is None:
                    continue
                olo, ohi = self.range(oe, point, seen | names | {other})
            if op == '<':
                hi = min(hi, ohi - 1)
            elif op == '<=':
                hi = min(hi, ohi)
            elif op == '>':
                lo = max(lo, olo + 1)
            elif op == '>=':
                lo = max(lo, olo)
            elif op == '==':
                lo, hi = max(lo, olo), min(hi, ohi)
            elif op == '!=' and n is not None:
                if lo == n:
                    lo += 1
                if hi == n:
                    hi -= 1
        return lo, hi

    def _raw(self, expr, point, seen):
        x = expr
        while isinstance(x, dict) and x.get('k') in ('load', 'stmtexpr', 'paren') and 'e' in x:
            x = x['e']
        if not isinstance(x, dict):
            return (-INF, INF)
        k = x.get('k')
        if k == 'cast':
            lo, hi = self.range(x['e'], point, seen)
            to = str(x.get('to', ''))
            if '*' in to:
                return (-INF, INF)
            tlo, thi = type_range(to)
            if lo < tlo or hi > thi:          # a narrowing/sign-changing conversion may wrap
                return (tlo, thi)
            return (lo, hi)
        if k == 'int':
            return (x['v'], x['v'])
        if k == 'null':
            return (0, 0)
        if k == 'cond':
            a = self.range(x['a'], point, seen)
            b = self.range(x['b'], point, seen)
            return (min(a[0], b[0]), max(a[1], b[1]))
        if k == 'un':
            if x['op'] == '!':
                return (0, 1)
            if x['op'] == '-':
                lo, hi = self.range(x['e'], point, seen)
                return (-hi, -lo)
            if x['op'] == '+':
                return self.range(x['e'], point, seen)
            return type_range(x.get('type'))
        if k == 'incdec':
            lo, hi = self.range(x['e'], point, seen)
            if x.get('prefix'):
                d = 1 if x['op'] == '++' else -1
                return (lo + d, hi + d)
            return (lo, hi)
        if k == 'bin':
            op = x['op']
            if op in ('==', '!=', '<', '>', '<=', '>=', '&&', '||'):
                return (0, 1)
            l = self.range(x['l'], point, seen)
            r = self.range(x['r'], point, seen)
            res = None
            if op == '&':
                c = [v for v in (l, r) if v[0] == v[1] and v[0] >= 0]
                if c:
                    res = (0, min(v[1] for v in c))
                elif l[0] >= 0 and r[0] >= 0:
                    res = (0, min(l[1], r[1]))
                elif l[0] >= 0:
                    res = (0, l[1])
                elif r[0] >= 0:
                    res = (0, r[1])
            elif op == '+':
                res = (l[0] + r[0], l[1] + r[1])
            elif op == '-':
                res = (l[0] - r[1], l[1] - r[0])
            elif op == '*' and l[0] >= 0 and r[0] >= 0:
                res = (l[0] * r[0], (l[1] * r[1]) if INF not in (l[1], r[1]) else INF)
            elif op == '/' and r[0] == r[1] and r[0] > 0 and l[0] >= 0:
                res = (l[0] // r[0], l[1] if l[1] == INF else l[1] // r[0])
            elif op == '%' and r[0] == r[1] and r[0] > 0:
                res = (0, r[0] - 1) if l[0] >= 0 else (-(r[0] - 1), r[0] - 1)
            elif op == '>>' and l[0] >= 0 and r[0] == r[1] and 0 <= r[0] < 64:
                res = (l[0] >> r[0], l[1] if l[1] == INF else l[1] >> r[0])
            elif op == '<<' and l[0] >= 0 and r[0] == r[1] and 0 <= r[0] < 31 and l[1] != INF:
                res = (l[0] << r[0], l[1] << r[0])
            tr = type_range(x.get('type'))
            if res is None or res[0] != res[0] or res[1] != res[1]:      # None or NaN (inf - inf)
                return tr
            if res[0] < tr[0] or res[1] > tr[1]:
                return tr                     # unsigned wrap-around
            return res
        if k == 'var':
            tr = type_range(x.get('type') or self.decl.get(x['name'], {}).get('type'))
            name = x['name']
            if x.get('vk') == 'global' and self.prog is not None and name not in seen and not self._const_global(x):
                gr = global_range(self.prog, x)
                if gr is not None:
                    return (max(gr[0], tr[0]), min(gr[1], tr[1]))
            if not self.is_plain_local(x) or name in seen:
                return tr
            ds = self.defs_at(name, point)
            if not ds:
                return tr
            lo, hi, up, down = INF, -INF, False, False
            for d in ds:
                op = d.get('op')
                if op == '=' and 'rhs' in d:
                    r = self.range(d['rhs'], (d['_b'], d['_i']), seen | {name})
                    lo, hi = min(lo, r[0]), max(hi, r[1])
                elif op == '++':
                    up = True
                elif op == '--':
                    down = True
                elif op in ('+=', '-=') and 'rhs' in d:
                    r = self.range(d['rhs'], (d['_b'], d['_i']), seen | {name})
                    if r[0] >= 0:
                        up, down = (up or op == '+='), (down or op == '-=')
                    elif r[1] <= 0:
                        up, down = (up or op == '-='), (down or op == '+=')
                    else:
                        return tr
                else:
                    return tr
            if lo == INF:
                return tr
            if up:
                hi = INF
            if down:
                lo = -INF
            return (max(lo, tr[0]), min(hi, tr[1]))
        if k in ('member', 'index') and not seen_has(seen, '#tbl'):
            vals = self.table_values(x, point, seen)
            if vals is not None:
                ints = [strip(v)['v'] for v in vals if isinstance(strip(v), dict) and strip(v).get('k') == 'int']
                if ints and len(ints) == len(vals):
                    return (min(ints), max(ints))
        if k == 'member' and self.prog is not None:
            fr = None
            if not seen_has(seen, '#handed') and not seen_has(seen, '#fr'):
                fr = handed_field_range(self.prog, self, x)
            if fr is None:
                fr = field_range(self.prog, x.get('record'), x['field'])
            if fr is not None:
                tr = type_range(x.get('type'))
                return (max(fr[0], tr[0]), min(fr[1], tr[1]))
        if k == 'call' and self.prog is not None and x.get('callee'):
            rr = return_range(self.prog, self.prog.unit_of(self.g), x['callee'], seen)
            if rr is not None:
                tr = type_range(x.get('type'))
                return (max(rr[0], tr[0]), min(rr[1], tr[1]))
        return type_range(x.get('type'))

    # -- constant tables ---------------------------------------------------------
    @staticmethod
    def _const_object_type(t):
        """the declared object itself is const-qualified (not merely what it points to): `const T x[]`, `T *const p`,
        `void (*const tbl[2])(...)`"""
        t = str(t or '')
        return 'const' in t.split('*')[0] or re.search(r'\(\*\s*const\s*(\[[^\]]*\])*\)', t) is not None

    def _const_global(self, v):
        """initialiser of the const-qualified file-scope object the variable node v names (None: not such an object)"""
        if not (isinstance(v, dict) and v.get('k') == 'var' and v.get('vk') in ('global', 'staticlocal')) or self.prog is None:
            return None
        if not self._const_object_type(v.get('type', '')):
            return None
        if v.get('vk') == 'staticlocal':
            d = self.decl.get(v['name'])
            if d is None:
                # the inliner renames the declaration of an inlined callee's static local (`tbl@3`) but not its uses
                cs = [x for n, x in self.decl.items() if n.split('@')[0] == v['name'] and x.get('static')]
                if cs and all(canon_init(x.get('init')) == canon_init(cs[0].get('init')) for x in cs[1:] if isinstance(x.get('init'), dict)):
                    d = cs[0]
            if d is not None and d.get('static') and isinstance(d.get('init'), dict) and self._const_object_type(d.get('type', '')):
                return d['init']
        inits = [g['init'] for g in self.prog.globals.values()
                 if isinstance(g, dict) and g.get('name') == v['name'] and isinstance(g.get('init'), dict)
                 and self._const_object_type(g.get('type', ''))]
        if not inits or any(canon_init(i) != canon_init(inits[0]) for i in inits[1:]):
            return None
        return inits[0]

    def table_values(self, x, point=None, seen=frozenset(), depth=0, env=None):
        """the initialiser nodes the read `x` can yield when x designates (part of) a const-qualified file-scope
        object: `T[i].f`, `p->f` with p = &T[i], `T[i]`, a const scalar.  The element index may be any value of
        its range at `point`.  None when x is not such a read."""
        x = strip_load(x) if isinstance(x, dict) else x
        x = strip(x)
        if not isinstance(x, dict) or depth > 6:
            return None
        k = x.get('k')
        if k == 'var':
            if x.get('vk') in ('global', 'staticlocal'):
                i = self._const_global(x)
                return [i] if i is not None else None
            return None
        if k == 'member':
            if x['arrow']:
                b = self.resolve(x['base'])
                if not (isinstance(b, dict) and b.get('k') == 'addr'):
                    # a pointer that can only designate elements of const tables (every value it is ever given is
                    # `&T[i]` with i inside T, or NULL, which a read through it cannot have been)
                    base = self.pointees(x['base'], point, seen, depth + 1) if env is None else None
                    if not base:
                        return None
                else:
                    base = self.table_values(b['e'], point, seen, depth + 1, env)
            else:
                base = self.table_values(x['base'], point, seen, depth + 1, env)
            if base is None:
                return None
            out = []
            for i in base:
                if not (isinstance(i, dict) and i.get('k') == 'init' and isinstance(i.get('fields'), dict)):
                    return None
                if x['field'] not in i['fields']:
                    out.append({'k': 'int', 'v': 0})       # not mentioned in the initialiser: zero
                else:
                    out.append(i['fields'][x['field']])
            return out
        if k == 'index':
            base = self.table_values(x['base'], point, seen, depth + 1, env)
            if base is None:
                return None
            iv = _env_index(x['idx'], env) if env is not None else None
            if iv is not None:
                lo, hi = iv[0], iv[1]                  # the valuation class of the path being followed (path_must)
            else:
                lo, hi = self.range(x['idx'], point, mark(seen, '#tbl')) if point is not None else self._raw(x['idx'], None, mark(seen, '#tbl'))
            out = []
            for i in base:
                if not (isinstance(i, dict) and i.get('k') == 'init' and isinstance(i.get('elems'), list)):
                    return None
                n = len(i['elems'])
                if lo < 0 or hi >= n:
                    return None
                out += i['elems'][int(lo):int(hi) + 1]
            return out
        return None

    def pointees(self, p, point=None, seen=frozenset(), depth=0):
        """initialiser nodes of the const-table elements the pointer value p can designate ([] for a pointer that is only
        ever NULL); None when some value of p is not understood.  Sources followed: `&T[i]` (i anywhere in its range at
        that point, which must lie inside T), NULL, `c ? a : b`, plain locals through the definitions that reach the
        point, the return values of a library function with a body in sight, and a pointer field of a record that is
        private to one .c file through every store the program makes to that field (field_pointees)."""
        if depth > 24 or not isinstance(p, dict):
            return None
        x = strip(strip_load(p))
        while isinstance(x, dict) and x.get('k') in ('load', 'paren', 'cast') and isinstance(x.get('e'), dict):
            x = strip(x['e'])
        if not isinstance(x, dict):
            return None
        k = x.get('k')
        if k == 'null' or (k == 'int' and x.get('v') == 0):
            return []
        if k == 'addr':
            return self.table_values(x['e'], point, seen, 0)       # cycles are cut by the tags in `seen`, not by depth
        if k == 'cond':
            a = self.pointees(x['a'], point, seen, depth + 1)
            b = self.pointees(x['b'], point, seen, depth + 1)
            return None if a is None or b is None else a + b
        if k == 'var':
            name = x['name']
            if not self.is_plain_local(x) or ('#p:' + name) in seen:
                return None
            ds = self.defs_at(name, point)
            if not ds:
                return None
            out = []
            for d in ds:
                if d.get('op') != '=' or 'rhs' not in d:
                    return None
                r = self.pointees(d['rhs'], (d['_b'], d['_i']), seen | {'#p:' + name}, depth + 1)
                if r is None:
                    return None
                out += r
            return out
        if k == 'call' and self.prog is not None and x.get('callee'):
            t = self.prog.resolve(self.prog.unit_of(self.g), x['callee'])
            tag = '#pret:' + (t.q if t is not None else '?')
            if t is None or not t.blocks or tag in seen:
                return None
            Vt = view_of(self.prog, t)
            out, n = [], 0
            for e in t.events():
                if e['ev'] == 'ret':
                    if 'value' not in e:
                        return None
                    r = Vt.pointees(e['value'], (e['_b'], e['_i']), frozenset(s_ for s_ in seen if str(s_).startswith('#')) | {tag}, depth + 1)
                    if r is None:
                        return None
                    out += r
                    n += 1
            return out if n else None
        if k == 'member' and self.prog is not None:
            return field_pointees(self.prog, x.get('record'), x['field'], seen, depth + 1)
        return None

    def const_int(self, x, point=None, env=None):
        """the one integer x evaluates to: a literal, or a read of a const table all of whose candidates agree"""
        x0 = strip(x)
        if isinstance(x0, dict) and x0.get('k') == 'int':
            return x0['v']
        r = self.resolve(x)
        if isinstance(r, dict) and r.get('k') == 'int':
            return r['v']
        for y in (x, r):
            vals = self.table_values(y, point, env=env) if isinstance(y, dict) else None
            if vals:
                ints = {strip(v)['v'] for v in vals if isinstance(strip(v), dict) and strip(v).get('k') == 'int'}
                if len(ints) == 1 and all(isinstance(strip(v), dict) and strip(v).get('k') == 'int' for v in vals):
                    return ints.pop()
        return None

    def implies_ne(self, expr, point, n):
        A = self.atoms(point)
        return any(atoms_imply(A, '!=', s, str(n)) for s in self.spellings(expr))

    # -- capacity of the object an expression designates -------------------------
    def capacity(self, x):
        """(elements, element size in bytes, symbolic element count or None) of the object the pointer value x
        designates: a local/global array (decays), `&scalar`, `&array[0]`.  None when unknown (heap, parameter)."""
        x = self.resolve(x)
        if not isinstance(x, dict):
            return None
        if x.get('k') == 'addr':
            t = strip(x['e'])
            if isinstance(t, dict) and t.get('k') == 'index' and strip(t['idx']).get('k') == 'int' and strip(t['idx'])['v'] == 0:
                return self.capacity(t['base'])
            if isinstance(t, dict) and t.get('k') in ('var', 'member'):
                ty = (t.get('type') or self.decl.get(t.get('name'), {}).get('type') or '').replace('const ', '').strip()
                at = array_type(ty)
                if at:
                    return None
                sz = TYPE_SIZE.get(ty)
                if sz is None and t.get('record') and not t.get('ptr') and self.prog is not None:
                    sz = self.prog.records.get(t['record'], {}).get('size')
                if sz is None and t.get('trecord') and not t.get('tptr') and self.prog is not None:
                    sz = self.prog.records.get(t['trecord'], {}).get('size')
                if '*' in ty:
                    sz = 8
                return (1, sz, None)
            return None
        if x.get('k') in ('var', 'member'):
            ty = x.get('type') or self.decl.get(x.get('name'), {}).get('type') or ''
            at = array_type(ty)
            if at:
                esz = TYPE_SIZE.get(at[0])
                if esz is None and '*' in at[0]:
                    esz = 8
                if esz is None and at[0].startswith('struct ') and self.prog is not None:
                    esz = self.prog.records.get(at[0][7:].strip(), {}).get('size')
                return (at[1], esz, None)
            d = self.decl.get(x.get('name')) if x.get('k') == 'var' else None
            if d is not None and 'vla_size' in d:
                return (None, None, d['vla_size'])
        return None

    def array_id(self, base):
        """identity of the array a subscript/pointer argument designates: the state field it lives in
        (record/field path) or the local/global array variable."""
        b = self.resolve(strip_load(base) if isinstance(base, dict) else base)
        if isinstance(b, dict) and b.get('k') == 'addr':
            t = strip(b['e'])
            if isinstance(t, dict) and t.get('k') == 'index':
                b = self.resolve(t['base'])
        if isinstance(b, dict) and b.get('k') == 'member':
            pk = path_key(b)
            return ('field',) + pk if pk else None
        if isinstance(b, dict) and b.get('k') == 'var':
            return ('var', b['name'])
        return None


def counter_offsets(V, is_counter, steppers=frozenset()):
    """Relational forward analysis for an integer counter that lives in memory (is_counter(lvalue) recognises it):
    at every point, for the counter itself ('CTR') and for every plain local, the difference to the value the
    counter had at function entry, where that is the same on every path; 'MAX'/'MIN' are the largest/smallest
    difference the counter itself had so far on every path (must: the weakest over the paths).
    The value of an embedded `c++`/`--c` is taken after its side effect, which is an event of its own that
    precedes the embedding event.  `steppers`: names of functions that may change the counter when called."""
    g = V.g

    def val(x, S):
        x = strip(x)
        if not isinstance(x, dict):
            return None
        k = x.get('k')
        if k == 'var':
            if V.is_plain_local(x):
                return S.get(('v', x['name']))
            return None
        if k == 'incdec':
            c = val(x['e'], S)
            if c is None:
                return None
            if x.get('prefix'):
                return c
            return c - 1 if x['op'] == '++' else c + 1
        if k == 'bin' and x['op'] in ('+', '-'):
            l, r = strip(x['l']), strip(x['r'])
            if isinstance(r, dict) and r.get('k') == 'int':
                c = val(l, S)
                return None if c is None else c + (r['v'] if x['op'] == '+' else -r['v'])
            if x['op'] == '+' and isinstance(l, dict) and l.get('k') == 'int':
                c = val(r, S)
                return None if c is None else c + l['v']
            return None
        if k in ('member', 'deref', 'index') and is_counter(x):
            return S.get('CTR')
        return None

    def setctr(S, c):
        if c is None:
            S.pop('CTR', None)
            return
        S['CTR'] = c
        if 'MAX' in S:
            S['MAX'] = max(S['MAX'], c)
        if 'MIN' in S:
            S['MIN'] = min(S['MIN'], c)

    def tr(e, Sf):
        if Sf is None:
            return None
        ev = e['ev']
        if ev == 'store':
            S = dict(Sf)
            l = plain_lhs(e['lhs']) or strip(deref_norm(V, e['lhs']))
            op = e.get('op')
            if isinstance(l, dict) and l.get('k') != 'var' and is_counter(l):
                c = S.get('CTR')
                if op == '++':
                    setctr(S, None if c is None else c + 1)
                elif op == '--':
                    setctr(S, None if c is None else c - 1)
                elif op in ('+=', '-=') and isinstance(strip(e.get('rhs')), dict) and strip(e['rhs']).get('k') == 'int':
                    d = strip(e['rhs'])['v'] * (1 if op == '+=' else -1)
                    setctr(S, None if c is None else c + d)
                elif op == '=' and 'rhs' in e:
                    setctr(S, val(deref_norm(V, e['rhs']), S))
                else:
                    setctr(S, None)
                return frozenset(S.items())
            if isinstance(l, dict) and l.get('k') == 'var':
                n = l['name']
                old = S.pop(('v', n), None)
                if not V.is_plain_local(l):
                    return frozenset(S.items())
                if op == '=' and 'rhs' in e:
                    c = val(deref_norm(V, e['rhs']), dict(Sf))
                    if c is not None:
                        S[('v', n)] = c
                elif old is not None and op in ('++', '--'):
                    S[('v', n)] = old + (1 if op == '++' else -1)
                elif old is not None and op in ('+=', '-=') and isinstance(strip(e.get('rhs')), dict) and strip(e['rhs']).get('k') == 'int':
                    S[('v', n)] = old + strip(e['rhs'])['v'] * (1 if op == '+=' else -1)
                return frozenset(S.items())
            if isinstance(l, dict) and l.get('k') in ('deref', 'index') and 'bound' not in l:
                # a store through a pointer of unknown target may hit the counter
                t = str(l.get('type', ''))
                if t.replace('const ', '').strip() in ('int', 'unsigned int', 'unsigned', ''):
                    S.pop('CTR', None)
                    return frozenset(S.items())
            return Sf
        if ev in ('call',):
            # code that is not seen here may step the counter: library functions (not inlined), user callbacks
            nm = e.get('callee')
            opaque = 'fnexpr' in e or (nm is not None and nm in steppers)
            if opaque:
                S = dict(Sf)
                S.pop('CTR', None)
                return frozenset(S.items())
        return Sf

    def jn(a, b):
        if a is None:
            return b
        if b is None:
            return a
        da, db = dict(a), dict(b)
        out = {}
        for k_, v in da.items():
            if k_ in db:
                if k_ == 'MAX':
                    out[k_] = min(v, db[k_])
                elif k_ == 'MIN':
                    out[k_] = max(v, db[k_])
                elif db[k_] == v:
                    out[k_] = v
        return frozenset(out.items())

    init = frozenset({'CTR': 0, 'MAX': 0, 'MIN': 0}.items())
    _, ev_in = forward(g, init, tr, jn)
    return {k_: (dict(v) if v is not None else {}) for k_, v in ev_in.items()}, val


def transitive_writers(prog, record, field):
    """names of the functions that store to record.field themselves or through direct calls"""
    cache = prog.__dict__.setdefault('_h18_twriters', {})
    if (record, field) not in cache:
        names = {f.name for (f, e) in prog.writers_of(record, field)}
        work = list(names)
        while work:
            n = work.pop()
            for (c, e) in prog.callers_of(n):
                if c.name not in names:
                    names.add(c.name)
                    work.append(c.name)
        cache[(record, field)] = names
    return cache[(record, field)]


def deref_norm(V, x):
    """x with accesses through a pointer that holds a known address written as accesses to the object itself:
    `*p` / `p->f` with p = &X (a parameter that became the caller's `&obj->field`, or a local assigned such an address
    once) become `X` / `X.f`."""
    from ..core import subst

    def fn(n):
        if n.get('k') == 'deref' and isinstance(n.get('e'), dict):
            r = V.resolve(n['e']) if V is not None else strip(n['e'])
            if isinstance(r, dict) and r.get('k') == 'addr' and isinstance(r.get('e'), dict):
                return deref_norm(V, r['e'])
        if n.get('k') == 'member' and n.get('arrow') and isinstance(n.get('base'), dict):
            r = V.resolve(n['base']) if V is not None else strip(n['base'])
            if isinstance(r, dict) and r.get('k') == 'addr' and isinstance(r.get('e'), dict):
                out = dict(n)
                out['arrow'] = False
                out['base'] = deref_norm(V, r['e'])
                return out
        return None
    return subst(x, fn) if isinstance(x, dict) else x


def _int_node(n):
    return {'k': 'int', 'v': n, 'type': 'int'}


def _plus(a, n):
    if n == 0:
        return a
    a0 = strip(a)
    if isinstance(a0, dict) and a0.get('k') == 'int':
        return _int_node(a0['v'] + n)
    return {'k': 'bin', 'op': '+' if n > 0 else '-', 'l': a, 'r': _int_node(abs(n)), 'type': 'int'}


def index_walks(prog, g):
    """g with every *pointer walk over a const table* restated as an index into that table, or g itself when there is
    none.  A walker is a plain local (an inlined parameter) P of pointer type every definition of which is `P = T`,
    `P = &T[c]` or `P = T + c` for one const-qualified file-scope array T, or a step `P++` / `P--` / `P += c`.  A
    synthetic integer local `P#i` is assigned c next to each such definition and stepped next to each step, and every
    read of P's value becomes `&T[P#i]` (`*P` is `T[P#i]`, `P[k]` is `T[P#i + k]`, the value of `P++` inside a larger
    expression, whose step is an event of its own that precedes the use, is `&T[P#i - 1]`).  The analyses that know
    tables by index (View.table_values, path_must over small index values) then see the walk."""
    import copy as _copy
    V0 = view_of(prog, g)
    walkers = {}
    for name, ds in V0.defs.items():
        if not ds or name in V0.escaped or name in V0.root_params:
            continue
        lv = strip(ds[0]['lhs'])
        if not (isinstance(lv, dict) and lv.get('k') == 'var' and lv.get('vk') in ('local', 'param') and '*' in str(lv.get('type', ''))):
            continue
        T, ok, inits = None, True, {}
        for d in ds:
            op = d.get('op')
            if op in ('++', '--'):
                continue
            if op in ('+=', '-=') and 'rhs' in d and isinstance(strip(d['rhs']), dict) and strip(d['rhs']).get('k') == 'int':
                continue
            if op != '=' or 'rhs' not in d or strip(d['lhs']).get('k') != 'var':
                ok = False
                break
            r = strip(d['rhs'])
            c, t = 0, None
            if isinstance(r, dict) and r.get('k') == 'var':
                t = r
            elif isinstance(r, dict) and r.get('k') == 'addr' and strip(r['e']).get('k') == 'index' \
                    and isinstance(strip(strip(r['e'])['idx']), dict) and strip(strip(r['e'])['idx']).get('k') == 'int':
                t, c = strip(strip_load(strip(r['e'])['base'])), strip(strip(r['e'])['idx'])['v']
            elif isinstance(r, dict) and r.get('k') == 'bin' and r['op'] == '+' and isinstance(strip(r['r']), dict) \
                    and strip(r['r']).get('k') == 'int':
                t, c = strip(r['l']), strip(r['r'])['v']
            init = V0._const_global(t) if isinstance(t, dict) else None
            if not (isinstance(init, dict) and isinstance(init.get('elems'), list)) or (T is not None and T['name'] != t['name']):
                ok = False
                break
            T = t
            inits[id(d)] = c
        if ok and T is not None:
            walkers[name] = (T, inits)
    if not walkers:
        return g

    def ivar(name):
        return {'k': 'var', 'name': name + '#i', 'vk': 'local', 'type': 'int'}

    def elem(name, off):
        T = walkers[name][0]
        et = array_type(T.get('type'))
        return {'k': 'index', 'base': T, 'idx': _plus({'k': 'load', 'e': ivar(name)}, off), 'type': et[0] if et else ''}

    def wname(x):
        x = strip(x)
        return x['name'] if isinstance(x, dict) and x.get('k') == 'var' and x.get('name') in walkers else None

    def pvalue(x):
        """(walker, offset) when x is the value of a walker: P, P++ (old value), ++P, P + c"""
        x = strip(x)
        if not isinstance(x, dict):
            return None
        if wname(x):
            return (x['name'], 0)
        if x.get('k') == 'incdec' and wname(x['e']):
            d = 1 if x['op'] == '++' else -1
            return (wname(x['e']), 0 if x.get('prefix') else -d)
        if x.get('k') == 'bin' and x['op'] in ('+', '-') and wname(x['l']) and isinstance(strip(x['r']), dict) and strip(x['r']).get('k') == 'int':
            return (wname(x['l']), strip(x['r'])['v'] * (1 if x['op'] == '+' else -1))
        return None

    def rw(n):
        k = n.get('k')
        if k == 'deref':
            pv = pvalue(n['e'])
            if pv:
                return elem(pv[0], pv[1])
        if k == 'index':
            pv = pvalue(n['base'])
            if pv:
                el = elem(pv[0], pv[1])
                i0 = strip(n['idx'])
                if isinstance(i0, dict) and i0.get('k') == 'int':
                    el['idx'] = _plus(el['idx'], i0['v'])
                else:
                    el['idx'] = {'k': 'bin', 'op': '+', 'l': el['idx'], 'r': subst(n['idx'], rw), 'type': 'int'}
                return el
        if k in ('var', 'incdec', 'bin'):
            pv = pvalue(n)
            if pv:
                return {'k': 'addr', 'e': elem(pv[0], pv[1]), 'type': n.get('type', '')}
        return None

    from ..core import subst
    g2 = _copy.copy(g)
    g2.blocks = {}
    for b, blk in g.blocks.items():
        nb = _copy.copy(blk)
        nb.succ = list(blk.succ)
        nb.term = dict(blk.term) if blk.term else None
        if nb.term and nb.term.get('cond') is not None:
            nb.term['cond'] = subst(nb.term['cond'], rw)
        evs = []
        for e in blk.events:
            if e['ev'] == 'store' and wname(e['lhs']) and strip(e['lhs']).get('k') == 'var':
                name = wname(e['lhs'])
                evs.append(dict(e))
                op = e.get('op')
                x = dict(e, lhs=ivar(name), synthetic=True)
                if op == '=':
                    x['rhs'] = _int_node(walkers[name][1][id(e)])
                evs.append(x)
                continue
            ne = dict(e)
            for key in ('lhs', 'rhs', 'args', 'value', 'fnexpr', 'e'):
                if key in ne and isinstance(ne[key], (dict, list)):
                    ne[key] = subst(ne[key], rw)
            evs.append(ne)
        for i, e in enumerate(evs):
            e['_b'], e['_i'] = b, i
        nb.events = evs
        g2.blocks[b] = nb
    g2._preds = None
    return g2


def view_of(prog, g):
    cache = prog.__dict__.setdefault('_h18_views', {})
    v = cache.get(id(g))
    if v is None or v.g is not g:
        v = cache[id(g)] = View(g, prog)
    return v


# --------------------------------------------------------------------------
# site obligations in calling context
# --------------------------------------------------------------------------

def own_events(g, fq):
    """events of function fq inside (possibly inlined) g"""
    for e in g.events():
        if e.get('fn', fq) == fq:
            yield e


def site_verdict(prog, f, collect, prove):
    """Evaluate the site obligations of source function f.

       collect(view, events) -> {site key: [site, ...]}    (sites found among the given events)
       prove(view, site)     -> (proof text or None, detail text)

    A site is discharged when it has a proof in f taken alone (no assumption about callers), or
    in f with its helpers inlined (their results and effects visible), or -- for a helper --
    in *every* public/handler root from which it is reachable, with everything inlined.
    Returns {key: (site in f, proof or None, detail, view kind)}."""
    v1 = view_of(prog, f)
    sites = collect(v1, list(f.events()))
    out = {}
    pending = {}
    for key, copies in sites.items():
        res = [prove(v1, s) for s in copies]
        if all(r[0] for r in res):
            out[key] = (copies[0], res[0][0], res[0][1], 'function')
        else:
            pending[key] = (copies[0], [r for r in res if not r[0]][0][1])
    if not pending:
        return out
    # with helpers inlined
    try:
        g2 = roles.inlined(prog, f)
        v2 = view_of(prog, g2)
        s2 = collect(v2, [e for e in g2.events() if not e.get('chain')])
    except AnalysisBroken:
        s2 = {}
    for key in list(pending):
        copies = s2.get(key)
        if copies:
            res = [prove(v2, s) for s in copies]
            if all(r[0] for r in res):
                out[key] = (pending[key][0], res[0][0], res[0][1], 'function with helpers inlined')
                del pending[key]
    if not pending:
        return out
    # calling contexts
    rts = {r.q: r for r in roles.roots(prog)}
    # an entry point of the library (external linkage / address taken) has callers nobody sees: only the proofs above count
    ctx_roots = [] if f.q in rts else [c for c in roles.callers_closure(prog, f) if c.q in rts]
    per_key = {k: [] for k in pending}
    for r in sorted(ctx_roots, key=lambda r: r.q):
        try:
            g = roles.inlined(prog, r)
        except AnalysisBroken:
            continue
        evs = [e for e in g.events() if e.get('fn') == f.q and e.get('chain')]
        if not evs:
            continue
        v = view_of(prog, g)
        s3 = collect(v, evs, True)       # in a calling context an argument may have become a constant: still a site
        for key in pending:
            for s in s3.get(key, []):
                per_key[key].append((r, prove(v, s)))
    for key, (site, det) in pending.items():
        res = per_key[key]
        if res and all(p[0] for (_, p) in res):
            out[key] = (site, res[0][1][0], '%s [in every calling context: %s]' % (res[0][1][1], ', '.join(sorted({r.name for r, _ in res}))), 'contexts')
        else:
            bad = [(r, p) for (r, p) in res if not p[0]]
            if bad:
                det = '%s [calling context %s]' % (bad[0][1][1], bad[0][0].name)
            out[key] = (site, None, det, 'contexts' if res else 'function')
    return out


# --------------------------------------------------------------------------
# disjunctive forward analysis: (fact, abstract values of return-relevant scalars)
# --------------------------------------------------------------------------

def path_states(fn, init_fact, tr_fact, edge_fact=None, maxstates=600):
    """Returns [(ret event or None for falling off the end, fact, return class)] where the return
    class is analyses.aval of the returned expression ('void' when there is none).  Facts are
    hashable; tr_fact(event, fact) -> fact; edge_fact(block, succ index, atoms, fact) -> fact | None."""
    relevant = relevant_vars(fn)

    def transfer(e, S):
        out = set()
        for (fact, envk) in S:
            fact2 = tr_fact(e, fact)
            if e['ev'] == 'store':
                l = strip(e['lhs'])
                if l.get('k') == 'var' and l['name'] in relevant:
                    env = dict(envk)
                    v = aval(e['rhs'], env) if (e['op'] == '=' and 'rhs' in e) else '?'
                    if v == '?':
                        env.pop(l['name'], None)
                    else:
                        env[l['name']] = v
                    envk = _envkey(env)
            elif e['ev'] == 'call':
                env = None
                for a in e.get('args', []):
                    a = strip(a)
                    if isinstance(a, dict) and a.get('k') == 'addr':
                        v = strip(a['e'])
                        if isinstance(v, dict) and v.get('k') == 'var':
                            env = dict(envk) if env is None else env
                            env.pop(v['name'], None)
                if env is not None:
                    envk = _envkey(env)
            out.add((fact2, envk))
        if len(out) > maxstates:
            raise AnalysisBroken('state explosion in path analysis of %s' % fn.name)
        return frozenset(out)

    def edge(blk, si, S):
        if not blk.term or len(blk.succ) < 2 or blk.term.get('cls') in ('SwitchStmt', 'MethodDispatch'):
            return S
        c = blk.term.get('cond')
        if c is None:
            return S
        atoms = norm_cond(c, si == 0)
        out = set()
        for (fact, envk) in S:
            env = refine(dict(envk), atoms, relevant)
            if env is None:
                continue
            v = aval(c, dict(envk))
            if isinstance(v, tuple) and bool(v[1]) != (si == 0):
                continue
            if v == 'nz' and si != 0:
                continue
            f2 = edge_fact(blk, si, atoms, fact) if edge_fact else fact
            if f2 is None:
                continue
            out.add((f2, _envkey(env)))
        return frozenset(out) if out else None

    _, ev_in = forward(fn, frozenset([(init_fact, ())]), transfer, lambda a, b: a | b, edge=edge)
    rets = []
    if fn.ret == 'void':
        # `return;` and falling off the end both arrive at the exit block
        for (fact, envk) in ev_in.get((fn.exit, 0)) or ():
            rets.append((None, fact, 'void'))
        return rets
    for b, blk in fn.blocks.items():
        for i, e in enumerate(blk.events):
            if e['ev'] == 'ret' and not e.get('chain'):
                for (fact, envk) in ev_in.get((b, i)) or ():
                    rc = aval(e['value'], dict(envk)) if 'value' in e else 'void'
                    rets.append((e, fact, rc))
    return rets


# --------------------------------------------------------------------------
# path-sensitive must analysis: must-facts per valuation class of the integer locals that steer the control flow
# --------------------------------------------------------------------------

def _steering_locals(fn, extra=()):
    """plain locals and parameters (address never taken) whose value decides the class of the returned value: those
    returned by the function itself and, transitively, the locals copied into them (result variables of inlined
    helpers, their return temporaries), as far as they are compared with integer literals or assigned them"""
    escaped = escaped_locals(fn)
    locs = set()
    for e in fn.events():
        for x in walk(e):
            if x.get('k') == 'var' and x.get('vk') in ('local', 'param'):
                locs.add(x['name'])
    names = set(extra)
    for e in fn.events():
        if e['ev'] == 'ret' and 'value' in e and not e.get('chain'):
            for v in walk(e['value']):
                if v.get('k') == 'var' and v.get('vk') in ('local', 'param'):
                    names.add(v['name'])
    changed = True
    while changed:
        changed = False
        for e in fn.events():
            if e['ev'] == 'store' and e.get('op') == '=' and 'rhs' in e and strip(e['lhs']).get('k') == 'var' and var_name(e['lhs']) in names:
                for r in walk(e['rhs']):
                    if r.get('k') == 'call':
                        break
                    if r.get('k') == 'var' and r.get('vk') in ('local', 'param') and r['name'] not in names:
                        names.add(r['name'])
                        changed = True
    return (names & locs) - escaped


def _iv_eval(x, env):
    """(lo, hi, nonzero) of expression x under env {name: (lo, hi, nz)}, or None"""
    x = strip(x)
    if not isinstance(x, dict):
        return None
    k = x.get('k')
    if k == 'int':
        return (x['v'], x['v'], x['v'] != 0)
    if k == 'null':
        return (0, 0, False)
    if k == 'var':
        return env.get(x['name'])
    if k == 'un' and x['op'] == '-':
        v = _iv_eval(x['e'], env)
        return None if v is None else (-v[1], -v[0], v[2])
    if k == 'un' and x['op'] == '!':
        v = _iv_eval(x['e'], env)
        if v is not None and (v[2] or v[0] > 0 or v[1] < 0):
            return (0, 0, False)
        if v is not None and v[0] == v[1] == 0:
            return (1, 1, True)
        return (0, 1, False)
    if k == 'bin' and x['op'] in ('==', '!=', '<', '>', '<=', '>=', '&&', '||'):
        return (0, 1, False)
    if k == 'cond':
        a, b = _iv_eval(x['a'], env), _iv_eval(x['b'], env)
        if a is None or b is None:
            return None
        return (min(a[0], b[0]), max(a[1], b[1]), a[2] and b[2])
    if k == 'addr':
        return (-INF, INF, True)
    return None


def _iv_refine(v, op, c):
    lo, hi, nz = v
    if op == '==':
        if c < lo or c > hi or (nz and c == 0):
            return None
        return (c, c, c != 0)
    if op == '!=':
        if lo == hi == c:
            return None
        if c == lo:
            lo += 1
        if c == hi:
            hi -= 1
        if c == 0:
            nz = True
    elif op == '<':
        hi = min(hi, c - 1)
    elif op == '<=':
        hi = min(hi, c)
    elif op == '>':
        lo = max(lo, c + 1)
    elif op == '>=':
        lo = max(lo, c)
    else:
        return v
    if lo > hi or (nz and lo == hi == 0):
        return None
    if lo > 0 or hi < 0:
        nz = True
    return (lo, hi, nz)


TOPV = (-INF, INF, False)


def path_must(fn, init_fact, tr_fact, meet, edge_fact=None, maxstates=48, extra=(), with_env=False):
    """Must-facts along the paths of fn, kept apart per valuation class (interval and non-zero-ness) of the locals that
    steer control flow, so that correlated branches (`if (ret == 0) {...} return ret;`, `if (pid > 0) ... if (pid < 0)`)
    are followed and infeasible paths dropped.
       tr_fact(event, fact) -> fact;   meet(fact, fact) -> fact (join of two paths in the same class);
       edge_fact(block, succ index, atoms, fact) -> fact or None (infeasible);
       with_env: both also receive the class {local: (lo, hi, non-zero)} as last argument.
    `extra`: further locals to keep apart (a loop index over a small const table: the loop is then followed
    iteration by iteration, as stepping a known small value keeps it known).
    Returns [(ret event | None for the end of a void function, fact, 'ok' | 'fail' | 'maybe')]: the class of the returned
    value (0 / provably non-zero / unknown)."""
    names = _steering_locals(fn, extra)

    def key(env):
        return tuple(sorted((n, v) for n, v in env.items() if v != TOPV))

    def norm(states):
        out = {}
        for (ck, fact) in states:
            out[ck] = fact if ck not in out else meet(out[ck], fact)
        if len(out) > maxstates:
            f = None
            for v in out.values():
                f = v if f is None else meet(f, v)
            out = {(): f}
        return frozenset(out.items())

    def transfer(e, S):
        out = []
        for (ck, fact) in S:
            env = dict(ck)
            f2 = tr_fact(e, fact, env) if with_env else tr_fact(e, fact)
            if e['ev'] == 'store':
                l = plain_lhs(e['lhs']) or strip(e['lhs'])
                if isinstance(l, dict) and l.get('k') == 'var' and l['name'] in names:
                    op = e.get('op')
                    v = _iv_eval(e['rhs'], env) if (op == '=' and 'rhs' in e) else None
                    old = env.get(l['name'])
                    d = None
                    if op in ('++', '--'):
                        d = 1 if op == '++' else -1
                    elif op in ('+=', '-=') and isinstance(strip(e.get('rhs')), dict) and strip(e['rhs']).get('k') == 'int':
                        d = strip(e['rhs'])['v'] * (1 if op == '+=' else -1)
                    if d is not None and old is not None and abs(old[0]) <= 64 and abs(old[1]) <= 64:
                        v = (old[0] + d, old[1] + d, old[0] + d > 0 or old[1] + d < 0)
                    if v is None or v == TOPV:
                        env.pop(l['name'], None)
                    else:
                        env[l['name']] = v
            elif e['ev'] == 'leave':
                # the result of an inlined call is dropped by the caller: a void wrapper around a fallible helper is
                # (like analyses.delta_analysis) taken to be used where the helper cannot fail
                if e.get('ret_unused') and e.get('retvar') and e.get('rettype') == 'int':
                    v = env.get(e['retvar'])
                    if v is not None and (v[2] or v[0] > 0 or v[1] < 0):
                        continue
            out.append((key(env), f2))
        return norm(out)

    def edge(blk, si, S):
        if not blk.term or len(blk.succ) < 2 or blk.term.get('cls') in ('SwitchStmt', 'MethodDispatch'):
            return S
        c = blk.term.get('cond')
        if c is None:
            return S
        atoms = _cond_atoms(c, si == 0)
        out = []
        for (ck, fact) in S:
            env = dict(ck)
            dead = False
            for (op, lc, rc, l, r) in atoms:
                if op == 'const':
                    if lc == 'False':
                        dead = True
                    continue
                n = intlit(rc)
                if n is None or lc not in names:
                    continue
                v = _iv_refine(env.get(lc, TOPV), op, n)
                if v is None:
                    dead = True
                    break
                env[lc] = v
            if dead:
                continue
            if not atoms:
                # a condition that does not normalise (|| taken, && not taken): decide it as a whole where possible
                v = _iv_eval(c, env)
                if v is not None and (v[0] == v[1] == 0) and si == 0:
                    continue
                if v is not None and (v[2] or v[0] > 0 or v[1] < 0) and si != 0:
                    continue
            f2 = fact
            if edge_fact:
                f2 = edge_fact(blk, si, atoms, fact, env) if with_env else edge_fact(blk, si, atoms, fact)
            if f2 is None:
                continue
            out.append((key(env), f2))
        return norm(out) if out else None

    def jn(a, b):
        return norm(list(a) + list(b))

    _, ev_in = forward(fn, frozenset([((), init_fact)]), transfer, jn, edge=edge)
    rets = []
    if fn.ret == 'void':
        for (ck, fact) in ev_in.get((fn.exit, 0)) or ():
            rets.append((None, fact, 'ok'))
        return rets
    for b, blk in fn.blocks.items():
        for i, e in enumerate(blk.events):
            if e['ev'] == 'ret' and not e.get('chain'):
                for (ck, fact) in ev_in.get((b, i)) or ():
                    v = _iv_eval(e['value'], dict(ck)) if 'value' in e else (0, 0, False)
                    if v is None:
                        cls = 'maybe'
                    elif v[0] == v[1] == 0:
                        cls = 'ok'
                    elif v[2] or v[0] > 0 or v[1] < 0:
                        cls = 'fail'
                    else:
                        cls = 'maybe'
                    rets.append((e, fact, cls))
    return rets


# --------------------------------------------------------------------------
# INIT-COMPLETE with path-sensitive "written on every success path" (local variant of generic.init_complete)
# --------------------------------------------------------------------------

def must_written_paths(fn, record, success_only=True):
    """generic.must_written decided per path instead of per return statement: the fields of `record` objects written on
    every path of (inlined) fn that ends in success.  A `return ret;` shared by the failing and the succeeding paths,
    or a write under `if (pid > 0)` followed by `if (pid < 0) return pid; return 0;`, no longer hides the write."""
    from ..generic import field_accesses

    def tr(e, S):
        for (k, v, f) in field_accesses(e, record):
            if k == 'w':
                S = S | {('*', f)}
        return S
    rets = path_must(fn, frozenset(), tr, lambda a, b: a & b)
    result, seen = None, set()
    for (e, fact, cls) in rets:
        if success_only and cls == 'fail':
            continue
        seen.add(id(e))
        result = fact if result is None else (result & fact)
    return (result or frozenset()), len(seen)


def read_before_write(fn, record):
    """generic.read_before_write with the object identified through pointer copies: a local assigned exactly once from
    another pointer variable (`fd = (struct iv_fd_ *)_fd`, an inlined helper's parameter that was handed such an
    expression) designates the same object as that variable, so a write through one spelling covers a read through the
    other.  Edges whose condition is a constant of the wrong truth value in this calling context are not followed."""
    from ..generic import field_accesses, _covers
    defs = {}
    for e in fn.events():
        if e['ev'] == 'store' and strip(e['lhs']).get('k') == 'var':
            defs.setdefault(strip(e['lhs'])['name'], []).append(e)
    parent = {}
    for n, ds in defs.items():
        if len(ds) == 1 and ds[0].get('op') == '=' and 'rhs' in ds[0]:
            r = ds[0]['rhs']
            while isinstance(r, dict) and r.get('k') in ('load', 'cast', 'paren') and isinstance(r.get('e'), dict):
                r = r['e']
            if isinstance(r, dict) and r.get('k') == 'var' and r.get('vk') in ('local', 'param') and r['name'] != n:
                parent[n] = r['name']

    def root(v):
        k = 0
        while v in parent and k < 12:
            v, k = parent[v], k + 1
        return v

    def tr(e, S):
        for (k, v, f) in field_accesses(e, record):
            if k == 'w':
                S = S | {(root(v), f)}
        if e['ev'] == 'store':
            l = strip(e['lhs'])
            if l.get('k') == 'var' and l['name'] not in parent:
                S = frozenset(x for x in S if x[0] != l['name'])
        return S

    def edge(blk, si, S):
        c = blk.term.get('cond') if blk.term else None
        if c is not None and len(blk.succ) == 2 and blk.term.get('cls') not in ('SwitchStmt', 'MethodDispatch'):
            if any(a[0] == 'const' and a[1] == 'False' for a in norm_cond(c, si == 0)):
                return None
        return S
    _, ev_in = forward(fn, frozenset(), tr, lambda a, b: a & b, edge=edge)
    out = {}
    for b, blk in fn.blocks.items():
        for i, e in enumerate(blk.events):
            S = ev_in.get((b, i))
            if S is None:
                continue
            for (k, v, f) in field_accesses(e, record):
                if k == 'r' and not _covers(S, root(v), f):
                    out.setdefault(f, []).append(e)
    return out


def init_complete(ctx, rid, kinds=None):
    """generic.init_complete with must_written_paths in place of generic.must_written (same instances, same texts)."""
    from .. import generic as G
    from ..core import Inliner, relpath
    prog = ctx.prog
    mpriv = G._method_private(prog)
    tables = sorted(prog.method_tables())
    n = 0
    for K in G.OBJECT_KINDS:
        if kinds is not None and K['rec'] not in kinds:
            continue
        rec = K['rec']
        if rec not in prog.records or 'fields' not in prog.records[rec]:
            if K.get('optional'):
                continue
            raise AnalysisBroken('record %s not found' % rec)
        regs = [r for r in K['reg'] if prog.has_fn(r)]
        if not regs:
            if K.get('optional'):
                continue
            raise AnalysisBroken('register function of %s not found' % rec)
        fields = {f['name']: f for f in prog.records[rec]['fields']}
        private = [f for f in fields if f not in K['user'] and fields[f].get('record') not in G.KIND_RECORDS]
        variants = tables if K.get('per_method') else [None]
        for table in variants:
            inl = Inliner(prog, method_table=table, expand_methods=table is not None)
            mw_init = frozenset()
            if K['init'] and prog.has_fn(K['init']):
                mw_init, _ = must_written_paths(inl.inline(prog.fn(K['init'])), rec, success_only=False)
            mw_reg = None
            rbw_reg = {}
            for r in regs:
                g = inl.inline(prog.fn(r))
                w, nret = must_written_paths(g, rec)
                if nret == 0:
                    raise AnalysisBroken('%s has no success return' % r)
                mw_reg = w if mw_reg is None else (mw_reg & w)
                for fld, evs in read_before_write(g, rec).items():
                    rbw_reg.setdefault(fld, []).extend((r, e) for e in evs)
            rbw = {}
            skip = set(regs) | ({K['init']} if K['init'] else set())
            for f in prog.all_funcs():
                if f.name in skip:
                    continue
                if table is not None and f.q in mpriv and table not in mpriv[f.q]:
                    continue
                for fld, evs in G.read_before_write(f, rec).items():
                    rbw.setdefault(fld, []).extend((f.q, e) for e in evs)
            for fld in sorted(set(rbw) | set(rbw_reg)):
                topf = fld.split('.')[0]
                if topf not in private:
                    continue
                readers = rbw.get(fld, [])
                rreaders = rbw_reg.get(fld, [])
                ok = True
                why = ''
                if rreaders and not G._covers(mw_init, '*', fld):
                    ok = False
                    why = 'read by %s before any write; %s does not initialise it' % (rreaders[0][0], K['init'] or 'no INIT function')
                if readers and not G._covers(mw_init | mw_reg, '*', fld):
                    real = [(q, e) for (q, e) in readers if not G._only_called_after_write(prog, q, regs, rec, fld)]
                    if real:
                        ok = False
                        why = 'read by %s (%s) but not written on every success path of %s nor by %s' % (
                            real[0][0], relpath(real[0][1]['loc']), '/'.join(regs), K['init'] or 'an INIT function')
                        readers = real
                inst = '%s.%s%s' % (rec, fld, (' [%s]' % table.replace('iv_fd_poll_method_', '')) if table else '')
                if not ok and topf in K.get('guarded', {}):
                    ctx.exempt(rid, inst, K['guarded'][topf])
                    ok = True
                    why = 'guarded: ' + K['guarded'][topf]
                loc = (readers or rreaders)[0][1]['loc']
                ctx.ob(rid, inst, ok, loc=loc,
                       detail=why or 'written by %s before any library read' % ('INIT' if G._covers(mw_init, '*', fld) else 'registration'),
                       fn=(readers or rreaders)[0][0])
                n += 1
    return n


# --------------------------------------------------------------------------
# shadowed locals
# --------------------------------------------------------------------------

def _locpos(loc):
    p = (loc or '').rsplit(':', 2)
    try:
        return (int(p[-2]), int(p[-1]))
    except (ValueError, IndexError):
        return (0, 0)


def unshadow(prog):
    """The facts name a local by its identifier only: a local declared again in an inner scope (`int ret;`
    inside a loop body of a function that has its own `ret`) is indistinguishable from the outer one, and a
    flow-insensitive "all definitions of ret" would mix the two.  Occurrences whose most recent declaration
    of that identifier is, on every path, one particular later declaration are renamed `name#k` (in place,
    once per program; inlined copies are made from the renamed events)."""
    if getattr(prog, '_h18_unshadowed', False):
        return
    prog._h18_unshadowed = True
    for f in prog.all_funcs():
        decls = {}
        for e in f.events():
            if e['ev'] == 'decl' and '#' not in e['name']:
                decls.setdefault(e['name'], set()).add(e['loc'])
        sh = {n: sorted(v, key=_locpos) for n, v in decls.items() if len(v) > 1}
        if not sh:
            continue
        newname = {(n, loc): '%s#%d' % (n, i + 1) for n, locs in sh.items() for i, loc in enumerate(locs) if i > 0}

        def tr(e, S):
            if e['ev'] == 'decl' and e['name'].split('#')[0] in sh:
                S = dict(S)
                S[e['name'].split('#')[0]] = e['loc']
                return frozenset(S.items())
            return S

        def jn(a, b):
            da, db = dict(a), dict(b)
            return frozenset((n, da[n] if da.get(n) == db.get(n) else 'AMBIG') for n in set(da) | set(db))
        _, ev_in = forward(f, frozenset(), tr, jn)

        def rename(x, S):
            if isinstance(x, list):
                for y in x:
                    rename(y, S)
            elif isinstance(x, dict):
                if x.get('k') == 'var' and x.get('vk') == 'local' and (x['name'], S.get(x['name'])) in newname:
                    x['name'] = newname[(x['name'], S[x['name']])]
                if isinstance(x.get('_was'), str) and (x['_was'], S.get(x['_was'])) in newname:
                    x['_was'] = newname[(x['_was'], S[x['_was']])]
                for k, v in x.items():
                    if isinstance(v, (dict, list)) and k != 'sizeof':
                        rename(v, S)
        for b, blk in f.blocks.items():
            for i, e in enumerate(blk.events):
                S = dict(tr(e, ev_in.get((b, i), frozenset())))
                if e['ev'] == 'decl':
                    if (e['name'], e['loc']) in newname:
                        e['name'] = newname[(e['name'], e['loc'])]
                    continue
                rename({k: v for k, v in e.items() if isinstance(v, (dict, list))}, S)
            if blk.term and blk.term.get('cond') is not None:
                rename(blk.term['cond'], dict(ev_in.get((b, len(blk.events)), frozenset())))


# --------------------------------------------------------------------------
# ownership of a block attached to a user-visible object (R-C18j)
# --------------------------------------------------------------------------

# primitives that keep the address they are given (argument position of the linked member)
HAND_OVER = {'iv_list_add': 0, 'iv_list_add_tail': 0, 'iv_avl_tree_insert': 1}
FREE = ('free',)


def local_name(x):
    x = strip(x)
    if isinstance(x, dict) and x.get('k') == 'var' and x.get('vk') in ('local', 'param'):
        return x['name']
    return None


def interior_root(x):
    """P when x is `&P->a.b[i]` / `&(*P).a` (an address inside the block P points to), else None"""
    x = strip(x)
    if not isinstance(x, dict) or x.get('k') != 'addr':
        return None
    y = strip(x.get('e'))
    while isinstance(y, dict):
        k = y.get('k')
        if k == 'member':
            if y.get('arrow'):
                return y['base']
            y = strip(y['base'])
        elif k == 'index':
            y = strip(y['base'])
        elif k == 'deref':
            return y['e']
        else:
            return None
    return None


def _is_null(x):
    x = strip(x)
    return isinstance(x, dict) and (x.get('k') == 'null' or (x.get('k') == 'int' and x.get('v') == 0))


def _addr_of_local_var(x):
    x = strip(x)
    if isinstance(x, dict) and x.get('k') == 'addr':
        v = strip(x.get('e'))
        return isinstance(v, dict) and v.get('k') == 'var' and v.get('vk') in ('local', 'param')
    return False


def field_key(V, x):
    """identity of the object whose field the member access x reads/writes: the base pointer with single-definition locals
    replaced by what they were assigned (`p = ip; p->buf` is `ip->buf`)"""
    b = x.get('base')
    r = V.resolve(b) if (V is not None and isinstance(b, dict)) else b
    return '%s%s%s' % (canon(r) if isinstance(r, dict) else '?', '->' if x.get('arrow') else '.', x.get('field'))


def field_keys(V, rec, fld):
    """spellings (canonical text) of the accesses to rec.fld in the viewed function: one per object"""
    keys = {}
    g = V.g
    srcs = list(g.events()) + [b.term['cond'] for b in g.blocks.values() if b.term and isinstance(b.term.get('cond'), dict)]
    for y in srcs:
        for x in walk(y):
            if x.get('k') == 'member' and (x.get('record'), x.get('field')) == (rec, fld):
                keys.setdefault(field_key(V, x), x)
    for e in g.events():
        if e['ev'] == 'store':
            l = strip(deref_norm(V, e['lhs']))
            if isinstance(l, dict) and l.get('k') == 'member' and (l.get('record'), l.get('field')) == (rec, fld):
                keys.setdefault(field_key(V, l), l)
    return keys


def table_callees(V, e):
    """names of the functions an indirect call may enter when its target is read from a const table of function pointers
    (every entry the index may select at the call), else None"""
    fx = e.get('fnexpr')
    if not isinstance(fx, dict):
        return None
    x = strip_load(fx)
    if isinstance(x, dict) and x.get('k') == 'deref':
        x = x['e']
    try:
        vals = V.table_values(x, (e['_b'], e['_i']))
    except AnalysisBroken:
        return None
    if not vals:
        return None
    out = []
    for v in vals:
        v0 = strip(v)
        if isinstance(v0, dict) and v0.get('k') == 'addr':
            v0 = strip(v0['e'])
        if not (isinstance(v0, dict) and v0.get('k') == 'var' and v0.get('vk') == 'func'):
            return None
        out.append(v0['name'])
    return out


def fn_value_sources(V, x, point, depth=0):
    """where the (function pointer) value x can have been read from at `point`: a set of (record, field) pairs, with None
    for anything that is not a field read.  Plain locals are followed through the definitions that reach the point; a
    selection `c ? a : b` whose condition is one integer in this context (a substituted parameter) yields its live
    arm only, otherwise both arms."""
    while isinstance(x, dict) and x.get('k') in ('load', 'stmtexpr', 'paren', 'cast') and 'e' in x:
        x = x['e']
    if not isinstance(x, dict) or depth > 6:
        return {None}
    k = x.get('k')
    if k == 'deref':
        return fn_value_sources(V, x['e'], point, depth + 1)
    if k == 'cond':
        c = V.const_int(x['c'], point)
        if c is None:
            lo, hi = V.range(x['c'], point) if point is not None else (-INF, INF)
            if lo > 0 or hi < 0:
                c = 1
            elif lo == hi == 0:
                c = 0
        if c is not None:
            return fn_value_sources(V, x['a'] if c else x['b'], point, depth + 1)
        return fn_value_sources(V, x['a'], point, depth + 1) | fn_value_sources(V, x['b'], point, depth + 1)
    if k == 'member':
        lm = last_member(x)
        return {lm if lm else None}
    if k == 'var' and V.is_plain_local(x):
        ds = V.defs_at(x['name'], point)
        if not ds:
            return {None}
        out = set()
        for d in ds:
            if d.get('op') != '=' or 'rhs' not in d:
                return {None}
            out |= fn_value_sources(V, d['rhs'], (d['_b'], d['_i']), depth + 1)
        return out
    return {None}


def disposes_param(prog, t, idx):
    """every path through function t (helpers inlined) passes the block its idx-th parameter points to to free, or hands it
    to a list / tree / other memory, or finds the pointer NULL"""
    cache = prog.__dict__.setdefault('_h18_disposes', {})
    k = (t.q, idx)
    if k not in cache:
        cache[k] = False                     # recursion: not assumed
        if t.blocks and idx < len(t.params):
            try:
                g = roles.inlined(prog, t)
                _, _, exits, n = owned_flow(view_of(prog, g), None, None, None, False, frozenset([t.params[idx]['name']]))
                cache[k] = bool(n) and 'live' not in exits
            except AnalysisBroken:
                cache[k] = False
    return cache[k]


# libc / kernel entry points that use the memory they are handed during the call only (they keep no pointer to it)
NONRETAINING = frozenset((
    'memset', 'memcpy', 'memmove', 'memcmp', 'strcpy', 'strncpy', 'strlen', 'strcmp', 'strncmp', 'snprintf', 'sprintf', 'vsnprintf',
    'fprintf', 'printf', 'perror', 'syslog', 'wait4', 'waitpid', 'pipe', 'pipe2', 'syscall', 'read', 'write', 'recv', 'send', 'close',
    'fcntl', 'ioctl', 'clock_gettime', 'gettimeofday', 'time', 'sigemptyset', 'sigfillset', 'sigaddset', 'sigdelset', 'sigismember',
    'pthread_mutex_init', 'pthread_mutex_lock', 'pthread_mutex_unlock', 'pthread_mutex_destroy', 'pthread_self', 'getpid', 'abort',
    'epoll_wait', 'epoll_pwait', 'epoll_pwait2', 'poll', 'ppoll', 'splice', 'dup2', 'open', 'socketpair', 'getsockopt', 'setsockopt',
    'INIT_IV_LIST_HEAD', 'iv_list_empty', 'iv_list_del', 'iv_list_del_init', 'iv_avl_tree_delete', '___mutex_init', '___mutex_destroy',
    '___mutex_lock', '___mutex_unlock', 'spin_init', 'spin_lock', 'spin_unlock', 'fallback_spin_init', 'fallback_spin_lock',
    'fallback_spin_unlock', 'iv_fatal', 'pthr_join', 'pthr_detach', 'pthr_self', 'pthr_once', 'iv_get_thread_id'))


def owned_flow(V, rec, fld, key, born, init_aliases=frozenset(), site=None):
    """Follows the block whose address the field `key` (an access to rec.fld) holds through the viewed function.

    With `site` (source location of a store `L = malloc(...)` into a local; key None, born True) the block followed is
    the one that store creates: the locals are then its only holders, so losing the last of them while 'live', a second
    activation of the site while 'live', and a return while 'live' all lose the block; returning it (or an address inside
    it), and handing it or an address inside it to code that is not in sight and not known to forget it (NONRETAINING),
    make somebody else answer for it ('handed').

    Abstract state: a set of configurations (aliases, st, orphans):
      aliases  locals that hold the value the field holds now
      st       what is known of that value: 'live' (may be a block nobody else knows), 'null', 'freed' (passed to
               free), 'handed' (linked into a list / tree or stored into other memory: somebody else answers for it)
      orphans  {(locals still holding it, site)}: values the field held when it was overwritten at `site` while 'live'
    The function entry is ('live') unless `born` (the object starts its life here: the field holds nothing).
    Returns (sites {loc: store event}, lost {loc: text}, exit states {st}, n configurations at exit)."""
    g = V.g

    def is_field(x):
        if key is None:
            return False
        x = strip(x)
        if isinstance(x, dict) and x.get('k') == 'deref':
            x = strip(deref_norm(V, x))            # `*slot` with slot = &obj->field (an inlined out-parameter)
        return isinstance(x, dict) and x.get('k') == 'member' and (x.get('record'), x.get('field')) == (rec, fld) and field_key(V, x) == key

    def holds(x, names):
        n = local_name(x)
        return n is not None and n in names

    def about(x, aliases):
        """x is the tracked value itself or an address inside the block: through a local or through the field"""
        x = strip(x)
        if holds(x, aliases) or is_field(x):
            return True
        r = interior_root(x)
        return r is not None and (holds(r, aliases) or is_field(r))

    def about_names(x, names):
        x = strip(x)
        if holds(x, names):
            return True
        r = interior_root(x)
        return r is not None and holds(r, names)

    def rooted_in(lhs, aliases):
        """the stored-to location lies inside the tracked block itself"""
        y = strip(lhs)
        while isinstance(y, dict):
            k = y.get('k')
            if k == 'member':
                if y.get('arrow'):
                    return holds(y['base'], aliases) or is_field(y['base'])
                y = strip(y['base'])
            elif k == 'index':
                y = strip(y['base'])
            elif k == 'deref':
                return holds(y['e'], aliases) or is_field(y['e'])
            else:
                return False
        return False

    def drop_name(orph, n):
        return frozenset((a - {n}, loc) for (a, loc) in orph)

    def dispose(cfg, pred_cur, pred_names, how):
        """the value matched by the predicates was released / handed over / found to be NULL"""
        aliases, st, orph = cfg
        if pred_cur(aliases) and st == 'live':
            st = how
        orph = frozenset((a, loc) for (a, loc) in orph if not (a and pred_names(a)))
        return (aliases, st, orph)

    def tr1(e, cfg):
        aliases, st, orph = cfg
        ev = e['ev']
        if site is not None and ev == 'ret' and not e.get('chain') and 'value' in e:
            return dispose(cfg, lambda a: about(e['value'], a), lambda a: about_names(e['value'], a), 'handed')
        if ev == 'store':
            lhs = deref_norm(V, e['lhs'])
            l = strip(lhs)
            pl = plain_lhs(e['lhs'])
            if pl is not None:
                l = pl
            n = local_name(l)
            plain = e.get('op') == '=' and 'rhs' in e
            if site is not None and n is not None and strip(l).get('k') == 'var':
                if e['loc'] == site and plain:
                    # the tracked allocation (again: a loop): a block of the previous activation that is still live keeps
                    # only the other locals that hold it
                    orph = drop_name(orph, n)
                    if st == 'live':
                        orph = orph | {(aliases - {n}, e['loc'])}
                    return (frozenset([n]), 'live', orph)
                r_ = e['rhs'] if plain else None
                if st == 'live' and aliases == frozenset([n]) and not (r_ is not None and about(r_, aliases)):
                    # the last local that holds the block is given another value
                    return (frozenset(), 'lost', drop_name(orph, n) | {(frozenset(), e['loc'])})
            if n is not None and strip(l).get('k') == 'var':
                r = e['rhs'] if plain else None
                if r is not None and (is_field(r) or holds(r, aliases - {n})):
                    return (aliases | {n}, st, drop_name(orph, n))
                if r is not None:
                    hit = [(a, loc) for (a, loc) in orph if holds(r, a - {n})]
                    if hit:
                        orph2 = frozenset(((a | {n}) if (a, loc) in hit else (a - {n}), loc) for (a, loc) in orph)
                        return (aliases - {n}, st, orph2)
                return (aliases - {n}, st, drop_name(orph, n))
            if is_field(l):
                if plain and holds(e['rhs'], aliases):
                    return cfg                                     # the value it already holds
                if st == 'live':
                    orph = orph | {(aliases, e['loc'])}
                if plain and (_is_null(e['rhs']) or (local_name(e['rhs']) is not None and _is_null(V.resolve(e['rhs'])))):
                    return (frozenset(), 'null', orph)              # NULL, or a local whose one definition is NULL (a setter's parameter)
                rn = local_name(e['rhs']) if plain else None
                if rn is not None:
                    # a value that was detached earlier and is attached again is no orphan any more
                    orph = frozenset((a, loc) for (a, loc) in orph if rn not in a)
                return (frozenset([rn]) if rn else frozenset(), 'live', orph)
            if plain and not rooted_in(l, aliases):
                # stored into memory that outlives the locals: somebody else holds the block now
                cfg = dispose(cfg, lambda a: about(e['rhs'], a), lambda a: about_names(e['rhs'], a) and not rooted_in(l, a), 'handed')
            return cfg
        if ev == 'call':
            args = e.get('args') or []
            c = e.get('callee')
            if c in FREE and args:
                return dispose(cfg, lambda a: holds(args[0], a) or is_field(args[0]), lambda a: holds(args[0], a), 'freed')
            if c in HAND_OVER and len(args) > HAND_OVER[c]:
                x = args[HAND_OVER[c]]
                others = [y for i, y in enumerate(args) if i != HAND_OVER[c]]
                if not any(_addr_of_local_var(y) for y in others):
                    return dispose(cfg, lambda a: about(x, a), lambda a: about_names(x, a), 'handed')
            if site is not None and c not in NONRETAINING and c not in FREE and c not in HAND_OVER:
                # code that is not in sight (no body, a recursion the inliner stopped at, a user callback) is handed the block or
                # an address inside it: it may keep it
                if c is not None or 'fnexpr' in e:
                    hit_ = [a_ for a_ in args if about(a_, aliases) or any(about_names(a_, o[0]) for o in orph if o[0])]
                    if hit_ and not (c is None and table_callees(V, e)):
                        for a_ in hit_:
                            cfg = dispose(cfg, lambda a, a_=a_: about(a_, a), lambda a, a_=a_: about_names(a_, a), 'handed')
                        return cfg
            if c is None and 'fnexpr' in e and V.prog is not None and args:
                # a call through a const table of function pointers: the block is disposed of iff every selectable entry does so
                hit = [i for i, a in enumerate(args) if holds(a, aliases) or is_field(a) or any(holds(a, o[0]) for o in orph)]
                if hit:
                    names_ = table_callees(V, e)
                    unit = V.prog.unit_of(g)
                    ts = [(V.prog.resolve(unit, n) if unit else None) or (V.prog.fn(n) if V.prog.has_fn(n) else None) for n in (names_ or [])]
                    if ts and all(t is not None for t in ts):
                        for i in hit:
                            if all(disposes_param(V.prog, t, i) for t in ts):
                                cfg = dispose(cfg, lambda a, i=i: holds(args[i], a) or is_field(args[i]), lambda a, i=i: holds(args[i], a), 'handed')
        return cfg

    def transfer(e, S):
        out = frozenset(tr1(e, c) for c in S)
        if len(out) > 400:
            raise AnalysisBroken('ownership analysis of %s: too many configurations' % g.name)
        return out

    def edge(blk, si, S):
        if not blk.term or len(blk.succ) != 2 or blk.term.get('cls') in ('SwitchStmt', 'MethodDispatch'):
            return S
        c = blk.term.get('cond')
        if c is None:
            return S
        allat = _cond_atoms(c, si == 0)
        if any(a[0] == 'const' and a[1] == 'False' for a in allat):
            return None                                             # a condition that is a constant: this edge is never taken
        atoms = [a for a in allat if a[0] in ('==', '!=') and a[2] == '0']
        if not atoms:
            return S
        out = set()
        for cfg in S:
            dead = False
            for (op, lc, rc, l, r) in atoms:
                aliases, st, orph = cfg
                cur = lc in aliases or (isinstance(l, dict) and (holds(l, aliases) or is_field(l)))
                if op == '==':
                    cfg = dispose(cfg, lambda a, cur=cur: cur,
                                  lambda a, lc=lc, l=l: lc in a or (isinstance(l, dict) and holds(l, a)), 'null')
                elif cur and st == 'null':
                    dead = True                                     # a NULL pointer does not compare unequal to NULL
            if not dead:
                out.add(cfg)
        return frozenset(out) if out else None

    init = frozenset([(frozenset(init_aliases), 'null' if born else 'live', frozenset())])
    if site is not None:
        # per path, with the integer locals that steer the control flow followed (a helper's `return -1` and the caller's
        # `if (ret < 0)` belong to one path): path_states prunes the edges a known value contradicts
        def edge1(blk, si, _atoms, cfg):
            r = edge(blk, si, frozenset([cfg]))
            return next(iter(r)) if r else None
        rets = path_states(g, next(iter(init)), tr1, edge1, maxstates=4000)
        ex = frozenset((tr1(e, fact) if e is not None else fact) for (e, fact, _rc) in rets)
        lost = {}
        for (aliases, st, orph) in ex:
            for (a, loc) in orph:
                lost.setdefault(loc, '/'.join(sorted(a)))
        return {}, lost, {c[1] for c in ex}, len(ex)
    instate, ev_in = forward(g, init, transfer, lambda a, b: a | b, edge=edge)
    sites = {}
    for b, blk in g.blocks.items():
        for i, e in enumerate(blk.events):
            if e['ev'] != 'store' or (b, i) not in ev_in:
                continue
            l = strip(deref_norm(V, e['lhs']))
            if is_field(l):
                same = e.get('op') == '=' and 'rhs' in e and all(holds(e['rhs'], c[0]) for c in ev_in[(b, i)]) and ev_in[(b, i)]
                if not same:
                    sites.setdefault(e['loc'], e)
    lost = {}
    ex = instate.get(g.exit) or frozenset()
    for (aliases, st, orph) in ex:
        for (a, loc) in orph:
            if a:
                lost.setdefault(loc, 'the block the field held is still referred to by %s after the store, but on some path to the return '
                                     'it is neither released nor handed to a cache list' % '/'.join(sorted(a)))
            else:
                lost[loc] = 'on some path the field is overwritten while it may hold a block that was neither released nor handed to a ' \
                            'cache list, and no local keeps the old pointer: the only reference is dropped'
    return sites, lost, {c[1] for c in ex}, len(ex)
