"""C15 — poll method, interrupted waits, missing syscalls do not change behaviour.

"Same observable behaviour" is not decided.  Claimed: vtable completeness,
fallback compatibility, EINTR discipline, ENOSYS fallbacks, exclusion list.

Formulation (see h15.py): the anchors are *sites* -- a call through a method slot, a store to the
selected-method pointer, a system-call site (`syscall(__NR_eventfd2, ..)`, `epoll_create1`, `ppoll`, `splice`,
`read` ...) -- never the names of the static helpers that happen to contain them.  Every site obligation is
evaluated in the entry point(s) (exported function, method-table slot, installed handler) from which the site is
reached, with all helpers inlined.  Fallback / retry obligations are decided by injecting the failure
(ENOSYS, EINTR, ...) at the site and walking the inlined graph path-sensitively: what must hold is stated
about every path that saw the failure.
"""
from ..core import (AnalysisBroken, PRIMITIVES, canon, strip, last_member, walk, method_slot, norm_cond, names_of)
from ..analyses import (is_call, holding, callback_kind, locksets, held, SIGBLOCK)
from .. import roles
from . import h15
from .h15 import (Sim, Outcome, fail, const, truth, is_const, NZ, TOP, prim_kind, is_prim, nearest_roots, root_role,
                  in_contexts, inlined, ENOSYS, EINTR, EINVAL, EPERM, EMFILE)

MANDATORY = ('name', 'init', 'poll', 'notify_fd', 'notify_fd_sync', 'deinit')
PARTNERS = [('set_poll_timeout', 'clear_poll_timeout'), ('event_rx_on', 'event_rx_off', 'event_send')]
SAME_ON_FALLBACK = ('init', 'deinit', 'register_fd', 'unregister_fd', 'notify_fd', 'notify_fd_sync', 'event_rx_on', 'event_rx_off', 'event_send')
WAITS = ('poll', 'ppoll', 'epoll_wait', 'epoll_pwait2')
INTERRUPTIBLE = ('read', 'write', 'splice', 'epoll_ctl', 'poll', 'ppoll', 'epoll_wait', 'epoll_pwait2')

# Exemptions from "retried on EINTR", keyed by the *role* of the entry point that reaches the site (method slot /
# exported function / framework primitive) and the primitive called -- not by the static helper containing it.
EINTR_EXEMPT = {
    ('api:iv_fd_pump_init', 'splice'): 'probe on fresh non-blocking pipes: any failure means "unavailable"',
    ('slot:event_rx_on', 'write'): 'priming write on a fresh eventfd cannot block; any short/failed write is fatal',
    ('slot:poll@epoll_timerfd', 'read'): 'non-blocking timer descriptor that epoll just reported readable; errors are fatal',
    ('primitive:fallback_spin_lock', 'read'): 'blocking token read; every caller has all signals blocked (R-C10c), so it cannot be interrupted by a handler of this process',
}

# optional facilities: (label, kinds that are missing in the scenario (the last one is the stage under test),
#                       errnos the stage must treat as "missing", kinds of the alternative, where the demotion is kept)
CHAINS = [
    ('epoll_create1->epoll_create', ('epoll_create1',), (ENOSYS,), ('epoll_create',), 'flag'),
    ('epoll_create->none', ('epoll_create1', 'epoll_create'), (ENOSYS,), None, 'flag'),     # last stage: may report failure
    ('epoll_pwait2->epoll_wait', ('epoll_pwait2',), (ENOSYS, EPERM), ('epoll_wait',), 'flag'),
    ('eventfd2->eventfd', ('eventfd2',), (ENOSYS, EINVAL), ('eventfd',), 'flag'),
    ('eventfd->pipe', ('eventfd2', 'eventfd'), (ENOSYS,), ('pipe', 'pipe2'), 'flag'),
    ('pipe2->pipe', ('pipe2',), (ENOSYS,), ('pipe',), 'flag'),
    ('ppoll->poll', ('ppoll',), (ENOSYS,), ('poll',), 'switch'),
    ('timerfd_create->plain epoll', ('timerfd_create',), (ENOSYS,), (), 'switch'),
]


def run(ctx):
    ctx.rule('R-C15a', 'vtable completeness: every method table defines the mandatory slots; optional slots are defined together with '
                       'their partners; every call through an optional slot is dominated by a NULL test of it or its partner', floor=12)
    ctx.rule('R-C15b', 'fallback compatibility: a mid-run store to `method` assigns a table whose state-bearing slots are the same '
                       'functions as those of every table from whose slots the store is reachable; the switching function still waits / reports not-armed', floor=4)
    ctx.rule('R-C15c', 'EINTR discipline: wait primitives return to the loop (non-zero, time cache invalidated) on EINTR; every other '
                       'interruptible call is retried while it fails with EINTR, or is tabled with a reason', floor=20)
    ctx.rule('R-C15d', 'ENOSYS fallbacks reach their alternative in the same invocation and demote their one-way flag', floor=12)
    ctx.rule('R-C15e', 'exclusion list: every candidate method is considered through the same exclusion test with the same list; failure to '
                       'initialise any method is the only fatal outcome', floor=4)
    ctx.rule('R-C15f', 'a mid-run fallback is honoured by the caller: the result of arming the kernel timer is propagated and a "not armed" '
                       'answer makes the loop wait with the deadline itself (shared with C04 R-C04f)', floor=3)
    ctx.rule('R-C15g', 'fallback transparency of the raw event transport: what the primary facility guarantees -- a post never blocks, because '
                       'the eventfd written to is the registered, non-blocking read descriptor -- is established on the fallback path too: on every '
                       'success path of registration that ends in pipe mode (eventfd missing) the descriptor stored as write end is the write end of '
                       'the pipe whose read end was registered, and it has been made non-blocking (shared with C09 R-C09b, registration part)', floor=4)
    ctx.rule('R-C15h', 'same interest set under every poll method: a method that keeps the set of watched descriptors in user-space arrays '
                       '(poll, ppoll) instead of in the kernel (epoll, where the kernel finds the entry by the descriptor itself) addresses an '
                       'entry through the index it recorded in the descriptor, so after every notify slot, on every path, each descriptor '
                       'still in the arrays satisfies fds[fd->index] == fd: an appended entry records the old count as its index and is pointed '
                       'back to from that slot; when an entry other than the last is removed, the descriptor moved into the hole is given the '
                       'vacated index and the slot points back to it (shared with C02 R-C02f, index / back-pointer part)', floor=4)
    ctx.section(lambda c: __import__('ivy.rules.c04', fromlist=['x']).keep_armed(c, 'R-C15f'))
    ctx.section(transparent_post)
    ctx.section(slot_bookkeeping)
    ctx.section(vtable)
    ctx.section(fallbacks)
    ctx.section(eintr)
    ctx.section(enosys)
    ctx.section(exclusion)


# --------------------------------------------------------------------------
# R-C15g: the pipe fallback of the raw event transport establishes what the eventfd guarantees (posting cannot block)
# --------------------------------------------------------------------------

def transparent_post(ctx):
    """Borrowed from c09.nonblock (owner: C09), registration part only: every success path of the registration entry
    point is executed symbolically with its helpers inlined; a path that ends in eventfd mode must leave the
    registered (hence non-blocking) descriptor itself as write end, a path that ends in pipe mode -- the fallback
    taken when both eventfd calls are missing -- must leave element 1 of the pipe whose element 0 was registered as
    write end *and* have made that descriptor non-blocking (iv_fd_set_nonblock, fcntl(F_SETFL, .. | O_NONBLOCK) or
    pipe2(.., O_NONBLOCK)).  The post-side obligations of R-C09b (only write, retried on EINTR) are not C15's:
    R-C15c judges the EINTR discipline of that write itself."""
    c09 = __import__('ivy.rules.c09', fromlist=['x'])
    c09.nonblock(h15.Borrowed(ctx, {'R-C09b': 'R-C15g'}, keep=lambda inst: inst.startswith('register:')))


# --------------------------------------------------------------------------
# R-C15h: the user-space interest arrays of poll/ppoll stay addressable through the index kept in the descriptor
# --------------------------------------------------------------------------

def slot_bookkeeping(ctx):
    """Borrowed from c02.compaction (owner: C02), index / back-pointer part.  Under epoll a later handler change of a
    descriptor reaches *its* kernel entry because the kernel looks the entry up by the descriptor; poll and ppoll look
    it up through `fd->index`.  The two agree iff fds[fd->index] == fd holds for every descriptor in the arrays after
    every notify slot.  c02.compaction executes each notify slot of every method whose poll slot waits on a pollfd
    array (found by what the poll slot calls, not by table name) symbolically with its helpers inlined, per path: a
    path that steps the count up must store the old count into the descriptor's index field and the descriptor into
    the pointer array at that index; a path that steps it down and does not know the removed entry to be the last one
    must leave, in the memory at its end, (moved descriptor).index == vacated index and pointer array[vacated index] ==
    the descriptor loaded from the old last position.  The obligations are about the memory at the end of the path,
    not about statements: order, locals, helpers, an unconditional self-move of the last entry do not matter.  What
    the vacated pollfd entry must contain (fd / events: `*-entry-complete`) is C02's own clause and is not repeated."""
    c02 = __import__('ivy.rules.c02', fromlist=['x'])
    c02.compaction(h15.Borrowed(ctx, {'R-C02f': 'R-C15h'}, keep=lambda inst: inst.endswith(('-index', '-pointer'))))


# --------------------------------------------------------------------------
# shared helpers
# --------------------------------------------------------------------------

def _sites(prog, pred):
    """{loc: (owner function, [events])} of the source sites satisfying pred, found in the functions' own bodies"""
    out = {}
    for f in sorted(prog.all_funcs(), key=lambda f: f.q):
        for e in f.events():
            if pred(e):
                out.setdefault(e['loc'], (f, []))[1].append(e)
    return out


def _copies(g, loc, pred):
    return [e for e in g.events() if e.get('loc') == loc and pred(e)]


def _contexts_of(prog, owner):
    """entry points in which a site of `owner` is evaluated; framework primitives (never inlined) are their own context"""
    if owner.name in PRIMITIVES:
        return [owner]
    return nearest_roots(prog, owner)


def _wide_contexts(prog, owner):
    if owner.name in PRIMITIVES:
        return [owner]
    return h15.widest_contexts(prog, owner)


def _eval_site(prog, owner, check, **kw):
    if owner.name in PRIMITIVES:
        ok, detail = check(owner, owner)
        return ok, [(owner, ok, detail)]
    return in_contexts(prog, owner, check, **kw)


def _kills_for(prog, root):
    """Which file-scope variables an indirect call may change: a call through a method slot enters another
    translation unit of the library, so `static` state of the unit being analysed survives it unless that
    unit itself provides method slots; a user callback may re-enter the library anywhere."""
    unit = prog.unit_of(root)
    table_units = {v[0] for slots in prog.method_tables().values() for v in slots.values() if v and v[0] != 'str'}

    def kills(e, names):
        ck = callback_kind(e)
        if ck and ck[0] == 'method' and unit is not None and unit not in table_units:
            out = set()
            for n in names:
                gl = prog.global_for(unit, n)
                if gl is None or not gl.get('static'):
                    out.add(n)
            return out
        return set(names)
    return kills


def _dispatch_names(prog):
    """{name: table} of the private constant tables (dispatch and data) whose name is unambiguous"""
    if getattr(prog, '_c15_dn', None) is None:
        by = {}
        for t in h15.const_tables(prog).values():
            by.setdefault(t['name'], []).append(t)
        # (a table defined in a header exists once per unit that includes it, with the same contents)
        sig = lambda t: ([sorted((str(k), f.name) for k, f in row.items()) for row in t['elems']],
                         [sorted((str(k), v) for k, v in row.items()) for row in t['data']])
        prog._c15_dn = {n: ts[0] for n, ts in by.items() if all(sig(t) == sig(ts[0]) for t in ts)}
    return prog._c15_dn


class CSim(Sim):
    """Sim whose indirect calls forget only the state they can reach (see _kills_for)."""

    def __init__(self, prog, root, g, oracle=None, marker=None, init=None, edge_marker=None):
        Sim.__init__(self, g, oracle, marker, init, edge_marker=edge_marker, tabs=_dispatch_names(prog))
        self._kills = _kills_for(prog, root)

    def _event(self, e, env, marks):
        if e['ev'] == 'call' and 'fnexpr' in e:
            killed = self._kills(e, self.globals)
            keep = {k: v for k, v in env.items() if k[0] not in '$%' and self.is_global(k) and h15.key_root(k) not in killed}
            if killed and 'F' in marks and not any(isinstance(x, tuple) and x[0] == 'post' for x in marks):
                # control is handed to code that may re-enter the library: the file-scope state as it is now is
                # what that code (and every later invocation) finds
                marks = marks | {('post', _snapshot(self, env))}
            env2, marks = Sim._event(self, e, env, marks)
            env2 = dict(env2)
            env2.update(keep)
            return env2, marks
        return Sim._event(self, e, env, marks)


# --------------------------------------------------------------------------
# R-C15a
# --------------------------------------------------------------------------

def vtable(ctx):
    prog = ctx.prog
    tables = prog.method_tables()
    if len(tables) < 4:
        raise AnalysisBroken('method tables: %d found, 4 confirmed' % len(tables))
    for t, slots in sorted(tables.items()):
        miss = [s for s in MANDATORY if not slots.get(s)]
        ctx.ob('R-C15a', '%s:mandatory' % t, not miss, loc=prog.globals[t]['loc'], detail='missing mandatory slots: %s' % (miss or 'none'))
        for grp in PARTNERS:
            have = [bool(slots.get(s)) for s in grp]
            ctx.ob('R-C15a', '%s:partners(%s)' % (t, '/'.join(grp)), all(have) or not any(have), loc=prog.globals[t]['loc'],
                   detail='defined: %s' % dict(zip(grp, have)))
    optional = [s for s in list(tables.values())[0] if s not in MANDATORY]
    partner_of = {}
    for grp in PARTNERS:
        for s in grp:
            partner_of[s] = set(grp)
    never_null = {s for s in optional if all(t.get(s) for t in tables.values())}
    sites = _sites(prog, lambda e: e['ev'] == 'call' and (callback_kind(e) or ('', ''))[0] == 'method' and callback_kind(e)[1] in optional)
    # anchor: every optional slot that some table defines is called somewhere (how many source sites do it, and in
    # which helper, is free)
    called = {callback_kind(evs[0])[1] for (_, evs) in sites.values()}
    uncalled = sorted(s_ for s_ in optional if any(t.get(s_) for t in tables.values()) and s_ not in called)
    if uncalled:
        raise AnalysisBroken('optional slots that are defined but never called through the method pointer: %s' % uncalled)
    absent_cache = {}
    inst = {}       # (entry point label, slot) -> [(loc, ok, detail, fn)]
    for loc, (f, evs) in sorted(sites.items()):
        slot = callback_kind(evs[0])[1]
        if slot in never_null:
            for r in _contexts_of(prog, f):
                inst.setdefault((_role_label(prog, r), slot), []).append((loc, True, 'slot is defined in every table', f.q))
            continue
        grp = partner_of.get(slot, {slot})
        key = tuple(sorted(grp - {slot}))
        if key not in absent_cache:
            absent_cache[key] = _absence_flags(prog, key)
        flags = absent_cache[key]

        def check(root, g, loc=loc, slot=slot, grp=grp, flags=flags):
            cps = _copies(g, loc, lambda e: e['ev'] == 'call' and method_slot(e) == slot)
            if not cps:
                return True, 'site not reached from %s' % root.name
            hd = holding(g, user_call_kills=False)
            open_ = []
            for cs in cps:
                A = hd.get((cs['_b'], cs['_i']), frozenset())
                if any(a[0] == '!=' and a[2] == '0' and any(('iv_fd_poll_method', s) in a[3] for s in grp) for a in A):
                    continue
                # state-based implication: a file-scope flag that is raised on every path on which the partner slot
                # was found to be NULL (and never lowered again) is tested to be zero here
                if any(a[0] == '==' and a[2] == '0' and a[1] in flags for a in A):
                    continue
                open_.append(cs)
            if not open_:
                return True, 'guarded in %s' % root.name
            if not flags:
                return False, 'unguarded in %s' % root.name
            # The decision may be taken through a value computed from the flag (`kick = flag ? RAW : METHOD; switch
            # (kick)`, `transports[flag].kick()`), which no atom on the flag itself dominates.  What the property
            # needs is the scenario, not the shape of the test: in the world in which the slot is absent every
            # absence flag is non-zero for the whole invocation (they are raised before the entry point that found
            # the NULL slot returns and never lowered: see _absence_flags), and in that world no path may execute
            # the call.
            reached = _reached_with_flags_raised(prog, root, g, flags, {(cs['_b'], cs['_i']) for cs in open_})
            if reached:
                return False, 'unguarded in %s (executed with %s raised)' % (root.name, '/'.join(sorted(flags)))
            return True, 'not executed in %s while the absence flag is raised' % root.name
        ok, res = _eval_site(prog, f, check)
        for (r, rok, detail) in res:
            inst.setdefault((_role_label(prog, r), slot), []).append(
                (loc, rok, detail + (' (absence flags: %s)' % sorted(flags) if flags else ''), f.q))
    for (label, slot), rows in sorted(inst.items()):
        bad = [x for x in rows if not x[1]]
        grp = partner_of.get(slot, {slot})
        ctx.ob('R-C15a', '%s:call %s' % (label, slot), not bad, loc=(bad or rows)[0][0],
               detail='every call through optional slot `%s` in this entry point is dominated by a non-NULL test of %s, or by a zero test of a flag that '
                      'records their absence (%s) [sites: %s]' % (slot, sorted(grp), '; '.join(sorted({x[2] for x in rows})),
                                                                 ', '.join(sorted({relloc(x[0]) for x in rows}))), fn=(bad or rows)[0][3])


class _PinSim(CSim):
    """CSim in a scenario in which some file-scope locations hold a given value for the whole invocation: they are
    monotone (only non-zero constants are ever stored to them), so what an indirect call or an escaping address
    makes the simulator forget about them is restored -- a store keeps whatever value it wrote."""

    def __init__(self, prog, root, g, pinned, marker=None):
        CSim.__init__(self, prog, root, g, None, marker, dict(pinned))
        self._pinned = dict(pinned)

    def _event(self, e, env, marks):
        res = CSim._event(self, e, env, marks)
        if res is None:
            return None
        env, marks = res
        if any(k not in env for k in self._pinned):
            env = dict(env)
            for k, v in self._pinned.items():
                env.setdefault(k, v)
        return env, marks


def _reached_with_flags_raised(prog, root, g, flags, copies):
    """the (block, index) positions among `copies` that some path of g executes although every flag of `flags`
    ({location: the values it can have once raised}) is raised throughout (the simulator walks a superset of the
    feasible paths: "none" is sound)"""
    hit = set()

    def marker(e, env, marks):
        if e['ev'] == 'call' and (e.get('_b'), e.get('_i')) in copies:
            hit.add((e['_b'], e['_i']))
        return ()
    try:
        _PinSim(prog, root, g, dict(flags), marker).run()
    except AnalysisBroken:
        # state bound exceeded: nothing was proved for this entry point; the obligation fails here (it does not
        # take the other instances of the rule down with it)
        return set(copies)
    return hit


def _absence_flags(prog, partner_slots):
    """File-scope flags F with: in every entry point that tests one of `partner_slots` for NULL, no path that took
    the NULL edge returns before F is known to be non-zero; and F is never written anything but a non-zero constant.
    Then `F == 0` later implies that the partner slot (hence the whole group) exists."""
    if not partner_slots:
        return {}
    cands = None
    for slot in partner_slots:
        sites = _sites(prog, lambda e, slot=slot: e['ev'] == 'call' and method_slot(e) == slot)
        for loc, (f, evs) in sites.items():
            for r in _contexts_of(prog, f):
                if r.name in PRIMITIVES:
                    continue
                g = inlined(prog, r)

                def edge_marker(blk, si, env, marks, slot=slot):
                    if blk.term and blk.term.get('cond') is not None and len(blk.succ) == 2:
                        for (op, lc, rc, l, r_) in norm_cond(blk.term['cond'], si == 0):
                            if op == '==' and rc == '0' and isinstance(l, dict) and last_member(l) == ('iv_fd_poll_method', slot):
                                return ['ABSENT']
                    return ()
                sim = CSim(prog, r, g, None, None, None, edge_marker=edge_marker).run()
                ends = [env for (_, env, m, _) in sim.exits if 'ABSENT' in m]
                if not ends:
                    continue
                keys = {k for env in ends for k in env if k[0] not in '$%&' and sim.is_global(k)}
                good = {n for n in keys if all(truth(env.get(n, TOP)) is True for env in ends)}
                cands = good if cands is None else (cands & good)
    if not cands:
        return {}
    out = {}        # flag -> abstract value it has once raised (hull of the non-zero constants ever stored to it)
    for name in cands:
        # every store to the flag (a file-scope scalar, or a member of a file-scope struct) writes a non-zero constant
        ws = []
        for (fn_, e) in prog.global_writers(h15.key_root(name)):
            k = h15.loc_key(e['lhs'])
            if k is None or k == name or name.startswith(k + '.') or name.startswith(k + '['):
                ws.append(e)
        if ws and all(e.get('op') == '=' and h15.loc_key(e['lhs']) == name and isinstance(strip(e.get('rhs')), dict)
                      and strip(e['rhs']).get('k') == 'int' and strip(e['rhs'])['v'] != 0 for e in ws):
            vals = [strip(e['rhs'])['v'] for e in ws]
            out[name] = h15._norm((min(vals), max(vals), True))
    return out


# --------------------------------------------------------------------------
# R-C15b
# --------------------------------------------------------------------------

def _table_values(g, x, seen=()):
    """names of the globals whose address the expression may evaluate to (through locals / substituted parameters of g)"""
    x = strip(x)
    if not isinstance(x, dict):
        return set()
    k = x.get('k')
    if k == 'addr':
        v = strip(x['e'])
        return {v['name']} if isinstance(v, dict) and v.get('k') == 'var' and v.get('vk') not in ('local', 'param', 'func') else set()
    if k == 'cond':
        return _table_values(g, x['a'], seen) | _table_values(g, x['b'], seen)
    if k == 'var' and x.get('vk') in ('local', 'param') and x['name'] not in seen:
        out = set()
        for e in g.events():
            if e['ev'] == 'store' and e.get('op') == '=' and 'rhs' in e and strip(e['lhs']).get('k') == 'var' and strip(e['lhs'])['name'] == x['name']:
                out |= _table_values(g, e['rhs'], tuple(seen) + (x['name'],))
        return out
    return set()


def fallbacks(ctx):
    prog = ctx.prog
    tables = prog.method_tables()
    mnames = h15.method_pointer_names(prog)
    # every store to the selected-method pointer, whatever is stored (`&table`, or a parameter / local of a helper
    # that received `&table`: resolved in the entry point with the helper inlined)
    sites = _sites(prog, lambda e: h15.is_method_store(prog, e))
    mid = []
    for loc, (f, evs) in sorted(sites.items()):
        # a store that only happens while no method is selected yet is the initial selection (R-C15e), not a fallback
        initial = True
        for r in _wide_contexts(prog, f):
            g = inlined(prog, r)
            hd = holding(g, user_call_kills=False)
            for c in _copies(g, loc, lambda e: h15.is_method_store(prog, e)):
                A = hd.get((c['_b'], c['_i']), frozenset())
                if not any(a[0] == '==' and a[1] in mnames and a[2] == '0' for a in A):
                    initial = False
        if not initial:
            mid.append((loc, f, evs[0]))
    if not mid:
        raise AnalysisBroken('no mid-run store to the selected-method pointer found (2 fallbacks confirmed)')
    for loc, f, e in mid:
        ctxs = _wide_contexts(prog, f)
        live_ctx = 0
        for r in ctxs + [None]:
            if r is None:
                if not live_ctx:
                    ctx.ob('R-C15b', '%s:reachable' % f.name, False, loc=loc, detail='the mid-run store to the method pointer is not executed on any '
                           'path of the entry points that contain it (%s)' % ', '.join(x.name for x in ctxs), fn=f.q)
                break
            # what is stored, in this entry point (a shared switching helper stores what its caller passes)
            g0 = inlined(prog, r)
            tgts = set()
            for c in _copies(g0, loc, lambda x: h15.is_method_store(prog, x)):
                tv = _table_values(g0, c.get('rhs'))
                tgts |= tv if tv else {'?'}
            if not tgts:
                continue            # removed as dead code in this entry point
            if len(tgts) != 1 or list(tgts)[0] not in tables:
                live_ctx += 1
                ctx.ob('R-C15b', '%s:target' % _role_label(prog, r), False, loc=loc,
                       detail='the value stored mid-run is not the address of one method table: %s' % sorted(tgts), fn=r.q)
                continue
            target = list(tgts)[0]
            # the entry point with the wait of the new method visible (dispatch through the pointer just stored)
            g = inlined(prog, r, method_table=target)
            cps = _copies(g, loc, lambda x: h15.is_method_store(prog, x))
            if not cps:
                continue        # removed as dead code in this entry point (constant mode argument): see `reachable`

            def marker(ev, env, marks, loc=loc):
                if ev['ev'] == 'store' and ev.get('loc') == loc and h15.is_method_store(prog, ev):
                    return ['SW']
                if 'SW' in marks and ev['ev'] == 'call' and prim_kind(ev) in WAITS and not h15.zero_timeout_poll(ev):
                    return ['WAIT:' + prim_kind(ev)]
                return ()
            sim = CSim(prog, r, g, None, marker).run()
            if not any('SW' in m for (_, _, m, _) in sim.exits) and not any('SW' in m for (_, _, m) in sim.fatals):
                # the walk covers every feasible path: in this entry point the switch is dead code (a shared body
                # entered with a constant mode argument); it must be live in some entry point, see above
                continue
            live_ctx += 1
            lbl = _role_label(prog, r)
            srcs = {}
            for t, slots in tables.items():
                for k, v in slots.items():
                    if v and v[0] != 'str' and prog.resolve(v[0], v[1]) is r:
                        srcs.setdefault(t, k)
            if not srcs:
                ctx.ob('R-C15b', '%s:source' % lbl, False, loc=loc, detail='the entry point from which `method` is switched mid-run is not itself a method slot', fn=r.q)
                continue
            for s in sorted(srcs):
                diff = [k for k in SAME_ON_FALLBACK if tables[s].get(k) != tables[target].get(k)]
                ctx.ob('R-C15b', '%s:%s->%s' % (lbl, s.replace('iv_fd_poll_method_', ''), target.replace('iv_fd_poll_method_', '')), not diff, loc=loc,
                       detail='state-bearing slots that differ: %s' % (diff or 'none (registered interests, notify lists and descriptors stay valid)'), fn=r.q)
            slotname = sorted(set(srcs.values()))[0]
            if slotname == 'poll':
                tp = prog.slot_targets('poll', target)
                want = set()
                for t_ in tp:
                    # the wait primitives the new method's poll slot can execute (not merely contains: a body shared
                    # by two slots holds the other slot's wait as dead code)
                    def wmark(x, env, marks):
                        if x['ev'] == 'call' and prim_kind(x) in WAITS and not h15.zero_timeout_poll(x):
                            return ['WAIT:' + prim_kind(x)]
                        return ()
                    s2 = CSim(prog, t_, inlined(prog, t_), None, wmark).run()
                    for m in [m for (_, _, m, _) in s2.exits] + [m for (_, _, m) in s2.fatals]:
                        want |= {x for x in m if isinstance(x, str) and x.startswith('WAIT:')}
                ends = [(m, 'return') for (_, _, m, _) in sim.exits] + [(m, 'fatal') for (_, _, m) in sim.fatals]
                ok = bool(want) and any('SW' in m for m, _ in ends) and all((m & want) for m, _ in ends if 'SW' in m)
                ctx.ob('R-C15b', '%s:still-waits' % lbl, ok, loc=loc,
                       detail='after switching, every path of the same invocation performs the wait of the new method (%s)' % sorted(want), fn=r.q)
            else:
                rets = [rv for (_, _, m, rv) in sim.exits if 'SW' in m]
                ok = bool(rets) and all(rv is not None and is_const(rv) and rv[0] == 0 for rv in rets)
                ctx.ob('R-C15b', '%s:reports-not-armed' % lbl, ok, loc=loc, detail='after switching it returns 0, so the caller waits with the deadline itself', fn=r.q)


# --------------------------------------------------------------------------
# R-C15c
# --------------------------------------------------------------------------

UNREACHED = 'unreached in '


def relloc(loc):
    return '/'.join(str(loc).split('/')[-1:])


def _exempt_key_of(label, kind):
    """the exemption table entry an instance label falls under"""
    base = label.split('@')[0]
    tabs = label.split('@')[1].split('+') if '@' in label else []
    for role in [label] + [b for b in base.split('+')] + ['%s@%s' % (b, t) for b in base.split('+') for t in tabs]:
        if (role, kind) in EINTR_EXEMPT:
            return (role, kind)
    raise AnalysisBroken('exemption of %s:%s not found in the table' % (label, kind))


def _role_label(prog, r):
    """one stable label for an entry point: 'slot:<slot>@<tables>' / 'api:<name>' / 'handler:<name>' / 'primitive:<name>'"""
    if r.name in PRIMITIVES:
        return 'primitive:' + r.name
    rl = root_role(prog, r)
    at = sorted(x for x in rl if x.startswith('slot:') and '@' in x)
    if at:
        slots = sorted({x.split('@')[0] for x in at})
        return '+'.join(slots) + '@' + '+'.join(sorted({x.split('@')[1] for x in at}))
    return rl[0]


def _exempt_for(prog, r, kind):
    roles_ = ['primitive:' + r.name] if r.name in PRIMITIVES else root_role(prog, r)
    for role in roles_:
        if (role, kind) in EINTR_EXEMPT:
            return (role, kind)
    return None


WAIT_RESULT_FIELDS = {('pollfd', 'revents'), ('epoll_event', 'events'), ('epoll_event', 'data')}


def _reads_wait_results(e):
    """does the event read a result field of the array a kernel wait fills (pollfd.revents, epoll_event.events/.data)?
    The left-hand side of a store is a write (clearing revents is fine); everything else an event carries is read."""
    if e.get('ev') not in ('load', 'store', 'call', 'return'):
        return False
    parts = []
    for k in ('e', 'rhs', 'fnexpr', 'value'):
        if isinstance(e.get(k), dict):
            parts.append(e[k])
    parts += [a for a in (e.get('args') or []) if isinstance(a, dict)]
    for x in parts:
        for n in walk(x):
            if isinstance(n, dict) and n.get('k') == 'member' and (n.get('record'), n.get('field')) in WAIT_RESULT_FIELDS:
                return True
    return False


def eintr(ctx):
    """Instances are (entry point, primitive) pairs: how many source sites implement the calls of one primitive in
    one entry point (three copies of a retry loop, or one shared helper with the loop) does not matter.  An instance
    holds iff every source site of that primitive reached from the entry point satisfies the obligation there."""
    prog = ctx.prog
    sites = _sites(prog, lambda e: e['ev'] == 'call' and 'callee' in e and prim_kind(e) in INTERRUPTIBLE)
    kinds_seen = {prim_kind(evs[0]) for (_, evs) in sites.values()}
    if not ({'read', 'write', 'epoll_ctl'} <= kinds_seen and (kinds_seen & set(WAITS))):
        raise AnalysisBroken('interruptible call sites: only %s found' % sorted(kinds_seen))
    inst = {}       # (label, kind, variant) -> [(loc, ok, detail, fn)]

    def record(r, kind, variant, loc, ok, detail, f):
        inst.setdefault((_role_label(prog, r), kind, variant), []).append((loc, ok, detail, f.q))

    for loc, (f, evs) in sorted(sites.items()):
        c = evs[0]
        nm = prim_kind(c)
        pred = lambda e, nm=nm: e['ev'] == 'call' and 'callee' in e and prim_kind(e) == nm

        hits = {'n': 0}

        def oracle(e, env, marks, loc=loc, pred=pred, hits=hits):
            # the site fails with EINTR; from then on so does every call of the same primitive on the same first
            # argument (descriptor): a rotated loop `r = read(fd); while (r < 0 && errno == EINTR) r = read(fd);`
            # repeats the call at another source site
            if not pred(e):
                return None
            a0 = names_of(e['args'][0]) if e.get('args') else {'?'}     # every spelling the value is known under
            if e.get('loc') == loc:
                hits['n'] += 1
                return fail(EINTR, 'F', *[('A', n) for n in sorted(a0)])
            if 'F' in marks and any(('A', n) in marks for n in a0):
                return fail(EINTR)
            return None
        wait = nm in WAITS and not h15.zero_timeout_poll(c)
        if wait:
            def check(root, g, loc=loc, oracle=oracle, hits=hits):
                # the deadline parameter is given (with no deadline the kernel timer, if any, reports the expiry)
                init = {p['name']: NZ for p in root.params if 'timespec' in p.get('type', '')}

                def marker(e, env, marks):
                    if 'F' in marks and e['ev'] == 'store' and last_member(e['lhs']) == ('iv_state', 'time_valid') \
                            and truth(h15.evaluate(e.get('rhs'), env)) is False:
                        return ['INVAL']
                    if 'F' in marks and _reads_wait_results(e):
                        return ['STALE']
                    return ()
                hits['n'] = 0
                sim = CSim(prog, root, g, oracle, marker, init).run()
                rets = [(m, rv) for (_, _, m, rv) in sim.exits if 'F' in m]
                fat = [m for (_, _, m) in sim.fatals if 'F' in m]
                if not hits['n']:
                    # the walk covers every feasible path: in this entry point the wait site is dead code
                    return True, UNREACHED + root.name
                if fat:
                    return False, '%s: EINTR ends in iv_fatal' % root.name
                if not rets:
                    return False, '%s: no path returns to the loop after EINTR' % root.name
                if not all(rv is not None and truth(rv) is True for _, rv in rets):
                    return False, '%s: may return 0 after EINTR' % root.name
                if any('STALE' in m for m, _ in rets):
                    # an interrupted wait reports nothing: what the result array holds is left over from an earlier wait
                    return False, ('%s: after the wait failed with EINTR the result fields of the kernel-filled array are read '
                                   '(readiness left over from an earlier wait is delivered again)' % root.name)
                if not all('INVAL' in m for m, _ in rets):
                    return False, '%s: time cache not invalidated after the wait' % root.name
                return True, '%s: returns non-zero, time invalidated' % root.name
        else:
            def check(root, g, loc=loc, oracle=oracle, nm=nm):
                if _exempt_for(prog, root, nm) is not None:
                    return True, 'exempt'
                sim = (CSim(prog, root, g, oracle) if root.name not in PRIMITIVES else Sim(g, oracle)).run()
                left = [1 for (_, _, m, _) in sim.exits if 'F' in m] + [1 for (_, _, m) in sim.fatals if 'F' in m]
                if left:
                    return False, '%s: a path leaves after the call failed with EINTR without repeating it' % root.name
                return True, '%s: retried' % root.name
        ok, res = _eval_site(prog, f, check)
        live = [x for x in res if not x[2].startswith(UNREACHED)]
        if wait and not live:
            # a wait that no entry point can reach is not a wait of the loop: the anchor is gone
            for (r, rok, detail) in res:
                record(r, nm, 'wait', loc, False, '%s: the wait site cannot be reached in any entry point' % r.name, f)
        for (r, rok, detail) in live:
            ek = None if wait else _exempt_for(prog, r, nm)
            record(r, nm, 'wait' if wait else ('exempt' if ek else 'retried'), loc, rok, detail, f)
    for (label, kind, variant), rows in sorted(inst.items()):
        bad = [x for x in rows if not x[1]]
        loc = (bad or rows)[0][0]
        name = '%s:%s' % (label, kind)
        locs = ', '.join(sorted({relloc(x[0]) for x in rows}))
        if variant == 'exempt':
            ek = (_exempt_key_of(label, kind))
            ctx.exempt('R-C15c', name, EINTR_EXEMPT[ek])
            ctx.ob('R-C15c', name, True, loc=loc, detail='exempt (%s): %s [sites: %s]' % (ek[0], EINTR_EXEMPT[ek], locs), fn=rows[0][3])
        elif variant == 'wait':
            ctx.ob('R-C15c', name + ':wait', not bad, loc=loc,
                   detail='on EINTR the poll slot returns non-zero to the loop (timers re-evaluated with a fresh clock) instead of failing or spinning '
                          '(%s) [sites: %s]' % ('; '.join(sorted({x[2] for x in rows})), locs), fn=(bad or rows)[0][3])
        else:
            ctx.ob('R-C15c', name, not bad, loc=loc,
                   detail='%s is repeated for as long as it fails with errno == EINTR: if it (and every further %s on the same descriptor) always does, '
                          'no path returns or aborts (%s) [sites: %s]' % (kind, kind, '; '.join(sorted({x[2] for x in rows})), locs), fn=(bad or rows)[0][3])
    # the lock-primitive exemption rests on signals being blocked at every acquisition of a spinlock outside the asynchronous signal handler
    # functions whose address reaches a field of a `struct sigaction` (directly, or as an argument of a helper that
    # fills the struct in: looked at in the entry points with the helpers inlined, where parameters are substituted
    # or copied into uniquely named locals)
    handlers = set()

    def fn_values(g, x, seen=()):
        x = strip(x)
        if not isinstance(x, dict):
            return set()
        if x.get('k') == 'var' and x.get('vk') == 'func':
            return {x['name']}
        if x.get('k') == 'addr':
            return fn_values(g, x['e'], seen)
        if x.get('k') == 'cond':
            return fn_values(g, x['a'], seen) | fn_values(g, x['b'], seen)
        if x.get('k') == 'var' and x.get('vk') in ('local', 'param') and x['name'] not in seen:
            out = set()
            for e2 in g.events():
                if e2['ev'] == 'store' and e2.get('op') == '=' and 'rhs' in e2 and strip(e2['lhs']).get('k') == 'var' \
                        and strip(e2['lhs'])['name'] == x['name']:
                    out |= fn_values(g, e2['rhs'], tuple(seen) + (x['name'],))
            return out
        return set()
    is_sa_store = lambda e: e['ev'] == 'store' and 'rhs' in e and any(x.get('k') == 'member' and x.get('record') == 'sigaction' for x in walk(e['lhs']))
    graphs = []
    for o in roles.functions_with(prog, is_sa_store):
        graphs.append((o, o))
        for r in nearest_roots(prog, o):
            graphs.append((r, inlined(prog, r)))
    for (fn_, g_) in graphs:
        for e in g_.events():
            if is_sa_store(e):
                origin = prog.funcs.get(e.get('fn')) if e.get('fn') else fn_
                u = prog.unit_of(origin or fn_)
                for nm_ in fn_values(g_, e['rhs']):
                    t = (prog.resolve(u, nm_) if u else None) or prog.funcs.get(nm_)
                    if t is not None:
                        handlers.add(t.q)
    if not handlers:
        raise AnalysisBroken('no function installed through struct sigaction found')
    # An acquisition is a call of `spin_lock`, or of a primitive the inliner keeps opaque whose own body takes the
    # lock (`spin_lock_sigmask`: found by what its body does, not by name).  For the latter the obligation is decided
    # where the lock is really taken: at every `spin_lock` inside the primitive's body, entered with the blocked-ness
    # the call site has.  (Before: only direct `spin_lock` calls counted, so a tree in which every acquisition
    # outside the handler goes through the blocking wrapper had "no acquisition".)
    wrappers = {}
    for nm_ in sorted(PRIMITIVES):
        if nm_ == 'spin_lock':
            continue
        ws = [x for x in prog.funcs.values() if x.name == nm_ and x.blocks]
        if ws and any(is_call(x, 'spin_lock') and x['ev'] == 'call' for w in ws for x in inlined(prog, w).events()):
            wrappers[nm_] = ws

    bad, n = [], 0
    reach = {}
    for o in roles.functions_with(prog, lambda e: e['ev'] == 'call' and (is_call(e, 'spin_lock') or e.get('callee') in wrappers)):
        for c in roles.callers_closure(prog, o):
            reach[c.q] = c
    slot_fns = {prog.resolve(v[0], v[1]).q for slots in prog.method_tables().values() for v in slots.values()
                if v and v[0] != 'str' and prog.resolve(v[0], v[1]) is not None}
    through_slots = bool(slot_fns & set(reach))

    def inner_blocked(nm_, blocked_at_call):
        """every spin_lock in every definition of the opaque wrapper runs with signals blocked"""
        okw = True
        for w0 in wrappers[nm_]:
            w = inlined(prog, w0)        # its own helpers inlined; `spin_lock` stays an operation
            wl = locksets(w, entry=frozenset([SIGBLOCK]) if blocked_at_call else frozenset())
            for x in w.events():
                if is_call(x, 'spin_lock') and x['ev'] == 'call' and SIGBLOCK not in held(wl.get((x['_b'], x['_i']))):
                    okw = False
        return okw
    for r in roles.roots(prog):
        if r.q in handlers:
            continue
        if r.q not in reach and not through_slots:
            continue
        g = inlined(prog, r, expand_methods=True)
        ls = locksets(g)
        for e in g.events():
            if e['ev'] != 'call':
                continue
            H = held(ls.get((e['_b'], e['_i'])))
            if is_call(e, 'spin_lock'):
                n += 1
                if SIGBLOCK not in H:
                    bad.append((r, e))
            elif e.get('callee') in wrappers:
                n += 1
                if not inner_blocked(e['callee'], SIGBLOCK in H):
                    bad.append((r, e))
    if not n:
        raise AnalysisBroken('no spinlock acquisition outside the signal handler found')
    ctx.ob('R-C15c', 'fallback_spin_lock:precondition', not bad, loc=bad[0][1]['loc'] if bad else sorted(handlers)[0],
           detail='every spinlock acquisition outside the signal handler (spin_lock, or the spin_lock inside an opaque lock-taking primitive%s) runs with all signals blocked' % (' ' + '/'.join(sorted(wrappers)) if wrappers else ''))


# --------------------------------------------------------------------------
# R-C15d
# --------------------------------------------------------------------------

def _can_execute(prog, f, kind):
    """some path of entry point f (helpers inlined) calls the primitive; a call that is merely contained as dead code
    (a body shared with another slot, entered with a constant mode argument) does not count"""
    g = inlined(prog, f)
    if not any(is_prim(x, (kind,)) for x in g.events()):
        return False
    sim = CSim(prog, f, g, None, lambda e, env, marks: ['K'] if is_prim(e, (kind,)) else ()).run()
    return any('K' in m for (_, _, m, _) in sim.exits) or any('K' in m for (_, _, m) in sim.fatals)


def _static_state_keys(prog, root, g):
    """file-scope locations with internal linkage (scalars, members of static structs) that the entry point writes and
    whose address is never handed to a call: {key: initial value}"""
    sim = CSim(prog, root, g)
    unit = prog.unit_of(root)
    keys = {}
    for e in g.events():
        if e['ev'] != 'store':
            continue
        k = h15.loc_key(e['lhs'])
        if k is None or not sim.is_global(k) or k in keys:
            continue
        origin = prog.funcs.get(e.get('fn')) if e.get('fn') else None
        u = (prog.unit_of(origin) if origin is not None else None) or unit
        gl = prog.global_for(u, h15.key_root(k)) if u else None
        if gl is None or not gl.get('static') or gl.get('extern_decl'):
            continue
        init = gl.get('init')
        v = None
        if init is None:
            v = const(0)
        elif k == gl['name']:
            v = h15.evaluate(init, {})
        elif isinstance(init, dict) and init.get('k') == 'init' and 'fields' in init and k.count('.') == 1 and '[' not in k:
            fld = k.split('.')[1]
            v = h15.evaluate(init['fields'][fld], {}) if fld in init['fields'] else const(0)
        if v is None or not is_const(v):
            continue
        keys[k] = v
    if keys:
        # an address that escapes into a call makes the writers unknown
        roots_ = {h15.key_root(k) for k in keys}
        for fn_ in prog.all_funcs():
            for e in fn_.events():
                if e['ev'] == 'call':
                    for a in e.get('args', []):
                        for x in walk(a):
                            if x.get('k') == 'addr':
                                k2 = h15.loc_key(x['e'])
                                if k2 is not None and h15.key_root(k2) in roots_:
                                    for k in [k for k in keys if h15.key_root(k) == h15.key_root(k2)]:
                                        keys.pop(k)
    return keys


class _RSim(CSim):
    """CSim for the reachable-state closure: code entered through an indirect call changes the tracked locations only
    by running entry points of the library, whose effect the closure accounts for separately; so here the tracked
    locations survive the call"""
    tracked = frozenset()

    def _event(self, e, env, marks):
        if e['ev'] == 'call' and 'fnexpr' in e:
            keep = {k: v for k, v in env.items() if k[0] not in '$%&' and h15.key_root(k) in self.tracked}
            res = CSim._event(self, e, env, marks)
            if res is None:
                return None
            env2 = dict(res[0])
            env2.update(keep)
            return env2, res[1]
        return CSim._event(self, e, env, marks)


def _writes_after_callback(g, roots_):
    """some path runs an indirect call and later stores to a location rooted at one of roots_"""
    def is_w(e):
        if e['ev'] != 'store':
            return False
        k = h15.loc_key(e['lhs'])
        return (k is not None and h15.key_root(k) in roots_) or (k is None and strip(e['lhs']).get('k') == 'deref')
    wblocks = {b for b, blk in g.blocks.items() if any(is_w(e) for e in blk.events)}
    for b, blk in g.blocks.items():
        for i, e in enumerate(blk.events):
            if e['ev'] == 'call' and 'fnexpr' in e:
                if any(is_w(x) for x in blk.events[i + 1:]):
                    return True
                seen, work = set(), [s_ for s_ in blk.succ if s_ is not None]
                while work:
                    x = work.pop()
                    if x in seen:
                        continue
                    seen.add(x)
                    if x in wblocks:
                        return True
                    work.extend(s_ for s_ in g.blocks[x].succ if s_ is not None)
    return False


def _reachable_states(prog, root, g, limit=48):
    """Joint values of the entry point's private file-scope state that can exist when an entry point is entered: the
    least set that contains the initialisers and is closed under running (with every call result unknown) each entry
    point that can write one of these locations.  None when it cannot be bounded."""
    cache = prog.__dict__.setdefault('_c15_reach', {})
    keys = _static_state_keys(prog, root, g)
    ck = tuple(sorted(keys))
    if not keys:
        return None
    if ck in cache:
        return cache[ck]
    roots_ = {h15.key_root(k) for k in keys}
    writers = {}
    for fn_ in prog.all_funcs():
        hit = False
        for e in fn_.events():
            if e['ev'] == 'store':
                k = h15.loc_key(e['lhs'])
                if k is not None and h15.key_root(k) in roots_:
                    hit = True
            for x in walk(e):
                if x.get('k') == 'addr':
                    k2 = h15.loc_key(x['e'])
                    if k2 is not None and h15.key_root(k2) in roots_:
                        hit = True
        if hit:
            for r in (_contexts_of(prog, fn_) if fn_.name not in PRIMITIVES else []):
                writers[r.q] = r
    proj = lambda env: tuple(sorted((k, env[k]) for k in keys if k in env and env[k] != TOP) +
                             sorted((k, v) for k, v in env.items() if k[0] == '#' and k[1:] in keys))
    start = tuple(sorted(keys.items()))
    states, work = {start}, [start]
    wac = {}
    while work:
        st = work.pop()
        for q in sorted(writers):
            r = writers[q]
            snaps = set()

            def marker(e, env, marks, snaps=snaps):
                if e['ev'] == 'call' and 'fnexpr' in e:
                    snaps.add(proj(env))
                return ()
            gr = inlined(prog, r)
            if r.q not in wac:
                wac[r.q] = _writes_after_callback(gr, roots_)
            if wac[r.q]:
                # the value written may depend on what re-entrant code left behind: not modelled
                cache[ck] = None
                return None
            try:
                sim = _RSim(prog, r, gr, None, marker, dict(st))
                sim.tracked = roots_
                sim.run()
            except AnalysisBroken:
                cache[ck] = None
                return None
            for (_, env, _, _) in sim.exits:
                snaps.add(proj(env))
            for (_, env, _) in sim.fatals:
                snaps.add(proj(env))
            for s2 in snaps:
                if s2 not in states:
                    states.add(s2)
                    work.append(s2)
                    if len(states) > limit:
                        cache[ck] = None
                        return None
    cache[ck] = sorted(states, key=repr)
    return cache[ck]


def _from_reachable_states(prog, check):
    """check(root, g, base) with the file-scope state unknown at entry; if that fails, with every state that can
    actually exist at entry (the failing path may start from a combination of support flags that no execution
    produces, e.g. "epoll_create1 still assumed, epoll_create known missing")"""
    def wrapped(root, g):
        ok, detail = check(root, g, None)
        if ok or root.name in PRIMITIVES:
            return ok, detail
        sts = _reachable_states(prog, root, g)
        if not sts:
            return ok, detail
        for st in sts:
            ok2, d2 = check(root, g, dict(st))
            if not ok2:
                return False, '%s (entered with the reachable state %s)' % (d2, {k: v for k, v in st})
        return True, '%s: holds from each of the %d reachable states of %s' % (root.name, len(sts), sorted({k for st in sts for k, _ in st}))
    return wrapped


def _snapshot(sim, env):
    """the file-scope state (scalars, members of file-scope structs) known at this point"""
    return tuple(sorted((k, v) for k, v in env.items() if k[0] not in '$%&' and sim.is_global(k) and v != TOP))


def _left_behind(sim):
    """file-scope states a failed invocation hands over: at the first point after the failure where control
    leaves the library (user callback), else at its return"""
    out = set()
    for (_, env, m, _) in sim.exits:
        if 'F' not in m:
            continue
        post = [x[1] for x in m if isinstance(x, tuple) and x[0] == 'post']
        out.add(post[0] if post else _snapshot(sim, env))
    return out


def enosys(ctx):
    prog = ctx.prog
    mnames = h15.method_pointer_names(prog)
    tables = prog.method_tables()
    for (label, prims, errnos, alts, mode) in CHAINS:
        K = prims[-1]
        sites = _sites(prog, lambda e: is_prim(e, (K,)))
        for n_, (loc, (f, evs)) in enumerate(sorted(sites.items())):
            inst = label + ('#%d' % (n_ + 1) if n_ else '')

            def scenario(err, root, g, marker_extra=None):
                box = {}

                def oracle(e, env, marks):
                    k = prim_kind(e)
                    if k == K:
                        return Outcome(const(-1), const(err), ['F', ('snap', _snapshot(box['sim'], env))])
                    if k in prims:
                        return fail(ENOSYS, 'F:' + k)
                    return None

                def marker(e, env, marks):
                    out = []
                    if 'F' in marks:
                        if alts and e['ev'] == 'call' and 'callee' in e and prim_kind(e) in alts and not h15.zero_timeout_poll(e):
                            out.append('ALT')
                        if h15.is_method_store(prog, e):
                            t_ = h15.stored_table(e)
                            if t_ is None and 'rhs' in e:
                                # the address travelled through a local (parameter of a switching helper)
                                r_ = box['sim'].ref(e['rhs'], env)
                                t_ = r_[1] if r_ is not None and r_[0] == 'var' else None
                            out.append(('SW', t_))
                        elif e['ev'] == 'store':
                            key = h15.loc_key(e['lhs'], env)
                            if key is not None and box['sim'].is_global(key):
                                out.append(('gstore', key, h15.evaluate(e['rhs'], env) if (e.get('op') == '=' and 'rhs' in e)
                                            else ('update', e.get('op'), canon(e['rhs']) if 'rhs' in e else '')))
                    return out
                return oracle, marker, box

            memo = {}

            def run(err, root, g, init=None):
                key = (root.q, id(g), err, tuple(sorted((init or {}).items())))
                if key not in memo:
                    oracle, marker, box = scenario(err, root, g)
                    sim = CSim(prog, root, g, oracle, marker, init)
                    box['sim'] = sim
                    memo[key] = sim.run()
                return memo[key]

            # (1) the same invocation reaches the alternative, for every errno that means "missing"
            def check_reach(root, g, base=None):
                if mode == 'switch':
                    # the wait of the new method may be reached by dispatching through the pointer just stored
                    ts = set().union(*[_table_values(g, e.get('rhs')) for e in g.events() if h15.is_method_store(prog, e)] + [set()])
                    if len(ts) == 1 and list(ts)[0] in tables:
                        g = inlined(prog, root, method_table=list(ts)[0])
                for err in errnos:
                    sim = run(err, root, g, base)
                    ends = [m for (_, _, m, _) in sim.exits] + [m for (_, _, m) in sim.fatals]
                    seen = [m for m in ends if 'F' in m]
                    if not seen:
                        # the walk explores a superset of the feasible paths: the site is dead code in this configuration
                        return True, '%s: the %s site is unreachable' % (root.name, K)
                    for m in seen:
                        if alts and 'ALT' not in m:
                            return False, '%s: errno %d: a path returns/aborts without calling %s' % (root.name, err, '/'.join(alts))
                        if not alts and not any(isinstance(x, tuple) and x[0] == 'SW' for x in m):
                            return False, '%s: errno %d: a path returns/aborts without switching the method' % (root.name, err)
                return True, root.name
            if alts is not None:
                ok, res = _eval_site(prog, f, _from_reachable_states(prog, check_reach) if mode == 'flag' else check_reach)
                ctx.ob('R-C15d', '%s:falls-back' % inst, ok, loc=loc,
                       detail='when %s fails with %s every path of the same invocation reaches %s (%s)'
                              % (K, '/'.join(str(e_) for e_ in errnos), '/'.join(alts) or 'the method switch', '; '.join(d for _, _, d in res)), fn=f.q)

            # (2) one-way demotion
            if mode == 'flag':
                def check_demote(root, g, base=None):
                    for err in errnos:
                        sim = run(err, root, g, base)
                        for st in _left_behind(sim):
                            sim2 = run(err, root, g, init=dict(st))
                            again = [1 for (_, _, m, _) in sim2.exits if 'F' in m] + [1 for (_, _, m) in sim2.fatals if 'F' in m]
                            if again:
                                return False, '%s: errno %d: the next invocation calls %s again (state %s)' % (root.name, err, K, dict(st))
                    return True, root.name
                ok, res = _eval_site(prog, f, _from_reachable_states(prog, check_demote))
                ctx.ob('R-C15d', '%s:demotes' % inst, ok, loc=loc,
                       detail='after %s was found missing, a further invocation entered with the file-scope state left behind does not call it again (%s)'
                              % (K, '; '.join(d for _, _, d in res)), fn=f.q)

                # (3) only the errnos that mean "missing" demote
                def changed(m):
                    snap = {}
                    for x in m:
                        if isinstance(x, tuple) and x[0] == 'snap':
                            snap.update(dict(x[1]))
                    return {x[1] for x in m if isinstance(x, tuple) and x[0] == 'gstore' and x[2] != snap.get(x[1], TOP)}

                def check_other(root, g, base=None):
                    # the state that records "K is missing": what every path writes after K failed with a handled errno
                    dem = None
                    for err in errnos:
                        sim = run(err, root, g, base)
                        for m in [m for (_, _, m, _) in sim.exits] + [m for (_, _, m) in sim.fatals]:
                            if 'F' in m:
                                dem = changed(m) if dem is None else (dem & changed(m))
                    if not dem:
                        return True, '%s: no file-scope demotion state' % root.name
                    sim = run(EMFILE, root, g, base)
                    for m in [m for (_, _, m, _) in sim.exits] + [m for (_, _, m) in sim.fatals]:
                        if 'F' in m and (changed(m) & dem):
                            return False, '%s: %s is overwritten although errno was not one of %s' % (root.name, sorted(changed(m) & dem), list(errnos))
                    return True, '%s: %s untouched' % (root.name, sorted(dem))
                ok, res = _eval_site(prog, f, _from_reachable_states(prog, check_other))
                ctx.ob('R-C15d', '%s:other-errors-do-not-demote' % inst, ok, loc=loc,
                       detail='a failure of %s with an unrelated errno (EMFILE) leaves the support-level state as it was (%s)' % (K, '; '.join(d for _, _, d in res)), fn=f.q)
            else:
                def check_switch(root, g):
                    role = [x[5:] for x in root_role(prog, root) if x.startswith('slot:') and '@' not in x]
                    for err in errnos:
                        sim = run(err, root, g)
                        for (_, env, m, _) in sim.exits:
                            if 'F' not in m:
                                continue
                            sw = [x[1] for x in m if isinstance(x, tuple) and x[0] == 'SW']
                            if not sw:
                                return False, '%s: returns without switching `method`' % root.name
                            for t in sw:
                                if t not in tables:
                                    return False, '%s: switches to %s which is not a method table' % (root.name, t)
                                for sl in role:
                                    for tf in prog.slot_targets(sl, t):
                                        if _can_execute(prog, tf, K):
                                            return False, '%s: the new method %s still calls %s' % (root.name, t, K)
                    return True, root.name
                ok, res = _eval_site(prog, f, check_switch)
                ctx.ob('R-C15d', '%s:demotes' % inst, ok, loc=loc,
                       detail='after %s was found missing the selected method is replaced by one that does not use it (%s)' % (K, '; '.join(d for _, _, d in res)), fn=f.q)
    splice_probe(ctx)


def splice_probe(ctx):
    """splice probe -> read/write: when the probe fails, the probe's pipe-pair buffers are neither kept in the
    per-thread buffer cache (the read/write mode would use them as data buffers) nor leaked, and no entry
    point uses splice afterwards."""
    prog = ctx.prog
    allsp = _sites(prog, lambda e: is_prim(e, ('splice',)))
    if not allsp:
        return
    # A splice whose failure with ENOSYS is handed to the caller as an error (every path that saw the failure
    # returns non-zero) is ordinary I/O.  Any other splice site decides the support level: it is a probe and must
    # fall back cleanly.
    def reported(loc, f):
        def oracle0(e, env, marks):
            if prim_kind(e) == 'splice' and e.get('loc') == loc:
                return fail(ENOSYS, 'F')
            return None

        def check0(root, g):
            sim = CSim(prog, root, g, oracle0).run()
            rets = [rv for (_, _, m, rv) in sim.exits if 'F' in m]
            if rets and all(rv is not None and truth(rv) is True for rv in rets):
                return True, root.name
            return False, root.name
        return _eval_site(prog, f, check0)[0]
    probe, data_owners = {}, []
    for loc, v in sorted(allsp.items()):
        if reported(loc, v[0]):
            data_owners.append(v[0])
        else:
            probe[loc] = v
    ctx.ob('R-C15d', 'splice:probe-exists', bool(probe), loc=sorted(allsp)[0],
           detail='%d splice site(s) hand an ENOSYS failure to their caller as an error (ordinary I/O); the %d other site(s) decide the '
                  'support level (availability probe) and carry the fallback obligations' % (len(data_owners), len(probe)))
    if not probe:
        return

    def cnt(marks, what):
        # saturating, so that a loop of unknown length cannot generate marks without bound
        return min(len([1 for x in marks if isinstance(x, tuple) and x[0] == what]), 8)

    for loc, (f, evs) in sorted(probe.items()):
        def oracle(e, env, marks, loc=loc):
            k = prim_kind(e)
            if k == 'splice':
                if e.get('loc') == loc:
                    return fail(oracle.err, 'F')
                return Outcome(TOP, None, ['SPLICED'])
            if k in ('pipe', 'pipe2'):
                return Outcome(const(0), None, [('pipe', cnt(marks, 'pipe'))])
            if k in ('malloc', 'calloc'):
                return Outcome(NZ, None, [('malloc', cnt(marks, 'malloc'))])
            return None

        def marker(e, env, marks):
            if e['ev'] != 'call' or 'callee' not in e:
                return ()
            k = e['callee']
            if k == 'close':
                return [('close', cnt(marks, 'close'))]
            if k == 'free':
                return [('free', cnt(marks, 'free'))]
            if k in ('iv_list_add', 'iv_list_add_tail') and 'F' in marks:
                return ['CACHED']
            return ()

        def check(root, g):
            for err in (ENOSYS, EPERM, EINVAL):
                oracle.err = err
                sim = CSim(prog, root, g, oracle, marker).run()
                seen = [(env, m) for (_, env, m, _) in sim.exits if 'F' in m]
                if not seen:
                    return False, '%s: probe not reachable or failure is fatal' % root.name
                if [1 for (_, _, m) in sim.fatals if 'F' in m]:
                    return False, '%s: a failing probe aborts' % root.name
                for env, m in seen:
                    if 'CACHED' in m:
                        return False, '%s: errno %d: a probe buffer is put on a list (buffer cache) although splice is unavailable' % (root.name, err)
                    if cnt(m, 'close') < 2 * cnt(m, 'pipe'):
                        return False, '%s: errno %d: %d pipe pairs created, %d descriptors closed' % (root.name, err, cnt(m, 'pipe'), cnt(m, 'close'))
                    if cnt(m, 'free') < cnt(m, 'malloc'):
                        return False, '%s: errno %d: %d buffers allocated, %d freed' % (root.name, err, cnt(m, 'malloc'), cnt(m, 'free'))
            return True, root.name
        ok, res = _eval_site(prog, f, check)
        ctx.ob('R-C15d', 'splice-probe:buffers-released-not-cached', ok, loc=loc,
               detail='when the probe fails, every pipe pair and buffer it allocated is closed/freed and none is inserted into the buffer cache (%s)'
                      % '; '.join(d for _, _, d in res), fn=f.q)

        def check_off(root, g):
            for err in (ENOSYS, EPERM, EINVAL):
                oracle.err = err
                sim = CSim(prog, root, g, oracle, marker).run()
                for st in _left_behind(sim):
                    sim2 = CSim(prog, root, g, oracle, marker, dict(st)).run()
                    if [1 for (_, _, m, _) in sim2.exits if 'F' in m or 'SPLICED' in m]:
                        return False, '%s: errno %d: probes again' % (root.name, err)
                    for o in data_owners:
                        for r2 in nearest_roots(prog, o):
                            g2 = inlined(prog, r2)
                            sim3 = CSim(prog, r2, g2, oracle, marker, dict(st)).run()
                            ends = [m for (_, _, m, _) in sim3.exits] + [m for (_, _, m) in sim3.fatals]
                            if any('SPLICED' in m or 'F' in m for m in ends):
                                return False, '%s: errno %d: %s still calls splice with the state left by the failed probe %s' % (root.name, err, r2.name, dict(st))
            return True, root.name
        ok, res = _eval_site(prog, f, check_off)
        ctx.ob('R-C15d', 'splice-probe:demotes', ok, loc=loc,
               detail='with the file-scope state a failed probe leaves behind, no entry point calls splice any more (read/write are used) (%s)'
                      % '; '.join(d for _, _, d in res), fn=f.q)


# --------------------------------------------------------------------------
# R-C15e
# --------------------------------------------------------------------------

STRCMP = ('strcmp', 'strncmp', 'strcasecmp', 'strncasecmp', 'memcmp')


def _tables_in(x, tables):
    return {y['name'] for y in walk(x) if y.get('k') == 'var' and y.get('vk') != 'func' and y['name'] in tables}


def _candidate_tables(prog, g, base, tables):
    """method tables a candidate expression (`iv_fd_poll_method_epoll`, `m`, `candidates[i]`) may denote: the table
    named, or the tables whose addresses are in the initialiser / assignments of the variables it is computed from"""
    out = _tables_in(base, tables)
    names = {y['name'] for y in walk(base) if y.get('k') == 'var' and y.get('vk') != 'func'} - set(tables)
    seen = set()
    while names:
        n = names.pop()
        if n in seen:
            continue
        seen.add(n)
        for e in list(g.events()) + list(getattr(g.inlined_from or g, 'pristine', lambda: g)().events()):
            # (the inliner renames the declaration of a static local but not its uses)
            if e['ev'] == 'decl' and (e.get('name') == n or str(e.get('name', '')).startswith(n + '@')) and 'init' in e:
                out |= _tables_in(e['init'], tables)
            if e['ev'] == 'store' and 'rhs' in e and strip(e['lhs']).get('k') == 'var' and strip(e['lhs'])['name'] == n:
                out |= _tables_in(e['rhs'], tables)
                names |= {y['name'] for y in walk(e['rhs']) if y.get('k') == 'var' and y.get('vk') != 'func'} - set(tables) - seen
        for key, gl in prog.globals.items():
            if gl.get('name') == n and isinstance(gl.get('init'), dict):
                out |= _tables_in(gl['init'], tables)
    return out


def exclusion(ctx):
    prog = ctx.prog
    tables = prog.method_tables()
    mnames = h15.method_pointer_names(prog)

    # candidate initialisation sites: calls of the `init` slot of anything but the already selected method
    def candidate(e):
        if e['ev'] != 'call' or method_slot(e) != 'init':
            return None
        b = strip(strip(e['fnexpr'])['base'])
        if isinstance(b, dict) and b.get('k') == 'var' and b['name'] in mnames:
            return None
        return canon(b)
    owners = roles.functions_with(prog, lambda e: e['ev'] == 'call' and method_slot(e) == 'init')
    rts = {}
    for o in owners:
        for r in nearest_roots(prog, o):
            rts[r.q] = r
    sel = []
    for q in sorted(rts):
        g = inlined(prog, rts[q])
        if any(candidate(e) for e in g.events()):
            sel.append((rts[q], g))
    if len(sel) != 1:
        raise AnalysisBroken('method selection: %d entry points initialise candidate methods' % len(sel))
    root, g = sel[0]
    inits = {}
    for e in g.events():
        c = candidate(e)
        if c:
            inits.setdefault(c, []).append(e)
    denotes = {c: _candidate_tables(prog, g, strip(strip(evs[0]['fnexpr'])['base']), tables) for c, evs in inits.items()}
    considered = set().union(*denotes.values()) if denotes else set()
    ctx.ob('R-C15e', 'selection:all-tables-considered', considered == set(tables), loc=root.loc,
           detail='tables whose init is tried: %s' % sorted(considered), fn=root.q)
    # the exclusion list: values derived from getenv()
    envs = [e for e in g.events() if e['ev'] == 'call' and e.get('callee') in ('getenv', 'secure_getenv')]
    def string_of(x, seen=()):
        # the string an argument denotes: a literal, or a constant array / pointer variable initialised with one
        x = strip(x)
        if isinstance(x, dict) and x.get('k') == 'str':
            return x['v']
        if isinstance(x, dict) and x.get('k') == 'addr':
            return string_of(x['e'], seen)
        if isinstance(x, dict) and x.get('k') == 'index' and canon(x['idx']) == '0':
            return string_of(x['base'], seen)
        if isinstance(x, dict) and x.get('k') == 'var' and x['name'] not in seen:
            vals = set()
            if x.get('vk') in ('global', 'staticlocal'):
                for key, gl in prog.globals.items():
                    if gl.get('name') == x['name'] and isinstance(gl.get('init'), dict) and not prog.global_writers(x['name']):
                        vals.add(string_of(gl['init'], tuple(seen) + (x['name'],)))
            for e in g.events():
                if e['ev'] == 'store' and e.get('op') == '=' and 'rhs' in e and strip(e['lhs']).get('k') == 'var' and strip(e['lhs'])['name'] == x['name']:
                    vals.add(string_of(e['rhs'], tuple(seen) + (x['name'],)))
                elif e['ev'] == 'decl' and e.get('name') == x['name'] and 'init' in e:
                    vals.add(string_of(e['init'], tuple(seen) + (x['name'],)))
            return list(vals)[0] if len(vals) == 1 else None
        return None
    ctx.ob('R-C15e', 'selection:environment', bool(envs) and len({e['loc'] for e in envs}) == 1 and all(string_of(e['args'][0]) == 'IV_EXCLUDE_POLL_METHOD' for e in envs),
           loc=envs[0]['loc'] if envs else root.loc, detail='exclusions come from one read of IV_EXCLUDE_POLL_METHOD', fn=root.q)
    tainted = _derived_from(g, lambda r: isinstance(r, dict) and r.get('k') == 'call' and r.get('callee') in ('getenv', 'secure_getenv'))

    cand_names = {c: set().union(*[names_of(strip(e['fnexpr'])['base']) for e in evs]) for c, evs in inits.items()}

    def name_of(c):
        # a read of `.name` of the same candidate: the base is the same value as the one whose `init` is called (under
        # any of the spellings copy propagation knows for it), or denotes exactly the same single table
        def src(r):
            if not (isinstance(r, dict) and r.get('k') == 'member' and last_member(r) == ('iv_fd_poll_method', 'name')):
                return False
            b = strip(r['base'])
            if names_of(r['base']) & cand_names[c]:     # (the `_was` annotation sits on the load around the access path)
                return True
            d = _candidate_tables(prog, g, b, tables)
            return len(d) == 1 and d == denotes[c]
        return src

    def mentions(x, names, src):
        for y in walk(x):
            if y.get('k') == 'var' and y['name'] in names:
                return True
            if src(y):
                return True
        return False
    hd = holding(g, user_call_kills=False)
    for c in sorted(inits):
        src = name_of(c)
        holders = _derived_from(g, src, through_calls=False)
        cmps = [e for e in g.events() if e['ev'] == 'call' and e.get('callee') in STRCMP
                and any(mentions(a, holders, src) for a in e['args']) and any(mentions(a, tainted, lambda r: False) for a in e['args'])]
        short = c.replace('iv_fd_poll_method_', '') if c in tables else 'candidate(%s)' % '/'.join(sorted(t.replace('iv_fd_poll_method_', '') for t in denotes[c]))
        ctx.ob('R-C15e', 'selection:%s:tested-against-list' % short, bool(cmps), loc=(cmps[0]['loc'] if cmps else root.loc),
               detail='the name of the candidate `%s` is compared with tokens of the exclusion list read from the environment' % c, fn=root.q)

        # scenario: the list contains this name (every comparison with it reports equality): its init must not run
        cvars = {y['name'] for y in walk(strip(strip(inits[c][0]['fnexpr'])['base'])) if y.get('k') == 'var' and y['name'] not in tables}

        def oracle(e, env, marks, holders=holders, src=src):
            if e.get('callee') in STRCMP:
                if any(mentions(a, holders, src) for a in e['args']):
                    return Outcome(const(0), None, [('%set', '%match', const(1))])
                return Outcome(NZ, None)
            return None

        def marker(e, env, marks, c=c, cvars=cvars):
            if e['ev'] == 'store' and strip(e['lhs']).get('k') == 'var' and strip(e['lhs'])['name'] in cvars:
                return [('%set', '%match', const(0))]       # the expression now denotes another candidate
            if env.get('%match') == const(1) and candidate(e) == c:
                return ['INIT-EXCLUDED']
            return ()
        sim = CSim(prog, root, g, oracle, marker).run()
        ends = [m for (_, _, m, _) in sim.exits] + [m for (_, _, m) in sim.fatals]
        ok = bool(cmps) and not any('INIT-EXCLUDED' in m for m in ends)
        # and no candidate is initialised once a method is selected
        for e in inits[c]:
            A = hd.get((e['_b'], e['_i']), frozenset())
            ok = ok and any(a[0] == '==' and a[1] in mnames and a[2] == '0' for a in A)
        ctx.ob('R-C15e', 'selection:%s:excluded-or-chosen-not-initialised' % short, ok, loc=inits[c][0]['loc'],
               detail='`%s`.init runs only while no method is selected, and never after its name matched a token of the list' % c, fn=root.q)
    fat = [b for b, blk in g.blocks.items() if blk.noreturn and hd.get((b, 0)) is not None]
    okf = bool(fat)
    for b in fat:
        A = hd.get((b, 0), frozenset())
        none_sel = any(a[0] == '==' and a[1] in mnames and a[2] == '0' for a in A)
        init_failed = any(a[0] in ('<', '!=') and ('iv_fd_poll_method', 'init') in a[3] for a in A)
        okf = okf and (none_sel or init_failed)
    ctx.ob('R-C15e', 'selection:fatal-only-if-none', okf, loc=root.loc, detail='fatal only when no method could be initialised', fn=root.q)


def _derived_from(g, is_source, through_calls=True):
    """names of variables whose value derives (flow-insensitively) from a source expression: copies,
    arithmetic, and -- for the exclusion string -- buffers filled by a call that reads a derived value"""
    names = set()
    changed = True

    def reads(x):
        for y in walk(x):
            if y.get('k') == 'var' and y['name'] in names:
                return True
            if is_source(y):
                return True
        return False
    while changed:
        changed = False
        for e in g.events():
            if e['ev'] == 'store' and 'rhs' in e:
                l = strip(e['lhs'])
                if isinstance(l, dict) and l.get('k') == 'deref':
                    # `*&x = ..`: an out-parameter of an inlined helper
                    k = h15.loc_key(l)
                    l = {'k': 'var', 'name': k} if (k is not None and '.' not in k and '[' not in k) else l
                if isinstance(l, dict) and l.get('k') == 'var' and l['name'] not in names and (reads(e['rhs']) or (e.get('op') != '=' and l['name'] in names)):
                    names.add(l['name'])
                    changed = True
            elif through_calls and e['ev'] == 'call' and 'callee' in e and any(reads(a) for a in e.get('args', [])):
                for a in e['args']:
                    a = strip(a)
                    v = strip(a['e']) if isinstance(a, dict) and a.get('k') == 'addr' else a
                    if isinstance(v, dict) and v.get('k') == 'var' and v.get('vk') not in ('func', 'global') and v['name'] not in names \
                            and (a is not v or '[' in str(v.get('type', ''))):
                        names.add(v['name'])
                        changed = True
    return names
