"""Helpers of C05: a concrete evaluator of the function facts over a byte-addressed
object memory, and a model of the timer store (binary heap in a radix tree) built
from the record layouts.

Why: every clause of C05 is a statement about what iv_timer_register /
iv_timer_unregister do to the heap *state*; how the source is cut into helpers,
which locals cache what, loop forms, branch shapes are all irrelevant to it.  So
the clauses are evaluated on states: the public functions are evaluated (facts
only, no repository code is executed) on every small heap and on heaps at the
capacity boundaries of the store, and the state sequence is checked.

The evaluator interprets the pristine CFG facts (no flag partitioning, no copy
propagation).  Anything it cannot interpret raises AnalysisBroken; what the
evaluated code does wrong (fatal path, wild pointer, no termination) is a Fault,
i.e. evidence of a violation.
"""
from ..core import AnalysisBroken, canon

NULL = 0
MISSING = object()


class Fault(Exception):
    """The evaluated code misbehaved: kind in fatal / memory / hang."""

    def __init__(self, kind, msg):
        Exception.__init__(self, '%s: %s' % (kind, msg))
        self.kind = kind
        self.msg = msg


class Unsupported(AnalysisBroken):
    pass


class Obj:
    __slots__ = ('name', 'size', 'cells', 'zero', 'zr', 'freed', 'heap', 'tag')

    def __init__(self, name, size=None, zero=False, heap=False, tag=None):
        self.name = name
        self.size = size
        self.cells = {}
        self.zero = zero
        self.zr = None
        self.freed = False
        self.heap = heap
        self.tag = tag

    def __repr__(self):
        return '<%s>' % self.name


class Agg:
    """value of an aggregate (struct copy): {relative offset: scalar}"""
    __slots__ = ('cells', 'size')

    def __init__(self, cells, size):
        self.cells = cells
        self.size = size


def is_ptr(v):
    return isinstance(v, tuple) and v[0] == 'p'


def truth(v):
    if isinstance(v, int):
        return v != 0
    if v is None:
        raise Unsupported('value of a void expression is tested')
    return True        # pointers to objects, functions, strings


_QUALS = ('const ', 'volatile ', 'restrict ', '__restrict ')
_INT_TYPES = {
    'char': (8, True), 'signed char': (8, True), 'unsigned char': (8, False), '_Bool': (8, False), 'bool': (8, False),
    'short': (16, True), 'unsigned short': (16, False), 'int': (32, True), 'unsigned int': (32, False), 'unsigned': (32, False),
    'long': (64, True), 'unsigned long': (64, False), 'long long': (64, True), 'unsigned long long': (64, False),
    'int8_t': (8, True), 'uint8_t': (8, False), 'int16_t': (16, True), 'uint16_t': (16, False),
    'int32_t': (32, True), 'uint32_t': (32, False), 'int64_t': (64, True), 'uint64_t': (64, False),
    'size_t': (64, False), 'ssize_t': (64, True), 'intptr_t': (64, True), 'uintptr_t': (64, False),
    'time_t': (64, True), '__time_t': (64, True), '__syscall_slong_t': (64, True), 'off_t': (64, True),
    'pid_t': (32, True), '__pid_t': (32, True), 'socklen_t': (32, False), 'ptrdiff_t': (64, True),
}


class Types:
    def __init__(self, prog):
        self.records = prog.records
        self._off = {}
        self._size = {}
        self._clean = {}
        self._isrec = {}

    def clean(self, t):
        r = self._clean.get(t)
        if r is None:
            r = self._clean[t] = self._clean1(t)
        return r

    @staticmethod
    def _clean1(t):
        t = (t or '').strip()
        changed = True
        while changed:
            changed = False
            for q in _QUALS:
                if t.startswith(q):
                    t = t[len(q):].strip()
                    changed = True
            for q in ('const', 'volatile', 'restrict', '__restrict'):
                if t.endswith(q) and (len(t) == len(q) or t[-len(q) - 1] in ' *'):
                    t = t[:-len(q)].strip()
                    changed = True
        return t

    def is_pointer(self, t):
        t = self.clean(t)
        return t.endswith('*') or '(*' in t

    def is_array(self, t):
        return self.clean(t).endswith(']')

    def is_record(self, t):
        r = self._isrec.get(t)
        if r is None:
            c = self.clean(t)
            r = self._isrec[t] = (c.startswith('struct ') or c.startswith('union ')) and not c.endswith('*') and not c.endswith(']') \
                and '(*' not in c
        return r

    def decay(self, t):
        t = self.clean(t)
        if t.endswith(']'):
            return t[:t.rindex('[')].strip() + ' *'
        return t

    def pointee(self, t):
        t = self.decay(t)
        if '(*' in t:
            raise Unsupported('arithmetic on a function pointer type %s' % t)
        if not t.endswith('*'):
            raise Unsupported('pointee of non-pointer type %s' % t)
        return self.clean(t[:-1])

    def record_name(self, t):
        t = self.clean(t)
        for p in ('struct ', 'union '):
            if t.startswith(p):
                t = t[len(p):]
        if t.startswith('(unnamed') or t.startswith('(anonymous'):
            # clang prints "(unnamed union at file:line:col)": the facts name it <anon@file:line:col>
            at = t[t.index(' at ') + 4:].rstrip(')')
            return '<anon@%s>' % at
        return t

    def sizeof(self, t):
        t0 = t
        if t0 in self._size:
            return self._size[t0]
        t = self.clean(t)
        if t.endswith(']'):
            n = t[t.rindex('[') + 1:-1]
            if not n.strip().isdigit():
                raise Unsupported('size of %s' % t0)
            r = int(n) * self.sizeof(t[:t.rindex('[')])
        elif t.endswith('*') or '(*' in t:
            r = 8
        elif t in _INT_TYPES:
            r = _INT_TYPES[t][0] // 8
        elif t == 'void':
            r = 1
        elif t.startswith('enum '):
            r = 4
        else:
            rec = self.records.get(self.record_name(t))
            if rec is not None and 'size' in rec:
                r = rec['size']
            else:
                r = None
                for rr in self.records.values():
                    for f in rr.get('fields', []):
                        if f.get('type') == t and 'size' in f:
                            r = f['size']
                if r is None:
                    raise Unsupported('size of type %s is not known' % t0)
        self._size[t0] = r
        return r

    def field(self, record, name):
        key = (record, name)
        if key not in self._off:
            rec = self.records.get(record)
            f = None
            if rec is not None:
                for x in rec.get('fields', []):
                    if x['name'] == name:
                        f = x
            if f is None:
                raise Unsupported('layout of %s.%s is not known' % (record, name))
            self._off[key] = f
        return self._off[key]

    def offset(self, record, name):
        return self.field(record, name)['offset']

    def wrap(self, v, t):
        if not isinstance(v, int):
            return v
        c = self.clean(t)
        it = _INT_TYPES.get(c)
        if it is None:
            return v
        if c in ('_Bool', 'bool'):
            return int(v != 0)
        bits, signed = it
        v &= (1 << bits) - 1
        if signed and v >= 1 << (bits - 1):
            v -= 1 << bits
        return v


class Frame:
    __slots__ = ('fn', 'vars', 'calls')

    def __init__(self, fn):
        self.fn = fn
        self.vars = {}
        self.calls = {}


FATAL_CALLS = {'iv_fatal', 'abort', 'exit', '_exit', '__assert_fail'}
IGNORED_CALLS = {'fprintf', 'printf', 'syslog', 'fflush', 'perror', 'puts'}
STATE_CALLS = {'iv_get_state', 'pthr_getspecific', 'pthread_getspecific'}


def _clz(bits):
    def f(x):
        x &= (1 << bits) - 1
        if x == 0:
            raise Fault('memory', 'count-leading-zeros of 0')
        return bits - x.bit_length()
    return f


def _ctz(x):
    if x == 0:
        raise Fault('memory', 'count-trailing-zeros of 0')
    return (x & -x).bit_length() - 1


_INT_BUILTINS = {
    'abs': abs, 'labs': abs, 'llabs': abs,
    '__builtin_clz': _clz(32), '__builtin_clzl': _clz(64), '__builtin_clzll': _clz(64),
    '__builtin_ctz': _ctz, '__builtin_ctzl': _ctz, '__builtin_ctzll': _ctz,
    '__builtin_popcount': lambda x: bin(x & 0xffffffff).count('1'), '__builtin_popcountl': lambda x: bin(x & (2 ** 64 - 1)).count('1'),
    '__builtin_ffs': lambda x: 0 if x == 0 else _ctz(x) + 1, 'ffs': lambda x: 0 if x == 0 else _ctz(x) + 1,
}


class Machine:
    def __init__(self, prog, max_steps=400000):
        self.prog = prog
        self.ty = Types(prog)
        self.globals = {}
        self.state_ptr = NULL
        self.on_store = None
        self.steps = 0
        self.max_steps = max_steps
        self.depth = 0
        self._fn = {}
        self.nobj = 0
        self._ut = {}
        self._it = {}
        self.journal = None       # undo log of memory effects: [(obj, off, old value | MISSING)] / ('freed', obj) / ('zr', obj, old)

    # -- memory ---------------------------------------------------------------
    def alloc(self, name, size=None, zero=False, heap=False, tag=None):
        self.nobj += 1
        return Obj('%s#%d' % (name, self.nobj), size, zero, heap, tag)

    def _chk(self, obj, off, what):
        if obj.freed:
            raise Fault('memory', '%s of freed object %s' % (what, obj.name))
        if off < 0 or (obj.size is not None and off >= obj.size):
            raise Fault('memory', '%s outside object %s (offset %d, size %s)' % (what, obj.name, off, obj.size))

    def read(self, obj, off):
        self._chk(obj, off, 'read')
        v = obj.cells.get(off, self)
        if v is self:
            if obj.zero:
                return 0
            if obj.zr:
                for (a, b) in obj.zr:
                    if a <= off < b:
                        return 0
            raise Fault('memory', 'read of uninitialised memory %s+%d' % (obj.name, off))
        return v

    def write(self, obj, off, v):
        self._chk(obj, off, 'write')
        j = self.journal
        if isinstance(v, Agg):
            for o in [o for o in obj.cells if off <= o < off + v.size]:
                if j is not None:
                    j.append((obj, o, obj.cells[o]))
                del obj.cells[o]
            for o, x in v.cells.items():
                if j is not None:
                    j.append((obj, off + o, obj.cells.get(off + o, MISSING)))
                obj.cells[off + o] = x
        else:
            if v is None:
                raise Unsupported('void value stored')
            if j is not None:
                j.append((obj, off, obj.cells.get(off, MISSING)))
            obj.cells[off] = v
        if self.on_store is not None:
            self.on_store(obj, off, v)

    def read_agg(self, obj, off, size):
        self._chk(obj, off, 'read')
        return Agg({o - off: x for o, x in obj.cells.items() if off <= o < off + size}, size)

    # -- static types ---------------------------------------------------------
    def stype(self, e):
        k = e.get('k')
        if k in ('var', 'member', 'index', 'deref', 'call'):
            t = e.get('type')
            if t is None:
                raise Unsupported('type of %s' % canon(e))
            return t
        if k == 'cast':
            return e['to']
        if k in ('load', 'stmtexpr', 'paren', 'incdec'):
            return self.stype(e['e'])
        if k == 'assign':
            return self.stype(e['l'])
        if k == 'addr':
            return self.ty.clean(self.stype(e['e'])) + ' *'
        if k == 'bin':
            if e['op'] in ('+', '-'):
                for s in ('l', 'r'):
                    t = self.ty.decay(self.stype(e[s]))
                    if self.ty.is_pointer(t):
                        return t
            if e['op'] == ',':
                return self.stype(e['r'])
            if e['op'] in ('<<', '>>'):
                return self.stype(e['l'])
            if e['op'] in ('+', '-', '*', '/', '%', '&', '|', '^'):
                best, bt = (32, 0), 'int'
                for s_ in ('l', 'r'):
                    t = self.ty.clean(self.stype(e[s_]))
                    it = _INT_TYPES.get(t)
                    if it and (it[0], 0 if it[1] else 1) > best:
                        best, bt = (it[0], 0 if it[1] else 1), t
                return bt
            return 'int'
        if k == 'cond':
            return self.stype(e['a'])
        if k == 'container_of':
            return 'struct %s *' % e['record']
        if k == 'null':
            return 'void *'
        return 'int'

    def int_type(self, e):
        """(bits, signed) of the C type an integer expression has after the integer promotions / usual arithmetic
        conversions, derived from the typed expression tree; None when some operand type is not a known integer type
        (the extractor drops the implicit integral conversions, so they are re-derived here)"""
        c = self._it.get(id(e), MISSING)
        if c is MISSING:
            try:
                c = self._int_type(e)
            except AnalysisBroken:
                c = None
            self._it[id(e)] = c
        return c

    def _int_type(self, e):
        k = e.get('k')
        if k == 'int':
            v = e['v']
            return (32, True) if -(1 << 31) <= v < (1 << 31) else (64, True)
        if k in ('load', 'paren', 'stmtexpr'):
            return self.int_type(e['e']) if 'e' in e else None
        if k in ('var', 'member', 'index', 'deref', 'call'):
            if k == 'var' and e.get('vk') == 'enum':
                return (32, True)
            return _INT_TYPES.get(self.ty.clean(e.get('type') or ''))
        if k == 'cast':
            return _INT_TYPES.get(self.ty.clean(e.get('to') or ''))
        if k in ('incdec',):
            return self.int_type(e['e'])
        if k == 'assign':
            return self.int_type(e['l'])
        if k == 'sizeof':
            return (64, False)

        def promote(t):
            return None if t is None else ((32, True) if t[0] < 32 else t)

        def usual(a, b):
            a, b = promote(a), promote(b)
            if a is None or b is None:
                return None
            if a[1] == b[1]:
                return max(a, b)
            u, s_ = (a, b) if not a[1] else (b, a)
            return u if u[0] >= s_[0] else s_
        if k == 'un':
            if e['op'] == '!':
                return (32, True)
            return promote(self.int_type(e['e']))
        if k == 'bin':
            op = e['op']
            if op in ('==', '!=', '<', '>', '<=', '>=', '&&', '||'):
                return (32, True)
            if op == ',':
                return self.int_type(e['r'])
            if op in ('<<', '>>'):
                return promote(self.int_type(e['l']))
            if op in ('+', '-', '*', '/', '%', '&', '|', '^'):
                return usual(self.int_type(e['l']), self.int_type(e['r']))
            return None
        if k == 'cond':
            return usual(self.int_type(e['a']), self.int_type(e['b']))
        return None

    @staticmethod
    def wrap_bits(v, it):
        bits, signed = it
        v &= (1 << bits) - 1
        if signed and v >= 1 << (bits - 1):
            v -= 1 << bits
        return v

    def unsigned_of(self, e):
        """the unsigned type (>= int) a binary operation is carried out in, or None"""
        r = self._ut.get(id(e))
        if r is None:
            r = False
            best = 0
            for s_ in ('l', 'r'):
                try:
                    t = self.ty.clean(self.stype(e[s_]))
                except AnalysisBroken:
                    continue
                it = _INT_TYPES.get(t)
                if it and not it[1] and it[0] >= 32 and it[0] > best:
                    best, r = it[0], t
                elif it and it[1] and it[0] > best and best and it[0] > best:
                    # a wider signed type holds every value of the narrower unsigned one
                    best, r = it[0], False
            self._ut[id(e)] = r
        return r or None

    # -- variables ------------------------------------------------------------
    def var_addr(self, e, fr):
        vk = e.get('vk')
        nm = e['name']
        if vk in ('local', 'param'):
            o = fr.vars.get(nm)
            if o is None:
                o = fr.vars[nm] = self.alloc(nm, self._size_or_none(e.get('type')))
            return o, 0
        if vk in ('global', 'staticlocal'):
            key = nm if vk == 'global' else '%s:%s' % (fr.fn.q, nm)
            o = self.globals.get(key)
            if o is None:
                o = self.globals[key] = self.alloc(key, self._size_or_none(e.get('type')), zero=True)
                g = self.prog.global_for(self.prog.unit_of(fr.fn), nm) if vk == 'global' else None
                init = g.get('init') if isinstance(g, dict) else None
                if isinstance(init, dict) and init.get('k') in ('int', 'null'):
                    o.cells[0] = init.get('v', 0)
            return o, 0
        raise Unsupported('address of %s (%s)' % (nm, vk))

    def _size_or_none(self, t):
        try:
            return self.ty.sizeof(t) if t else None
        except AnalysisBroken:
            return None

    # -- expressions ----------------------------------------------------------
    def lval(self, e, fr):
        k = e.get('k')
        if k == 'var':
            return self.var_addr(e, fr)
        if k == 'member':
            if e['arrow']:
                b = self.rval(e['base'], fr)
                if not is_ptr(b):
                    if b == 0:
                        raise Fault('memory', 'NULL pointer dereferenced in %s' % canon(e))
                    raise Fault('memory', 'the value %r is used as a pointer in %s' % (b, canon(e)))
                obj, off = b[1], b[2]
            else:
                obj, off = self.lval(e['base'], fr)
            return obj, off + self.ty.offset(e.get('record'), e['field'])
        if k == 'deref':
            p = self.rval(e['e'], fr)
            if not is_ptr(p):
                if p == 0:
                    raise Fault('memory', 'NULL pointer dereferenced in %s' % canon(e))
                raise Fault('memory', 'the value %r is dereferenced in %s' % (p, canon(e)))
            return p[1], p[2]
        if k == 'index':
            b = self.rval(e['base'], fr)
            i = self.rval(e['idx'], fr)
            if is_ptr(i) and isinstance(b, int):
                b, i = i, b
            if not is_ptr(b):
                if b == 0:
                    raise Fault('memory', 'NULL pointer indexed in %s' % canon(e))
                raise Fault('memory', 'the value %r is indexed in %s' % (b, canon(e)))
            if not isinstance(i, int):
                raise Fault('memory', 'the value %s is used as an index in %s' % (self.show(i), canon(e)))
            return b[1], b[2] + i * self.ty.sizeof(e['type'])
        if k in ('cast', 'stmtexpr', 'paren', 'load') and 'e' in e:
            return self.lval(e['e'], fr)
        raise Unsupported('not an lvalue: %s (%s)' % (canon(e), k))

    def rval(self, e, fr):
        k = e.get('k')
        if k == 'int':
            return e['v']
        if k == 'load':
            inner = e['e']
            ik = inner.get('k')
            if ik in ('var', 'member', 'index', 'deref'):
                t = inner.get('type')
                if t and self.ty.is_record(t):
                    obj, off = self.lval(inner, fr)
                    return self.read_agg(obj, off, self.ty.sizeof(t))
                if ik == 'var' and inner.get('vk') == 'enum':
                    return inner['v']
                obj, off = self.lval(inner, fr)
                return self.read(obj, off)
            return self.rval(inner, fr)
        if k == 'null':
            return NULL
        if k == 'var':
            vk = e.get('vk')
            if vk == 'func':
                return ('f', e['name'])
            if vk == 'enum':
                return e['v']
            if self.ty.is_array(e.get('type', '')):
                obj, off = self.var_addr(e, fr)
                return ('p', obj, off)
            raise Unsupported('variable %s used without load' % e['name'])
        if k in ('member', 'index', 'deref'):
            t = e.get('type', '')
            if self.ty.is_array(t):
                obj, off = self.lval(e, fr)
                return ('p', obj, off)
            if k == 'deref':
                # *fnptr designates the function
                v = self.rval(e['e'], fr)
                if isinstance(v, tuple) and v[0] == 'f':
                    return v
            raise Unsupported('%s used as a value without load' % canon(e))
        if k == 'addr':
            inner = e['e']
            while inner.get('k') in ('paren',):
                inner = inner['e']
            if inner.get('k') == 'var' and inner.get('vk') == 'func':
                return ('f', inner['name'])
            obj, off = self.lval(inner, fr)
            return ('p', obj, off)
        if k == 'cast':
            v = self.rval(e['e'], fr)
            to = e.get('to', '')
            if self.ty.clean(to) == 'void':
                return None
            if isinstance(v, int) and not self.ty.is_pointer(to):
                return self.ty.wrap(v, to)
            return v
        if k == 'un':
            v = self.rval(e['e'], fr)
            op = e['op']
            if op == '!':
                return int(not truth(v))
            if not isinstance(v, int):
                raise Fault('memory', 'unary %s applied to %s' % (op, self.show(v)))
            if op == '-':
                it = self.int_type(e)
                return -v if it is None else self.wrap_bits(-v, it)
            if op == '~':
                return ~v
            if op == '+':
                return v
            raise Unsupported('unary operator %s' % op)
        if k == 'bin':
            op = e['op']
            if op == '&&':
                return int(truth(self.rval(e['l'], fr)) and truth(self.rval(e['r'], fr)))
            if op == '||':
                return int(truth(self.rval(e['l'], fr)) or truth(self.rval(e['r'], fr)))
            a = self.rval(e['l'], fr)
            if op == ',':
                return self.rval(e['r'], fr)
            b = self.rval(e['r'], fr)
            if isinstance(a, int) and isinstance(b, int) and op not in ('<<', '>>'):
                ut = self.unsigned_of(e)
                if ut:
                    # usual arithmetic conversions (the facts drop the implicit integral casts)
                    a, b = self.ty.wrap(a, ut), self.ty.wrap(b, ut)
                    r = self.binop(op, a, b, e)
                    return r if op in ('==', '!=', '<', '>', '<=', '>=') else self.ty.wrap(r, ut)
            r = self.binop(op, a, b, e)
            if op in ('+', '-', '*') and isinstance(r, int) and isinstance(a, int) and isinstance(b, int):
                it = self.int_type(e)
                if it is not None:
                    # the operation is carried out in its C type: a result that does not fit wraps (two's complement)
                    r = self.wrap_bits(r, it)
            return r
        if k == 'cond':
            c = self.rval(e['c'], fr)
            if e.get('gnu'):
                return c if truth(c) else self.rval(e['b'], fr)
            return self.rval(e['a'] if truth(c) else e['b'], fr)
        if k == 'call':
            key = (e.get('callee'), e.get('loc'))
            if key in fr.calls and e.get('loc'):
                return fr.calls[key]
            return self.call_expr(e, fr)
        if k == 'incdec':
            obj, off = self.lval(e['e'], fr)
            cur = self.read(obj, off)
            if e['prefix']:
                return cur
            d = -1 if e['op'] == '++' else 1
            return self.step_value(cur, d, e['e'])
        if k == 'assign':
            obj, off = self.lval(e['l'], fr)
            return self.read(obj, off)
        if k in ('stmtexpr', 'paren'):
            if 'e' not in e:
                return None
            return self.rval(e['e'], fr)
        if k == 'str':
            return ('s', e.get('v'))
        if k == 'container_of':
            p = self.rval(e['e'], fr)
            if not is_ptr(p):
                raise Unsupported('container_of of %r' % (p,))
            off = 0
            rec = e['record']
            for part in e['member'].split('.'):
                f = self.ty.field(rec, part)
                off += f['offset']
                rec = f.get('record')
            return ('p', p[1], p[2] - off)
        if k == 'sizeof':
            a = e.get('arg') or {}
            return self.ty.sizeof(a.get('type'))
        raise Unsupported('expression %s (%s) is not interpreted' % (canon(e), k))

    def step_value(self, cur, d, lv_expr):
        if is_ptr(cur):
            return ('p', cur[1], cur[2] + d * self.ty.sizeof(self.ty.pointee(self.stype(lv_expr))))
        if not isinstance(cur, int):
            raise Unsupported('++/-- on %r' % (cur,))
        return cur + d

    def binop(self, op, a, b, e):
        pa, pb = is_ptr(a), is_ptr(b)
        if pa or pb:
            if op in ('==', '!='):
                return int((a == b) == (op == '=='))
            if op in ('+', '-') and (pa != pb):
                if op == '-' and pb:
                    raise Unsupported('integer - pointer')
                p, i = (a, b) if pa else (b, a)
                if not isinstance(i, int):
                    raise Unsupported('pointer arithmetic with %r' % (i,))
                pe = e['l'] if pa else e['r']
                sz = self.ty.sizeof(self.ty.pointee(self.stype(pe)))
                return ('p', p[1], p[2] + (i if op == '+' else -i) * sz)
            if pa and pb and a[1] is b[1]:
                if op == '-':
                    sz = self.ty.sizeof(self.ty.pointee(self.stype(e['l'])))
                    return (a[2] - b[2]) // sz
                if op in ('<', '>', '<=', '>='):
                    return int({'<': a[2] < b[2], '>': a[2] > b[2], '<=': a[2] <= b[2], '>=': a[2] >= b[2]}[op])
            # relational comparison of unrelated objects, pointer used in integer arithmetic: the evaluated code confuses types
            raise Fault('memory', 'operator %s applied to %s and %s in %s' % (op, self.show(a), self.show(b), canon(e)))
        if not (isinstance(a, int) and isinstance(b, int)):
            if op in ('==', '!='):
                return int((a == b) == (op == '=='))
            raise Unsupported('operator %s on %r, %r' % (op, a, b))
        if op == '+':
            return a + b
        if op == '-':
            return a - b
        if op == '*':
            return a * b
        if op in ('/', '%'):
            if b == 0:
                raise Fault('memory', 'division by zero in %s' % canon(e))
            q = abs(a) // abs(b)
            if (a < 0) != (b < 0):
                q = -q
            return q if op == '/' else a - q * b
        if op == '<<':
            if b < 0 or b > 63:
                raise Fault('memory', 'shift by %d in %s' % (b, canon(e)))
            return a << b
        if op == '>>':
            if b < 0 or b > 63:
                raise Fault('memory', 'shift by %d in %s' % (b, canon(e)))
            return a >> b
        if op == '&':
            return a & b
        if op == '|':
            return a | b
        if op == '^':
            return a ^ b
        if op == '==':
            return int(a == b)
        if op == '!=':
            return int(a != b)
        if op == '<':
            return int(a < b)
        if op == '>':
            return int(a > b)
        if op == '<=':
            return int(a <= b)
        if op == '>=':
            return int(a >= b)
        raise Unsupported('operator %s' % op)

    # -- calls ----------------------------------------------------------------
    def resolve(self, caller, name):
        key = (caller.unit if caller is not None else None, name)
        if key in self._fn:
            return self._fn[key]
        u = self.prog.unit_of(caller) if caller is not None else None
        f = self.prog.resolve(u, name) if u else self.prog.funcs.get(name)
        if f is None:
            c = [x for x in self.prog.funcs.values() if x.name == name]
            f = c[0] if len(c) == 1 else None
        if f is not None and not f.blocks:
            f = None
        self._fn[key] = f
        return f

    def call_expr(self, e, fr):
        args = [self.rval(a, fr) for a in e.get('args', [])]
        if 'callee' in e:
            return self.call_named(e['callee'], args, fr.fn, e)
        fp = self.rval(e['fnexpr'], fr)
        if isinstance(fp, tuple) and fp[0] == 'f':
            return self.call_named(fp[1], args, fr.fn, e)
        raise Unsupported('indirect call through %s' % canon(e['fnexpr']))

    def call_named(self, name, args, caller, e=None):
        if name in FATAL_CALLS or (e is not None and e.get('noreturn')):
            msg = args[0][1] if args and isinstance(args[0], tuple) and args[0][0] == 's' else ''
            raise Fault('fatal', '%s("%s") reached' % (name, msg))
        if name in STATE_CALLS:
            return self.state_ptr
        f = self.resolve(caller, name)
        if f is not None:
            return self.run(f, args)
        if name in ('calloc', 'malloc'):
            n = args[0] * args[1] if name == 'calloc' else args[0]
            if not isinstance(n, int) or n < 0:
                raise Unsupported('%s of %r bytes' % (name, n))
            return ('p', self.alloc(name, n, zero=(name == 'calloc'), heap=True, tag='heap'), 0)
        if name == 'free':
            p = args[0]
            if p == 0:
                return None
            if not is_ptr(p) or not p[1].heap or p[2] != 0:
                raise Fault('memory', 'free() of %s which is not the start of an allocated block' % (self.show(p),))
            if p[1].freed:
                raise Fault('memory', 'double free of %s' % p[1].name)
            p[1].freed = True
            if self.journal is not None:
                self.journal.append(('freed', p[1]))
            return None
        if name == 'memset':
            p, v, n = args[0], args[1], args[2]
            if not is_ptr(p) or v != 0 or not isinstance(n, int):
                raise Unsupported('memset(%r, %r, %r)' % (p, v, n))
            obj, off = p[1], p[2]
            self._chk(obj, off, 'write')
            if self.journal is not None:
                self.journal.append(('zr', obj, obj.zr))
            for o in [o for o in obj.cells if off <= o < off + n]:
                if self.journal is not None:
                    self.journal.append((obj, o, obj.cells[o]))
                del obj.cells[o]
            obj.zr = (obj.zr or []) + [(off, off + n)]
            return p
        if name == 'memcpy':
            d, s, n = args[0], args[1], args[2]
            if not (is_ptr(d) and is_ptr(s) and isinstance(n, int)):
                raise Unsupported('memcpy arguments')
            self.write(d[1], d[2], self.read_agg(s[1], s[2], n))
            return d
        if name == 'INIT_IV_LIST_HEAD':
            p = args[0]
            if not is_ptr(p):
                raise Fault('memory', 'INIT_IV_LIST_HEAD(%r)' % (p,))
            self.write(p[1], p[2] + self.ty.offset('iv_list_head', 'next'), p)
            self.write(p[1], p[2] + self.ty.offset('iv_list_head', 'prev'), p)
            return None
        if name in IGNORED_CALLS:
            return 0
        if name in ('__builtin_expect', '__builtin_expect_with_probability', '__builtin_assume_aligned'):
            return args[0]
        if name in ('__builtin_unreachable', '__builtin_trap'):
            raise Fault('fatal', '%s() reached' % name)
        if name in _INT_BUILTINS and args and all(isinstance(a, int) for a in args):
            return _INT_BUILTINS[name](*args)
        raise Unsupported('call of %s, which has no body in the facts and no model' % name)

    def rollback(self):
        """undo every memory effect since the journal was started"""
        j = self.journal
        while j:
            x = j.pop()
            if x[0] == 'freed':
                x[1].freed = False
            elif x[0] == 'zr':
                x[1].zr = x[2]
            elif x[2] is MISSING:
                x[0].cells.pop(x[1], None)
            else:
                x[0].cells[x[1]] = x[2]

    def show(self, v):
        if is_ptr(v):
            return '&%s+%d' % (v[1].name, v[2])
        return repr(v)

    # -- execution --------------------------------------------------------------
    def run(self, f, args):
        if getattr(f, '_d', None) is not None:
            f = f.pristine()
        self.depth += 1
        if self.depth > 60:
            self.depth -= 1
            raise Fault('hang', 'call depth exceeds 60 in %s' % f.name)
        try:
            return self._run(f, args)
        finally:
            self.depth -= 1

    def _run(self, f, args):
        fr = Frame(f)
        for p, a in zip(f.params, args):
            o = fr.vars[p['name']] = self.alloc(p['name'], None)
            if isinstance(a, Agg):
                for k2, x in a.cells.items():
                    o.cells[k2] = x
            else:
                if isinstance(a, int) and p.get('type'):
                    a = self.ty.wrap(a, p['type'])      # conversion of the argument to the parameter type
                o.cells[0] = a
        rt = _INT_TYPES.get(self.ty.clean(f.ret)) if isinstance(getattr(f, 'ret', None), str) else None
        b = f.entry
        blocks = f.blocks
        while True:
            blk = blocks[b]
            for e in blk.events:
                ev = e['ev']
                if ev == 'load':
                    continue
                self.steps += 1
                if self.steps > self.max_steps:
                    raise Fault('hang', 'no termination within %d evaluation steps (in %s)' % (self.max_steps, f.name))
                if ev == 'store':
                    self.do_store(e, fr)
                elif ev == 'call':
                    args2 = [self.rval(a, fr) for a in e.get('args', [])]
                    if 'callee' in e:
                        v = self.call_named(e['callee'], args2, f, e)
                    else:
                        fp = self.rval(e['fnexpr'], fr)
                        if not (isinstance(fp, tuple) and fp[0] == 'f'):
                            raise Unsupported('indirect call through %s' % canon(e['fnexpr']))
                        v = self.call_named(fp[1], args2, f, e)
                    fr.calls[(e.get('callee'), e.get('loc'))] = v
                elif ev == 'decl':
                    self.do_decl(e, fr)
                elif ev == 'ret':
                    if 'value' not in e:
                        return None
                    v = self.rval(e['value'], fr)
                    if rt is not None and isinstance(v, int):
                        v = self.ty.wrap(v, f.ret)          # conversion of the value to the return type
                    return v
            if blk.noreturn:
                raise Fault('fatal', 'a path that does not return was taken in %s' % f.name)
            succ = blk.succ
            if not succ:
                return None
            if len(succ) == 1:
                b = succ[0]
            else:
                term = blk.term or {}
                if term.get('cls') == 'SwitchStmt':
                    v = self.rval(term['cond'], fr)
                    cases = term.get('cases', [])
                    nxt = None
                    for i, c in enumerate(cases):
                        if c == v and i < len(succ):
                            nxt = succ[i]
                    if nxt is None:
                        for i, c in enumerate(cases):
                            if c == 'default' and i < len(succ):
                                nxt = succ[i]
                    if nxt is None:
                        raise Unsupported('switch without an arm for %r in %s' % (v, f.name))
                    b = nxt
                else:
                    c = term.get('cond')
                    if c is None:
                        live = [s for s in succ if s is not None]
                        if not live:
                            return None
                        b = live[0]
                    else:
                        if len(succ) != 2:
                            raise Unsupported('%d-way branch in %s' % (len(succ), f.name))
                        b = succ[0] if truth(self.rval(c, fr)) else succ[1]
            if b is None:
                raise Unsupported('edge to a block that the facts do not contain in %s' % f.name)
            self.steps += 1
            if self.steps > self.max_steps:
                raise Fault('hang', 'no termination within %d evaluation steps (in %s)' % (self.max_steps, f.name))

    def do_decl(self, e, fr):
        if e.get('static'):
            key = '%s:%s' % (fr.fn.q, e['name'])
            if key in self.globals:
                return
            o = self.globals[key] = self.alloc(key, self._size_or_none(e.get('type')), zero=True)
        else:
            o = fr.vars[e['name']] = self.alloc(e['name'], self._size_or_none(e.get('type')))
        if 'init' in e:
            init = e['init']
            if isinstance(init, dict) and init.get('k') == 'init':
                o.zero = True
                flds = init.get('fields')
                if flds:
                    for fn_, v in flds.items():
                        if isinstance(v, dict) and v.get('k') != 'init':
                            self.write(o, self.ty.offset(init.get('record'), fn_), self.rval(v, fr))
                elif init.get('elems'):
                    t = e.get('type', '')
                    if self.ty.is_array(t):
                        es = self.ty.sizeof(self.ty.pointee(t))
                        for i, v in enumerate(init['elems']):
                            if isinstance(v, dict) and v.get('k') != 'init':
                                self.write(o, i * es, self.rval(v, fr))
            else:
                v = self.rval(init, fr)
                if isinstance(v, int) and e.get('type'):
                    v = self.ty.wrap(v, e['type'])
                self.write(o, 0, v)

    def do_store(self, e, fr):
        op = e['op']
        lhs = e['lhs']
        obj, off = self.lval(lhs, fr)
        if op == '=':
            v = self.rval(e['rhs'], fr)
        elif op in ('++', '--'):
            v = self.step_value(self.read(obj, off), 1 if op == '++' else -1, lhs)
        else:
            cur = self.read(obj, off)
            r = self.rval(e['rhs'], fr)
            v = self.binop(op[:-1], cur, r, {'k': 'bin', 'op': op[:-1], 'l': lhs, 'r': e['rhs']})
        if isinstance(v, int):
            try:
                t = self.stype(lhs)
            except AnalysisBroken:
                t = None
            if t:
                v = self.ty.wrap(v, t)
        self.write(obj, off, v)


# -----------------------------------------------------------------------------
# the timer store: model of the representation (from the record layouts)
# -----------------------------------------------------------------------------

def key_of_rank(r):
    """expiry for an integer rank: lexicographic in (sec, nsec), with the nanosecond part
    ordered *against* the rank across second boundaries (rank 1 = (s, 900) < rank 2 = (s+1, 100))"""
    r += 20
    return (r // 2, 100 if r % 2 == 0 else 900)


class Store:
    """One library state with timers.  Slots are located by the documented layout:
    rat_depth levels of 2^bits-ary nodes above the leaves, leaf 0 embedded in the state."""

    def __init__(self, prog):
        self.prog = prog
        self.m = Machine(prog)
        ty = self.m.ty
        try:
            self.o_num = ty.offset('iv_state', 'num_timers')
            self.o_depth = ty.offset('iv_state', 'rat_depth')
            rn = ty.field('iv_state', 'ratnode')
            self.o_rat = rn['offset']
            self.o_root = self.o_rat + ty.offset(rn['record'], 'timer_root')
            self.o_leaf0 = self.o_rat + ty.offset(rn['record'], 'first_leaf')
            ch = ty.field('iv_timer_ratnode', 'child')
            self.fan = ch['bound']
            self.o_child = ch['offset']
            self.psz = ch['size'] // ch['bound']
            self.node_size = ty.sizeof('struct iv_timer_ratnode')
            self.o_index = ty.offset('iv_timer_', 'index')
            self.o_exp = ty.offset('iv_timer_', 'expires')
            self.o_sec = self.o_exp + ty.offset('timespec', 'tv_sec')
            self.o_nsec = self.o_exp + ty.offset('timespec', 'tv_nsec')
            self.timer_size = max(ty.sizeof('struct iv_timer'), ty.sizeof('struct iv_timer_'))
            self.state_size = ty.sizeof('struct iv_state')
        except AnalysisBroken as e:
            raise AnalysisBroken('timer store representation (iv_state.num_timers/rat_depth/ratnode, iv_timer_ratnode.child, '
                                 'iv_timer_.index/expires) not found in the facts: %s' % e)
        self.bits = self.fan.bit_length() - 1
        if self.fan != 1 << self.bits or self.bits < 1:
            raise AnalysisBroken('radix node fan-out %d is not a power of two' % self.fan)
        self.f_reg = prog.fn('iv_timer_register')
        self.f_unreg = prog.fn('iv_timer_unregister')
        # the per-thread initialiser of the store is internal: when it is gone (merged into its caller) the empty store
        # is set up from the layout (root pointer -> embedded first leaf)
        self.f_init = prog.fn('iv_timer_init') if prog.has_fn('iv_timer_init') else None
        self.f_tinit = prog.fn('IV_TIMER_INIT')
        for f in (self.f_reg, self.f_unreg, self.f_tinit):
            if f.static or not f.blocks:
                raise AnalysisBroken('%s is not an exported function with a body' % f.name)
        self.st = None
        self.key = {}
        self.nodes = {}

    # -- construction -----------------------------------------------------------
    def fresh(self):
        m = self.m
        m.steps = 0
        m.journal = None
        self.st = m.alloc('state', self.state_size, zero=True, tag='state')
        m.state_ptr = ('p', self.st, 0)
        self.key = {}
        self.nodes = {}
        if self.f_init is not None:
            self._eval(self.f_init, [m.state_ptr])
        else:
            self.st.cells[self.o_root] = ('p', self.st, self.o_leaf0)
        return self

    def _eval(self, f, args):
        try:
            return self.m.run(f, args)
        except Fault as x:
            raise AnalysisBroken('%s cannot be evaluated on a fresh object: %s' % (f.name, x))
        except AnalysisBroken:
            raise
        except Exception as x:
            raise AnalysisBroken('evaluator failed in %s: %s: %s' % (f.name, type(x).__name__, x))

    def timer(self, rank, name=None):
        t = self.m.alloc(name or ('T%s' % rank), self.timer_size, zero=True, tag='timer')
        sec, nsec = key_of_rank(rank)
        t.cells[self.o_sec] = sec
        t.cells[self.o_nsec] = nsec
        self._eval(self.f_tinit, [('p', t, 0)])
        self.key[t] = (sec, nsec)
        return t

    def depth_for(self, n):
        d = 0
        while n >= self.fan ** (d + 1):
            d += 1
        return d

    def _node(self, level, prefix, depth):
        key = (level, prefix)
        if key in self.nodes:
            return self.nodes[key]
        if level == 0 and prefix == 0:
            ptr = ('p', self.st, self.o_leaf0)
        else:
            ptr = ('p', self.m.alloc('node%d.%d' % (level, prefix), self.node_size, zero=True, heap=True, tag='heap'), 0)
        self.nodes[key] = ptr
        if level < depth:
            par = self._node(level + 1, prefix >> self.bits, depth)
            par[1].cells[par[2] + self.o_child + self.psz * (prefix & (self.fan - 1))] = ptr
        return ptr

    def build(self, ranks):
        """state whose heap holds, in slot k (1-based), a timer of rank ranks[k-1]"""
        self.fresh()
        n = len(ranks)
        d = self.depth_for(n)
        # the all-zero spine exists at every level (former roots); the root pointer shares storage with leaf 0
        for lvl in range(d, -1, -1):
            self._node(lvl, 0, d)
        ts = []
        for k in range(1, n + 1):
            t = self.m.alloc('T%d@%d' % (ranks[k - 1], k), self.timer_size, zero=True, tag='timer')
            t.cells[self.o_sec], t.cells[self.o_nsec] = self.key[t] = key_of_rank(ranks[k - 1])
            leaf = self._node(0, k >> self.bits, d)
            leaf[1].cells[leaf[2] + self.o_child + self.psz * (k & (self.fan - 1))] = ('p', t, 0)
            t.cells[self.o_index] = k
            ts.append(t)
        self.st.cells[self.o_root] = self._node(d, 0, d)
        self.st.cells[self.o_num] = n
        self.st.cells[self.o_depth] = d
        no = self.m.ty.records.get('iv_state')
        for f in (no or {}).get('fields', []):
            if f['name'] == 'numobjs':
                self.st.cells[f['offset']] = n
        return ts

    # -- observation ------------------------------------------------------------
    def num(self):
        return self.st.cells.get(self.o_num, 0)

    def depth(self):
        return self.st.cells.get(self.o_depth, 0)

    def slot_cell(self, k):
        """(object, offset) of heap slot k by the layout, or None when the tree does not reach it"""
        d = self.depth()
        p = self.st.cells.get(self.o_root, 0)
        if not isinstance(d, int) or d < 0 or d > 8:
            return None
        if k >> (self.bits * (d + 1)):
            return None
        for lvl in range(d, 0, -1):
            if not is_ptr(p) or p[1].freed:
                return None
            p = p[1].cells.get(p[2] + self.o_child + self.psz * ((k >> (self.bits * lvl)) & (self.fan - 1)), 0)
        if not is_ptr(p) or p[1].freed:
            return None
        return p[1], p[2] + self.o_child + self.psz * (k & (self.fan - 1))

    def slot(self, k):
        c = self.slot_cell(k)
        if c is None:
            return None
        v = c[0].cells.get(c[1], 0)
        if is_ptr(v) and v[2] == 0:
            return v[1]
        return None if v == 0 else v

    def array(self, n):
        """[None, slot 1, ..., slot n] (timer objects; None for NULL / unreachable slots), read leaf by leaf"""
        out = [None]
        fan = self.fan
        k = 1
        while k <= n:
            c = self.slot_cell(k)
            hi = min(n, (k | (fan - 1)))
            if c is None:
                out.extend([None] * (hi - k + 1))
            else:
                cells, base, psz = c[0].cells, c[1] - self.psz * (k & (fan - 1)), self.psz
                for i in range(k & (fan - 1), (hi & (fan - 1)) + 1):
                    v = cells.get(base + psz * i, 0)
                    out.append(v[1] if (type(v) is tuple and v[0] == 'p' and v[2] == 0) else (None if v == 0 else v))
            k = hi + 1
        return out

    def mark(self):
        """from here on memory effects of the evaluated code are journalled; rollback() restores this state"""
        self.m.journal = []

    def rollback(self):
        self.m.rollback()

    def index_of(self, t):
        return t.cells.get(self.o_index)

    def k(self, t):
        return self.key.get(t)

    # -- operations -------------------------------------------------------------
    def op(self, what, t, watch=None):
        """evaluate one public call; returns None or the Fault.  watch(obj) is called after every store
        into the state or a radix node."""
        m = self.m
        m.steps = 0
        if watch is not None:
            def hook(obj, off, v):
                if obj.tag in ('state', 'heap'):
                    watch()
            m.on_store = hook
        try:
            m.run(self.f_reg if what == 'register' else self.f_unreg, [('p', t, 0)])
            return None
        except Fault as f:
            return f
        except AnalysisBroken:
            raise
        except RecursionError:
            return Fault('hang', 'evaluation recursed beyond the interpreter stack')
        except Exception as x:      # a gap of the evaluator must not pass for a verdict
            raise AnalysisBroken('evaluator failed on %s: %s: %s' % (what, type(x).__name__, x))
        finally:
            m.on_store = None


def heaps(n):
    """all arrangements of ranks 0..n-1 in slots 1..n that satisfy the heap order"""
    out = []
    a = [None] * (n + 1)

    def rec(k, free):
        if k > n:
            out.append(a[1:])
            return
        for r in sorted(free):
            if k > 1 and a[k // 2] > r:
                continue
            a[k] = r
            rec(k + 1, free - {r})
    rec(1, frozenset(range(n)))
    return out


def is_ancestor(a, b):
    """slot a is a proper ancestor of slot b"""
    while b > a:
        b >>= 1
        if b == a:
            return True
    return False


# -----------------------------------------------------------------------------
# comparison functions by role
# -----------------------------------------------------------------------------

def verdict_text(v):
    return {1: 'positive', 0: 'zero', -1: 'negative'}.get(v, str(v))


def compare_verdict(prog, f, a, b, m=None):
    """sign of f(&A, &B) for two timespec objects holding a = (sec, nsec) and b; Fault when the evaluated code misbehaves"""
    m = m or Machine(prog)
    ty = m.ty
    size = ty.sizeof('struct timespec')
    o_sec, o_nsec = ty.offset('timespec', 'tv_sec'), ty.offset('timespec', 'tv_nsec')
    ptrs = []
    for nm, k in (('A', a), ('B', b)):
        o = m.alloc(nm, size, zero=True)
        o.cells[o_sec], o.cells[o_nsec] = k
        ptrs.append(('p', o, 0))
    m.steps = 0
    try:
        v = m.run(f, ptrs)
    except (Fault, AnalysisBroken):
        raise
    except RecursionError:
        raise Fault('hang', 'evaluation recursed beyond the interpreter stack')
    except Exception as x:
        raise AnalysisBroken('evaluator failed on %s: %s: %s' % (f.name, type(x).__name__, x))
    if not isinstance(v, int):
        raise Fault('memory', '%s returns %r' % (f.name, v))
    return (v > 0) - (v < 0)


def timespec_comparators(prog):
    """[(function, {(order of tv_sec, order of tv_nsec): sign of the verdict})] of the functions that by role compare two
    times: they take exactly two pointers to struct timespec, return an integer, and on small keys (three magnitudes) their
    verdict depends only on how the two seconds and the two nanoseconds are ordered (and is not constant)."""
    ty = Types(prog)
    out = []
    val = {'<': (5, 7), '=': (6, 6), '>': (7, 5)}
    for f in prog.all_funcs():
        ps = f.params
        if len(ps) != 2 or not f.blocks or not isinstance(f.ret, str) or ty.clean(f.ret) not in _INT_TYPES:
            continue
        if not all(p.get('ptr') and p.get('record') == 'timespec' and ty.clean(ty.pointee(p.get('type', ''))) == 'struct timespec' for p in ps):
            continue
        m = Machine(prog)
        table = {}
        role = True
        for so in '<=>':
            for no in '<=>':
                seen = set()
                for (base, mul, nmul) in ((0, 1, 100), (1000, 1, 1000), (0, 3, 70000000)):
                    a = (base + mul * val[so][0], nmul * val[no][0])
                    b = (base + mul * val[so][1], nmul * val[no][1])
                    try:
                        seen.add(compare_verdict(prog, f, a, b, m))
                    except Fault:
                        seen.add('fault')
                if len(seen) != 1 or 'fault' in seen:
                    role = False
                table[(so, no)] = next(iter(seen))
        if role and len(set(table.values())) > 1:
            out.append((f, table))
    return sorted(out, key=lambda x: x[0].q)
