"""C17 -- iv_fd_pump relays the byte stream intact and reports its state truthfully.

Formulation (see REPORT-C17.md).  The three public entry points of the pump
(iv_fd_pump_pump, iv_fd_pump_init, iv_fd_pump_destroy, plus iv_fd_pump_is_done) are evaluated
with every static helper inlined (core.Inliner) by the path evaluator of h17.py:

  * for every abstract pump state that satisfies the pump's invariant (buffered byte count
    0 / some / buffer capacity, full flag, end-of-file stage 0/1/2, RELAY_EOF requested or not,
    buffer attached iff bytes are buffered) and
  * for every outcome of the transfer system calls (EINTR, EAGAIN, hard error, 0, partial,
    complete) in both transfer modes (read/write and splice)

every path through the entry point is walked.  What the path *does* -- the sequence of
observable effects: input transfer, output transfer, memmove, shutdown, set_bands, buffer
cached / freed, the return value and the pump fields at return -- is replayed against the
reference state machine of the property (a ghost state: true fill level, full, stage).  Each
rule is a relation between the effects and the ghost state, so the rules do not depend on how
the code is cut into helpers, on what locals cache, on the order of independent stores, on
loop or branch shape, or on the names of static functions, locals and internal globals.

The transfer mode is identified by role: the file-scope cell (a plain variable, a member of a record that
groups the module's settings, or a pointer to the current operations record) whose value separates the
paths that splice from the paths that read/write.  The two ends of a buffer's pipe are identified by what
pipe() returned (element 0 read end, element 1 write end) and by the cells of the buffer object in which
the allocating paths keep them, not by the layout of the buffer record.  Transfers reached through
function pointers (tables indexed by the mode, operations records, locals) are followed by value.

Anchors: the exported functions, the public record iv_fd_pump (fields bytes, full, saw_fin,
buf, flags, from_fd, to_fd, set_bands), and the libc/ivykis primitives read, write, splice,
shutdown, memmove/memcpy, ioctl, malloc/calloc, free, iv_list_add[_tail].

Byte-stream equality itself is a value property over all chunkings: it is decided here only
through its necessary conditions (append at the fill level, send from the base, compact the
remainder, account every transferred byte, never cache a non-empty pipe).
"""
import errno as _errno

from ..core import AnalysisBroken
from .. import roles
from .h17 import Machine, St, Sym, INF, is_ptr, show_val

REC = 'iv_fd_pump'
EINTR, EAGAIN, EIO = _errno.EINTR, _errno.EAGAIN, _errno.EIO
ERRNAME = {EINTR: 'EINTR', EAGAIN: 'EAGAIN', EIO: 'EIO'}
LIST_INSERT = ('iv_list_add', 'iv_list_add_tail')
MOVE = ('memmove', 'memcpy', '__builtin_memmove', '__builtin_memcpy', '__memmove_chk', '__memcpy_chk')
PARTIAL = 7           # a fill level strictly between empty and full

TEXT = {
    'shutdown-after-drain': 'shutdown() of the output happens only when end-of-file was seen and no byte is left in the buffer',
    'shutdown-output-when-requested': 'the descriptor shut down is to_fd, for writing, exactly once at the transition to the final stage and only when RELAY_EOF was requested',
    'final-stage-after-drain': 'the final stage is entered only after end-of-file was seen and the buffer drained',
    'eof-seen-on-zero-return': 'the stage leaves 0 exactly when the input transfer returned 0',
    'finishes-when-drained': 'once end-of-file was seen and the buffer is empty the stage is final (the pump reports completion)',
    'stage-domain': 'the stage at return is 0, 1 or 2 and the dispatch never falls into iv_fatal from a state satisfying the invariant',
    'error-return-iff-transfer-failed': '-1 is returned exactly when a transfer failed hard (or no buffer could be obtained); otherwise 0 or 1',
    'input-only-with-room-before-eof': 'an input transfer is attempted only while the buffer has room and no end-of-file was seen',
    'input-attempted-when-wanted': 'with room and before end-of-file the input transfer is attempted',
    'output-only-with-data': 'an output transfer is attempted only with buffered data',
    'output-attempted-when-data': 'buffered data is offered to the output in the same call',
    'full-cleared-when-data-left': 'after output progress the full flag equals the true state (cleared: input is wanted again)',
    'full-set-when-no-room': 'the full flag equals the true state: set when the read filled the buffer / the pipe refused input that is pending, unchanged otherwise',
    'read:offset+length==BUF_SIZE': 'read() appends at the fill level of the attached buffer and its length is capacity minus fill level (>= 1)',
    'alloc>=offset+BUF_SIZE': 'the read/write mode allocation covers the data area offset plus the capacity',
    'write:length-is-bytes-from-base': 'write() sends exactly the buffered bytes from the base of the data area to to_fd',
    'write:remainder-compacted': 'after a partial write the unsent remainder is moved to the base of the data area before the next transfer or return',
    'splice:pipe-ends': 'splice moves from_fd -> write end and read end -> to_fd of the attached buffer\'s pipe',
    'bytes-accounting': 'the bytes field at return is the old value plus what the input transfer returned minus what the output transfer returned',
    'buffer-release': 'the buffer stays attached exactly while bytes are buffered; a detached buffer was cached or freed exactly once',
    'init:state-and-bands': 'iv_fd_pump_init leaves (buf, bytes, full, stage) = (NULL, 0, 0, 0) and then requests input only',
    'destroy:bands-cleared': 'iv_fd_pump_destroy withdraws the requested bands unless the pump had finished',
    'destroy:buffer-released': 'iv_fd_pump_destroy detaches the buffer and caches or frees it exactly once',
    'is_done:reports-final-stage': 'iv_fd_pump_is_done is true exactly at the final stage',
}


def run(ctx):
    ctx.rule('R-C17a', 'EOF is relayed only after the buffer drained: over all abstract states and transfer outcomes, shutdown(to_fd) and the '
                       'final stage happen only with EOF seen and a true fill level of 0, EOF is recorded exactly on a 0 return of the input '
                       'transfer, and the final stage is reached as soon as both hold', floor=5)
    ctx.rule('R-C17b', 'return code and bands are a function of the true state at return: input is wanted iff stage 0 and not full, output iff '
                       'data is buffered, set_bands is called once after the last transfer, the call returns 0 exactly at the final stage and -1 '
                       'exactly on a hard transfer failure; init/destroy/is_done agree with that state machine', floor=10)
    ctx.rule('R-C17c', 'input is attempted exactly with room and before EOF, output exactly with data; the full flag tracks the true state '
                       '(cleared whenever data left the buffer)', floor=6)
    ctx.rule('R-C17d', 'bounded, loss-free transfer: read appends at the fill level with length capacity-fill inside the allocation, write sends '
                       'the buffered bytes from the base, the remainder is compacted, the byte count changes only by what was transferred, a '
                       'buffer (in splice mode: a kernel pipe) is detached exactly when empty and is never cached while it holds bytes', floor=9)
    ctx.section(pump_machine)
    ctx.section(lifecycle)


# --------------------------------------------------------------------------------------
# result bookkeeping: one obligation per (rule, instance), true iff true on every evaluated path
# --------------------------------------------------------------------------------------

class Results(object):
    def __init__(self):
        self.items = {}
        self.order = []

    def check(self, rule, inst, ok, detail='', loc=None, fn=None, tail=None):
        k = (rule, inst)
        it = self.items.get(k)
        if it is None:
            it = self.items[k] = dict(ok=True, n=0, detail=None, loc=None, okloc=None, fn=fn)
            self.order.append(k)
        it['n'] += 1
        if ok:
            if it['okloc'] is None and loc:
                it['okloc'] = loc
        elif it['ok']:
            it['ok'] = False
            it['detail'] = detail + (tail() if tail else '')
            it['loc'] = loc

    def emit(self, ctx, fallback_loc, fn):
        for (rule, inst) in self.order:
            it = self.items[(rule, inst)]
            base = TEXT.get(inst)
            if base is None and inst.endswith(':buffer-cached-only-empty'):
                base = 'a buffer enters the per-thread cache in splice mode only when its pipe holds no bytes (true fill level 0, not the field)'
            if base is None and inst.startswith('state('):
                base = 'at this state at return set_bands was called once, after the last transfer, with (stage==0 && !full, bytes!=0), and the return value is 0 iff stage 2'
            if it['ok']:
                detail = '%s [%d path evaluations]' % (base, it['n'])
            else:
                detail = '%s -- VIOLATED: %s' % (base, it['detail'])
            ctx.ob(rule, inst, it['ok'], loc=(it['loc'] if not it['ok'] else it['okloc']) or fallback_loc, detail=detail, fn=it['fn'] or fn)


# --------------------------------------------------------------------------------------
# the harness: seeds the pump object, models the environment, records observable effects
# --------------------------------------------------------------------------------------

class Scenario(object):
    __slots__ = ('bytes', 'full', 'stage', 'flags', 'hasbuf')

    def __init__(self, bytes_, full, stage, flags, hasbuf):
        self.bytes, self.full, self.stage, self.flags, self.hasbuf = bytes_, full, stage, flags, hasbuf

    def __str__(self):
        return 'state at entry: bytes=%s full=%s stage=%s %s buffer %s' % (
            self.bytes, self.full, self.stage, 'RELAY_EOF' if self.flags else 'no-RELAY_EOF', 'attached' if self.hasbuf else 'absent')


class Harness(object):
    def __init__(self, prog, rootname, seed_fields=True):
        self.prog = prog
        f = prog.fn(rootname)
        if f.static or not f.blocks:
            raise AnalysisBroken('%s is not an exported function with a body' % rootname)
        self.root = f
        ps = [p for p in f.params if p.get('record') == REC and p.get('ptr')]
        if len(ps) != 1:
            raise AnalysisBroken('%s: no single struct iv_fd_pump * parameter' % rootname)
        self.ipname = ps[0]['name']
        self.g = roles.inlined(prog, f, depth=16)
        self.m = Machine(prog, self.g, call_model=self.call_model, on_store=self.on_store)
        self.IP = Sym(('param', self.ipname))
        self.OBJ = ('obj', self.IP)
        self.BUF = Sym(('seed', 'attached buffer'))
        self.pipe_bases = set()     # byte offsets (inside the buffer object) of the arrays handed to pipe()/pipe2
        self.pipe_ends = {}         # 'in' / 'out' -> byte offset of the descriptor the splice uses
        self.made_ends = {}         # 'r' / 'w' -> byte offsets (inside the buffer object) of the cells that hold the read /
                                    # write descriptor of a pipe created during the call (learnt from the paths that allocate)

    def F(self, name):
        return ('fld', self.OBJ, REC, name)

    def initial(self, sc):
        st = St()
        m = self.m
        m.poke(st, ('var', self.ipname), self.IP)
        st.cons[self.IP] = (1, INF, frozenset())
        if sc is not None:
            m.poke(st, self.F('bytes'), sc.bytes)
            m.poke(st, self.F('full'), sc.full)
            m.poke(st, self.F('saw_fin'), sc.stage)
            m.poke(st, self.F('flags'), sc.flags)
            m.poke(st, self.F('buf'), self.BUF if sc.hasbuf else 0)
            st.cons[self.BUF] = (1, INF, frozenset())
        return st

    @staticmethod
    def settled(st, v):
        """the integer an opaque value is known to equal on this path (a helper's result that the path decided to be NULL
        and stored into the pump is NULL), else the value itself"""
        if isinstance(v, Sym):
            lo, hi, _ = st.rng(v)
            if lo == hi:
                return lo
        return v

    def fields(self, st):
        return tuple(self.settled(st, self.m.peek(st, self.F(n))) for n in ('bytes', 'full', 'saw_fin', 'buf'))

    def explore(self, sc):
        return self.m.explore(self.initial(sc))

    # -- environment -------------------------------------------------------
    def eff(self, st, kind, e, **kw):
        d = dict(kind=kind, e=e, fields=self.fields(st))
        d.update(kw)
        st.effects.append(d)
        return d

    def call_model(self, m, st, e, callee, fv, args, target=None):
        fromfd = m.read(st, self.F('from_fd'))
        tofd = m.read(st, self.F('to_fd'))
        if callee == 'read' and len(args) == 3 and args[0] is fromfd:
            return self.transfer(st, e, 'in', 'rw', args[2], fd=args[0], ptr=args[1])
        if callee == 'write' and len(args) == 3 and args[0] is tofd:
            return self.transfer(st, e, 'out', 'rw', args[2], fd=args[0], ptr=args[1])
        if callee == 'splice' and len(args) == 6:
            if args[0] is fromfd:
                return self.transfer(st, e, 'in', 'splice', args[4], fd=args[0], pipe=args[2])
            if args[2] is tofd:
                return self.transfer(st, e, 'out', 'splice', args[4], fd=args[2], pipe=args[0])
        if callee in ('read', 'write', 'splice', 'recv', 'send', 'readv', 'writev', 'sendfile', 'tee'):
            if any(a is fromfd or a is tofd for a in args):
                self.eff(st, 'stray', e, callee=callee)
        if callee == 'shutdown' and len(args) == 2:
            self.eff(st, 'shutdown', e, fd=args[0], how=args[1], is_to=args[0] is tofd)
            return None
        if callee in MOVE and len(args) >= 3:
            self.eff(st, 'move', e, dst=args[0], src=args[1], n=args[2], overlap_safe='memmove' in callee)
            return None
        if callee == 'ioctl' and len(args) >= 3 and args[0] is fromfd and is_ptr(args[2]):
            out = []
            for v in (0, 9):
                s2 = st.fork()
                m.write(s2, m.deref(args[2]), v)
                m.set_result(s2, e, 0)
                self.eff(s2, 'pending', e, value=v)
                out.append(s2)
            return out
        if callee in ('malloc', 'calloc') and args:
            size = args[0]
            if callee == 'calloc' and len(args) == 2:
                size = m.arith('*', args[0], args[1])
            v = Sym(('alloc', size, e.get('loc')))
            m.set_result(st, e, v)
            return [st]
        if callee in ('pipe', 'pipe2', 'syscall'):
            for a in args:
                if is_ptr(a):
                    ad = m.byteaddr(a)
                    if ad is not None and ad[0][0] == 'obj':
                        self.pipe_bases.add(ad[1])
                    # the two descriptors the kernel hands out: element 0 is the read end, element 1 the write end,
                    # wherever the caller keeps them afterwards
                    isz = m.sizeof_type('int')
                    m.write(st, m.deref(a), Sym(('pipe', 'r', e.get('loc'))))
                    m.write(st, m.deref(m.padd(a, 1, isz)), Sym(('pipe', 'w', e.get('loc'))))
                    m.set_result(st, e, Sym(('call', callee, e.get('loc'))))
                    return [st]
            return None
        if callee == 'free' and len(args) == 1:
            self.eff(st, 'free', e, ptr=args[0])
            return None
        if callee in LIST_INSERT and len(args) == 2:
            self.eff(st, 'listadd', e, node=args[0], head=args[1])
            m.set_result(st, e, 0)
            return [st]
        if callee == '__errno_location':
            m.set_result(st, e, ('ptr', ('errno',), 0))
            return [st]
        if fv is not None and fv is m.read(st, self.F('set_bands')):
            self.eff(st, 'bands', e, args=tuple(args[1:3]), cookie_ok=bool(args) and args[0] is m.read(st, self.F('cookie')))
            m.set_result(st, e, 0)
            return [st]
        for a in args:
            ad = m.byteaddr(a) if (is_ptr(a) or a is self.IP) else None
            if ad is not None and ad[0] == self.OBJ:
                if target is not None:
                    return 'enter'      # a function with a body (reached by value or not inlined): evaluated in its own frame
                raise AnalysisBroken('%s: the pump object is passed to %s, which is not inlined' % (self.root.name, callee or 'an indirect call'))
        return None

    def pipe_cell(self, st, v):
        """(which end a pipe() of this call produced it as: 'r' / 'w' / None, buffer object root, byte offset of the cell
        the descriptor value lives in) for the pipe descriptor a splice uses"""
        m = self.m
        if not isinstance(v, Sym) or not isinstance(v.origin, tuple) or not v.origin:
            return (None, None, None)
        # where a buffer allocated during this call keeps the two descriptors pipe() handed out
        hit = None
        for k, val in st.mem.items():
            if isinstance(val, Sym) and isinstance(val.origin, tuple) and val.origin and val.origin[0] == 'pipe' \
                    and k[0] == 'mem' and k[1][0] == 'obj':
                self.made_ends.setdefault(val.origin[1], set()).add(k[2])
                if val is v:
                    hit = (v.origin[1], k[1], k[2])
        if v.origin[0] == 'pipe':
            return hit or (v.origin[1], None, None)
        if v.origin[0] in ('idx', 'at', 'fld'):
            a = m.locaddr(v.origin)
            if a is not None and a[0][0] == 'obj':
                return (None, a[0], a[1])
        return (None, None, None)

    def transfer(self, st, e, kind, mode, n, **kw):
        if 'pipe' in kw:
            kw['pipe_cell'] = self.pipe_cell(st, kw['pipe'])
        if isinstance(n, int):
            if n < 1:
                rs = []
            elif kind == 'in' and mode == 'rw':
                rs = sorted({max(1, n // 3), n})
            elif kind == 'in':
                rs = [min(5, n)]
            else:
                rs = sorted({max(1, n // 2), n})
        else:
            rs = [5]
        outcomes = [(-1, EAGAIN), (-1, EIO), (0, None)] + [(r, None) for r in rs]
        used = st.marks.get('eintr', frozenset())
        if kind not in used:
            outcomes.insert(0, (-1, EINTR))
        out = []
        for r, en in outcomes:
            s2 = st.fork()
            if en == EINTR:
                s2.marks['eintr'] = used | {kind}
            if en is not None:
                self.m.poke(s2, ('errno',), en)
            self.m.set_result(s2, e, r)
            self.eff(s2, kind, e, mode=mode, n=n, r=r, errno=en, **kw)
            out.append(s2)
        return out

    def on_store(self, m, st, e, L, v):
        """a pointer to (into) an object stored somewhere that is neither a local nor the pump: the object escapes"""
        root = m.root_of(L)
        if root == self.OBJ:
            if L[0] == 'fld' and L[1] == self.OBJ:
                st.marks[('w', L[3])] = e.get('loc')
            return
        if root[0] == 'var' and (m.is_frame_local(root) or root[1] not in m.globals):
            return
        if root[0] in ('tmp', 'errno'):
            return
        a = None
        if is_ptr(v):
            a = m.byteaddr(v)
            if a is None:
                a = (m.root_of(v[1]), None)
        elif isinstance(v, Sym) or (isinstance(v, tuple) and v and v[0] == 'op'):
            a = (('obj', v), 0)
        if a is None or a[0][0] != 'obj':
            return
        if root == a[0]:
            return
        self.eff(st, 'escape', e, objroot=a[0], target=root)

    # -- path facts ----------------------------------------------------------
    def global_cells(self, st):
        """memory keys of the cells of file-scope objects (plain variables and members of grouped globals alike) that the
        path has read or written"""
        gl = self.m.globals
        return [k for k in st.mem if k[0] == 'mem' and k[1][0] == 'var' and len(k[1]) == 2 and k[1][1] in gl]

    def truth_of_cell(self, st, key):
        """what the path knows about a file-scope cell, as far as a mode decision can depend on it: zero / non-zero for
        an integer, the designated object for a pointer constant (an operations record selected at start-up)"""
        v = st.mem.get(key)
        if v is None:
            return None
        if isinstance(v, int):
            return v != 0
        if isinstance(v, Sym):
            return st.decide('!=', v, 0)
        if isinstance(v, tuple) and v and v[0] in ('ptr', 'func'):
            return v
        return None

    def describe(self, sc, st, end):
        parts = []
        for f in st.effects:
            k = f['kind']
            if k in ('in', 'out'):
                fnm = {('in', 'rw'): 'read', ('out', 'rw'): 'write', ('in', 'splice'): 'splice-in', ('out', 'splice'): 'splice-out'}[(k, f['mode'])]
                parts.append('%s(len %s) -> %s%s' % (fnm, show_val(f['n']), f['r'], (' ' + ERRNAME.get(f['errno'], str(f['errno']))) if f['errno'] else ''))
            elif k == 'bands':
                parts.append('set_bands(%s)' % ', '.join(show_val(x) for x in f['args']))
            elif k == 'pending':
                parts.append('FIONREAD -> %d' % f['value'])
            elif k == 'move':
                parts.append('memmove(n=%s)' % show_val(f['n']))
            elif k == 'listadd':
                parts.append('cached')
            elif k == 'escape':
                pass
            else:
                parts.append(k)
        b, fu, s, bf = self.fields(st)
        tail = 'return %s' % (show_val(st.marks.get('ret')),) if end == 'ret' else end
        return '%s; path: %s; %s with bytes=%s full=%s stage=%s buf=%s' % (
            sc if sc is not None else 'any state', ' ; '.join(parts) or '(no effects)', tail, show_val(b), show_val(fu), show_val(s),
            'NULL' if (isinstance(bf, int) and bf == 0) else 'attached')


def invariant_states(K):
    """abstract pump states satisfying the invariant of the state machine:
       buffer attached <=> bytes > 0;  stage 1 => bytes > 0;  stage 2 => bytes == 0;  full => bytes > 0 and stage 0
       (read/write mode additionally full <=> bytes == capacity: decided per path once the mode is known)"""
    out = []
    levels = [0, PARTIAL] + ([K] if K and K not in (0, PARTIAL) else [])
    for flags in (0, -1):
        for b in levels:
            if b == 0:
                for stage in (0, 2):
                    out.append(Scenario(0, 0, stage, flags, False))
            else:
                out.append(Scenario(b, 0, 0, flags, True))
                out.append(Scenario(b, 1, 0, flags, True))
                out.append(Scenario(b, 0, 1, flags, True))
    return out


def rw_invariant_ok(sc, K):
    return (sc.full == 1) == (K is not None and sc.bytes == K)


def transfer_modes(st):
    return {f['mode'] for f in st.effects if f['kind'] in ('in', 'out')}


# --------------------------------------------------------------------------------------
# the rules
# --------------------------------------------------------------------------------------

_SHARED = {}


def _require(R, required, what):
    have = {inst for (_, inst) in R.items}
    missing = [r for r in required if r not in have]
    if missing and all(it['ok'] for it in R.items.values()):
        raise AnalysisBroken('%s: no path evaluates %s (anchor vanished)' % (what, ', '.join(missing)))


def pump_machine(ctx):
    """iv_fd_pump_pump over every invariant state and every transfer outcome"""
    prog = ctx.prog
    _SHARED.pop(id(prog), None)
    R = Results()
    H = Harness(prog, 'iv_fd_pump_pump')

    # capacity: the length of the first read() into an empty buffer
    first = Scenario(0, 0, 0, 0, False)
    first_paths = H.explore(first)
    K = None
    anyin = False
    for end, st in first_paths:
        for f in st.effects:
            if f['kind'] == 'in':
                anyin = True
                if f['mode'] == 'rw' and isinstance(f['n'], int) and K is None:
                    K = f['n']
                break
    if not anyin:
        raise AnalysisBroken('iv_fd_pump_pump: no input transfer (read/splice from from_fd) is reachable from the empty initial state')
    scs = [first] + [s for s in invariant_states(K) if not (s.bytes == 0 and s.stage == 0 and s.flags == 0)]
    allpaths = []
    for sc in scs:
        paths = first_paths if sc is first else H.explore(sc)
        for end, st in paths:
            allpaths.append((sc, end, st))

    # which internal global selects the transfer mode (role: its truth separates splice paths from read/write paths)
    gsel = mode_global(H, allpaths)
    have_splice = any('splice' in transfer_modes(st) for (_, _, st) in allpaths)
    have_rw = any('rw' in transfer_modes(st) for (_, _, st) in allpaths)

    def path_mode(H_, st):
        ms = transfer_modes(st)
        if len(ms) == 1:
            return next(iter(ms))
        if len(ms) > 1:
            return 'mixed'
        if not have_splice:
            return 'rw'
        if not have_rw:
            return 'splice'
        if gsel is not None:
            t = H_.truth_of_cell(st, gsel[0])
            if t is not None:
                if t in gsel[1]:
                    return 'splice'
                if t in gsel[2]:
                    return 'rw'
        return None

    _SHARED[id(prog)] = dict(K=K, path_mode=path_mode)
    npaths = 0
    try:
        for (sc, end, st) in allpaths:
            mode = path_mode(H, st)
            if mode == 'rw' and not rw_invariant_ok(sc, K):
                continue
            npaths += 1
            judge_pump(H, R, sc, end, st, mode, K)
    finally:
        R.emit(ctx, H.root.loc, H.root.q)
    ctx.note('iv_fd_pump_pump: %d abstract states, %d paths judged, capacity %s, mode cell %s, pipe ends made at %s' % (len(scs), npaths, K, gsel, H.made_ends))
    required = ['shutdown-after-drain', 'shutdown-output-when-requested', 'final-stage-after-drain', 'eof-seen-on-zero-return',
                'finishes-when-drained', 'stage-domain', 'error-return-iff-transfer-failed', 'input-only-with-room-before-eof',
                'input-attempted-when-wanted', 'output-only-with-data', 'output-attempted-when-data', 'full-cleared-when-data-left',
                'full-set-when-no-room', 'bytes-accounting', 'buffer-release', 'iv_fd_pump_pump:buffer-cached-only-empty',
                'state(stage=0,full=0,data=0)', 'state(stage=0,full=0,data=1)', 'state(stage=0,full=1,data=1)',
                'state(stage=1,full=0,data=1)', 'state(stage=2,full=0,data=0)']
    if have_rw:
        required += ['read:offset+length==BUF_SIZE', 'alloc>=offset+BUF_SIZE', 'write:length-is-bytes-from-base', 'write:remainder-compacted']
    if have_splice:
        required += ['splice:pipe-ends']
    _require(R, required, 'iv_fd_pump_pump')


def lifecycle(ctx):
    """iv_fd_pump_destroy, iv_fd_pump_init and iv_fd_pump_is_done against the same state machine"""
    prog = ctx.prog
    sh = _SHARED.get(id(prog))
    if sh is None:
        raise AnalysisBroken('the analysis of iv_fd_pump_pump (capacity, transfer mode) is not available')
    K, path_mode = sh['K'], sh['path_mode']
    R = Results()
    D = Harness(prog, 'iv_fd_pump_destroy')
    try:
        for sc in invariant_states(K):
            for end, st in D.explore(sc):
                mode = path_mode(D, st)
                if mode == 'rw' and not rw_invariant_ok(sc, K):
                    continue
                judge_destroy(D, R, sc, end, st, mode)
        I = Harness(prog, 'iv_fd_pump_init')
        for end, st in I.explore(None):
            judge_init(I, R, end, st)
        Q = Harness(prog, 'iv_fd_pump_is_done')
        for stage in (0, 1, 2):
            sc = Scenario(PARTIAL if stage == 1 else 0, 0, stage, 0, stage == 1)
            for end, st in Q.explore(sc):
                rv = st.marks.get('ret')
                R.check('R-C17b', 'is_done:reports-final-stage', end == 'ret' and isinstance(rv, int) and (rv != 0) == (stage == 2),
                        detail='stage %d: returns %s' % (stage, show_val(rv)), loc=Q.root.loc, fn=Q.root.q)
    finally:
        R.emit(ctx, D.root.loc, D.root.q)
    _require(R, ['init:state-and-bands', 'destroy:bands-cleared', 'destroy:buffer-released', 'iv_fd_pump_destroy:buffer-cached-only-empty',
                 'is_done:reports-final-stage'], 'iv_fd_pump_init/destroy/is_done')


def mode_global(H, allpaths):
    """(memory cell, values that mean splice, values that mean read/write) of the file-scope cell -- a plain variable or a member of a record that
    groups the module's globals -- whose value separates the splice paths from the read/write paths of the pump; None
    when there is only one mode or no single such cell"""
    sp = [st for (_, _, st) in allpaths if transfer_modes(st) == {'splice'}]
    rw = [st for (_, _, st) in allpaths if transfer_modes(st) == {'rw'}]
    if not sp or not rw:
        return None
    keys = set(H.global_cells(sp[0]))
    cands = []
    for key in sorted(keys, key=repr):
        ts = {H.truth_of_cell(st, key) for st in sp}
        tr = {H.truth_of_cell(st, key) for st in rw}
        if ts and tr and None not in ts and None not in tr and not (ts & tr):
            cands.append((key, frozenset(ts), frozenset(tr)))
    return cands[0] if len(cands) == 1 else None


def pipe_end(H, f, which):
    """(buffer object root, ok) for the pipe descriptor used by a splice.  The input splice must write to the
    descriptor that pipe() returned as the write end (element 1), the output splice must read from the read end
    (element 0).  For a pipe created during the call that is the identity of the value; for a buffer that was attached
    or came from the cache, the descriptor must be read from the very cell of the buffer object in which the allocating
    paths keep that end, whatever the layout of the buffer record.  Only when no path shows the creation of the pipe:
    both ends are the same cells on every path and the write end lives one int above the read end."""
    m = H.m
    want, other_end = ('w', 'r') if which == 'in' else ('r', 'w')
    made, root, off = f.get('pipe_cell') or (None, None, None)
    if made is not None:
        return root, made == want
    if root is None:
        return None, False
    if H.made_ends.get(want) or H.made_ends.get(other_end):
        return root, off in H.made_ends.get(want, ()) and off not in H.made_ends.get(other_end, ())
    H.pipe_ends.setdefault(which, off)
    ok = H.pipe_ends[which] == off
    isz = m.sizeof_type('int')
    if H.pipe_bases:
        ok = ok and ((off - isz) if which == 'in' else off) in H.pipe_bases
    other = H.pipe_ends.get('out' if which == 'in' else 'in')
    if other is not None:
        ok = ok and ((off - other) == isz if which == 'in' else (other - off) == isz)
    return root, ok


def release_facts(H, st, broot):
    m = H.m
    cached = False
    nfree = 0
    for f in st.effects:
        if f['kind'] == 'listadd':
            a = m.byteaddr(f['node'])
            if a is not None and a[0] == broot:
                cached = True
        elif f['kind'] == 'escape':
            if f['objroot'] == broot:
                cached = True
        elif f['kind'] == 'free':
            a = m.byteaddr(f['ptr'])
            if a is not None and a[0] == broot:
                nfree += 1
    return cached, nfree


def judge_pump(H, R, sc, end, st, mode, K):
    m = H.m

    def D():
        return H.describe(sc, st, end) + (' [mode %s]' % mode)

    def loc_of(f):
        return f['e'].get('loc') if f is not None else H.root.loc

    tofd = m.read(st, H.F('to_fd'))
    gb, gfull, gstage = sc.bytes, sc.full, sc.stage
    eof = gstage >= 1
    finished_now = False
    must_err = False
    may_err = False
    n_shut = 0
    bands = []
    activity_after_bands = False
    pend = None            # (bytes sent, remainder, effect) awaiting compaction
    need_query = None      # splice EAGAIN with data: full is decided by the pending-input query
    base = None            # (buffer root, byte offset) of the data area
    in_seen = out_seen = out_progress = False
    U = set()
    if sc.hasbuf:
        U.add(('obj', H.BUF))
    for f in st.effects:
        k = f['kind']
        if k in ('in', 'out', 'shutdown') and bands:
            activity_after_bands = True
        if k in ('in', 'out') and pend is not None:
            R.check('R-C17d', 'write:remainder-compacted', False, 'the next transfer starts before the remainder of a partial write was moved to the base; ', loc_of(pend[2]), tail=D)
            pend = None
        if k == 'in':
            in_seen = True
            R.check('R-C17c', 'input-only-with-room-before-eof', gfull == 0 and gstage == 0 and not eof,
                    'input transfer while full=%s stage=%s; ' % (gfull, gstage), loc_of(f), tail=D)
            n = f['n']
            if f['mode'] == 'rw':
                a = m.byteaddr(f['ptr'])
                ok = a is not None and isinstance(n, int) and a[0][0] == 'obj'
                why = 'destination or length not understood'
                if ok:
                    U.add(a[0])
                    dbase = (a[0], a[1] - gb)
                    if base is None:
                        base = dbase
                    why = 'destination is data area %+d (fill level %d), length %s, capacity %s' % (a[1] - base[1], gb, n, K)
                    ok = dbase == base and n >= 1 and K is not None and gb + n == K
                    x = a[0][1]
                    if isinstance(x, Sym) and isinstance(x.origin, tuple) and x.origin[0] == 'alloc' and K is not None:
                        size = x.origin[1]
                        R.check('R-C17d', 'alloc>=offset+BUF_SIZE', isinstance(size, int) and size >= base[1] + K,
                                'allocation of %s bytes for a data area at offset %d of capacity %d; ' % (show_val(size), base[1], K), x.origin[2], tail=D)
                R.check('R-C17d', 'read:offset+length==BUF_SIZE', ok, why + '; ', loc_of(f), tail=D)
            else:
                proot, ok = pipe_end(H, f, 'in')
                if proot is not None:
                    U.add(proot)
                R.check('R-C17d', 'splice:pipe-ends', ok and (not isinstance(n, int) or n >= 1), 'input splice writes to %s; ' % show_val(f['pipe']), loc_of(f), tail=D)
            r, en = f['r'], f['errno']
            if r > 0:
                gb += r
                if f['mode'] == 'rw' and K is not None and gb >= K:
                    gfull = 1
            elif r == 0:
                eof = True
                gstage = max(gstage, 1)
            elif en == EAGAIN:
                if f['mode'] == 'splice' and gb > 0:
                    need_query = f
            elif en == EINTR:
                pass
            else:
                must_err = True
        elif k == 'pending':
            if need_query is not None:
                if f['value'] > 0:
                    gfull = 1
                need_query = None
        elif k == 'out':
            out_seen = True
            R.check('R-C17c', 'output-only-with-data', gb > 0, 'output transfer with an empty buffer; ', loc_of(f), tail=D)
            n = f['n']
            if f['mode'] == 'rw':
                a = m.byteaddr(f['ptr'])
                ok = a is not None and a[0][0] == 'obj'
                if ok:
                    U.add(a[0])
                    if base is None:
                        base = a
                    ok = a == base and isinstance(n, int) and n == gb and f['fd'] is tofd
                R.check('R-C17d', 'write:length-is-bytes-from-base', ok,
                        'write(%s, data area %s, %s) with %d bytes buffered; ' % (show_val(f['fd']), ('%+d' % (a[1] - base[1])) if (a and base) else '?', show_val(n), gb), loc_of(f), tail=D)
            else:
                proot, ok = pipe_end(H, f, 'out')
                if proot is not None:
                    U.add(proot)
                R.check('R-C17d', 'splice:pipe-ends', ok and (not isinstance(n, int) or n >= 1), 'output splice reads from %s; ' % show_val(f['pipe']), loc_of(f), tail=D)
            r, en = f['r'], f['errno']
            if r > 0:
                gb -= r
                gfull = 0
                out_progress = True
                if f['mode'] == 'rw':
                    if gb > 0:
                        pend = (r, gb, f)
                    else:
                        R.check('R-C17d', 'write:remainder-compacted', True, '', loc_of(f))
            elif r == 0:
                may_err = True
            elif en in (EAGAIN, EINTR):
                pass
            else:
                must_err = True
        elif k == 'move':
            if pend is not None and base is not None:
                ad, as_ = m.byteaddr(f['dst']), m.byteaddr(f['src'])
                n = f['n']
                ok = ad == base and as_ == (base[0], base[1] + pend[0]) and isinstance(n, int) and n >= pend[1] \
                    and (K is None or pend[0] + n <= K) and (f['overlap_safe'] or pend[0] >= n)
                if ok:
                    R.check('R-C17d', 'write:remainder-compacted', True, '', loc_of(f))
                    pend = None
        elif k == 'shutdown':
            n_shut += 1
            R.check('R-C17a', 'shutdown-after-drain', gb == 0 and eof,
                    'shutdown with %d bytes still buffered, end-of-file %sseen; ' % (gb, '' if eof else 'not '), loc_of(f), tail=D)
            R.check('R-C17a', 'shutdown-output-when-requested', f['is_to'] and f['how'] == 1 and sc.flags != 0,
                    'shutdown(%s, %s) with flags=%s; ' % (show_val(f['fd']), show_val(f['how']), sc.flags), loc_of(f), tail=D)
        elif k == 'bands':
            bands.append(f)
        elif k == 'stray':
            R.check('R-C17d', 'bytes-accounting', False, 'a transfer on the pump\'s descriptors that is neither the input nor the output transfer (%s); ' % f['callee'], loc_of(f), tail=D)
        if eof and gb == 0 and gstage != 2 and not must_err:
            gstage = 2
            finished_now = True
    if pend is not None:
        R.check('R-C17d', 'write:remainder-compacted', False, 'return before the remainder of a partial write was moved to the base; ', loc_of(pend[2]), tail=D)
    rv = st.marks.get('ret')
    last_loc = st.marks.get('retloc') or (loc_of(st.effects[-1]) if st.effects else H.root.loc)
    wloc = lambda fld: st.marks.get(('w', fld)) or last_loc
    if end == 'fatal' and st.marks.get('last_branch_opaque'):
        return      # an assertion about the environment (a value the pump state does not determine): assumed to hold
    if end != 'ret':
        R.check('R-C17b', 'stage-domain', False, 'the call ends in %s; ' % ('a noreturn call (iv_fatal)' if end == 'fatal' else 'falling off the end'), last_loc, tail=D)
        return
    wants_in = sc.full == 0 and sc.stage == 0
    acq_fail = wants_in and not sc.hasbuf and not in_seen
    if must_err:
        okr = rv == -1
    else:
        okr = rv in (0, 1) or ((may_err or acq_fail) and rv == -1)
    R.check('R-C17b', 'error-return-iff-transfer-failed', okr, 'returns %s, hard failure %s; ' % (show_val(rv), must_err), last_loc, tail=D)
    fb, ff, fs, fbuf = H.fields(st)
    isnull = isinstance(fbuf, int) and fbuf == 0
    broot = None
    if len(U) > 1:
        R.check('R-C17d', 'buffer-release', False, 'the transfers of one call use more than one buffer object; ', last_loc, tail=D)
    elif U:
        broot = next(iter(U))
    cached, nfree = release_facts(H, st, broot) if broot is not None else (False, 0)
    released_once = nfree <= 1 and (cached != (nfree == 1))
    if cached:
        R.check('R-C17d', '%s:buffer-cached-only-empty' % H.root.name, mode == 'rw' or gb == 0,
                'the buffer is put on the cache while its pipe holds %d bytes (bytes field %s); ' % (gb, show_val(fb)), last_loc, tail=D)
    if rv == -1:
        R.check('R-C17d', 'buffer-release', isnull and (broot is None or released_once),
                'after an error: buf %s, cached %s, freed %d time(s); ' % ('NULL' if isnull else 'attached', cached, nfree), last_loc, tail=D)
        return
    # ---- normal return ------------------------------------------------------
    R.check('R-C17c', 'input-attempted-when-wanted', in_seen or not wants_in, '', last_loc, tail=D)
    R.check('R-C17c', 'output-attempted-when-data', out_seen or gb == 0, '%d bytes buffered and no output transfer; ' % gb, last_loc, tail=D)
    R.check('R-C17d', 'bytes-accounting', fb == gb, 'bytes field %s, true fill level %d; ' % (show_val(fb), gb), wloc('bytes'), tail=D)
    R.check('R-C17c', 'full-cleared-when-data-left' if out_progress else 'full-set-when-no-room', ff == gfull and need_query is None,
            'full field %s, true state %d%s; ' % (show_val(ff), gfull, ' (the pipe refused input and nothing asked whether input is pending)' if need_query else ''), wloc('full'), tail=D)
    R.check('R-C17a', 'final-stage-after-drain', not (fs == 2) or (gb == 0 and eof),
            'final stage with %d bytes buffered, end-of-file %sseen; ' % (gb, '' if eof else 'not '), wloc('saw_fin'), tail=D)
    R.check('R-C17a', 'eof-seen-on-zero-return', isinstance(fs, int) and (fs >= 1) == eof, 'stage field %s, end-of-file %sseen; ' % (show_val(fs), '' if eof else 'not '), wloc('saw_fin'), tail=D)
    R.check('R-C17a', 'finishes-when-drained', not (eof and gb == 0) or fs == 2, 'stage field %s with end-of-file seen and nothing buffered; ' % show_val(fs), wloc('saw_fin'), tail=D)
    R.check('R-C17a', 'shutdown-output-when-requested', n_shut == (1 if (finished_now and sc.flags) else 0),
            '%d shutdown call(s), final stage entered in this call: %s, RELAY_EOF %s; ' % (n_shut, finished_now, bool(sc.flags)), last_loc, tail=D)
    R.check('R-C17b', 'stage-domain', fs in (0, 1, 2), 'stage field %s; ' % show_val(fs), last_loc, tail=D)
    want = (int(gstage == 0 and not gfull), int(gb != 0))
    got = None
    okb = len(bands) == 1 and not activity_after_bands
    if okb:
        a = bands[0]['args']
        okb = len(a) == 2 and all(isinstance(x, int) for x in a) and bands[0]['cookie_ok']
        if okb:
            got = (int(a[0] != 0), int(a[1] != 0))
            okb = got == want
    okb = okb and rv == (0 if gstage == 2 else 1)
    R.check('R-C17b', 'state(stage=%d,full=%d,data=%d)' % (gstage, gfull, int(gb != 0)), okb,
            'expected set_bands%s return %d; ' % (want, 0 if gstage == 2 else 1), loc_of(bands[0]) if bands else last_loc, tail=D)
    if gb == 0:
        okrel = isnull and (broot is None or released_once)
    else:
        a = m.byteaddr(fbuf) if not isinstance(fbuf, int) else None
        okrel = a is not None and a[0] == broot and not cached and nfree == 0
    R.check('R-C17d', 'buffer-release', okrel, 'true fill level %d: buf %s, cached %s, freed %d time(s); ' % (gb, 'NULL' if isnull else 'attached', cached, nfree), last_loc, tail=D)


def judge_destroy(H, R, sc, end, st, mode):
    m = H.m
    D = lambda: H.describe(sc, st, end) + (' [mode %s]' % mode)
    last_loc = st.effects[-1]['e'].get('loc') if st.effects else H.root.loc
    if end == 'fatal':
        if not st.marks.get('last_branch_opaque'):
            R.check('R-C17d', 'destroy:buffer-released', False, 'ends in a noreturn call; ', last_loc, tail=D)
        return
    bands = [f for f in st.effects if f['kind'] == 'bands']
    okb = sc.stage == 2 and not bands
    if bands:
        a = bands[-1]['args']
        okb = len(a) == 2 and all(isinstance(x, int) and x == 0 for x in a) and bands[-1]['cookie_ok']
    R.check('R-C17b', 'destroy:bands-cleared', okb, '', bands[-1]['e'].get('loc') if bands else H.root.loc, tail=D)
    fb, ff, fs, fbuf = H.fields(st)
    isnull = isinstance(fbuf, int) and fbuf == 0
    if sc.hasbuf:
        broot = ('obj', H.BUF)
        cached, nfree = release_facts(H, st, broot)
        if cached:
            R.check('R-C17d', '%s:buffer-cached-only-empty' % H.root.name, mode == 'rw' or sc.bytes == 0,
                    'the buffer is put on the cache while its pipe holds %d bytes (bytes field at that time %s); ' % (
                        sc.bytes, show_val([f for f in st.effects if f['kind'] in ('listadd', 'escape')][0]['fields'][0])), last_loc, tail=D)
        R.check('R-C17d', 'destroy:buffer-released', isnull and nfree <= 1 and (cached != (nfree == 1)),
                'buf %s, cached %s, freed %d time(s); ' % ('NULL' if isnull else 'attached', cached, nfree), last_loc, tail=D)
    else:
        stray = [f for f in st.effects if f['kind'] in ('listadd', 'free')]
        R.check('R-C17d', 'destroy:buffer-released', isnull and not stray, 'no buffer attached, yet something is cached or freed; ', last_loc, tail=D)


def judge_init(H, R, end, st):
    D = lambda: H.describe(None, st, end)
    if end == 'fatal' and st.marks.get('last_branch_opaque'):
        return
    bands = [f for f in st.effects if f['kind'] == 'bands']
    fb, ff, fs, fbuf = H.fields(st)
    ok = end in ('ret', 'exit') and fb == 0 and ff == 0 and fs == 0 and isinstance(fbuf, int) and fbuf == 0 and isinstance(fb, int) \
        and isinstance(ff, int) and isinstance(fs, int)
    if ok:
        ok = bool(bands)
        if ok:
            a = bands[-1]['args']
            ok = len(a) == 2 and all(isinstance(x, int) for x in a) and a[0] != 0 and a[1] == 0 and bands[-1]['cookie_ok'] \
                and bands[-1]['fields'] == (0, 0, 0, 0)
    R.check('R-C17b', 'init:state-and-bands', ok, '', bands[-1]['e'].get('loc') if bands else H.root.loc, fn=H.root.q, tail=D)
