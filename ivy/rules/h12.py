"""Helpers of C12 (iv_work): role-based calling contexts, local normalisations and the small
abstract domains the C12 rules are formulated in.

  * contexts(): the public / handler *roots* that reach a site, with every internal helper of the
    file inlined (the library API -- functions with external linkage of other files -- stays a call);
  * normalise(): address values cached in locals (`q = &pool->work_done`) are substituted, emptiness
    snapshots (`was_empty = iv_list_empty(q)`) become boolean flags and are partitioned away,
    open-coded iv_list_del is recognised;
  * worlds(): may-analysis over finite sets of abstract "worlds" (path-sensitive bit vectors);
  * item_states(): must-alias typestate of work items (taken -> unlinked -> worked -> queued-done / completed),
    keyed by the *definition* of the item, so independent of loop form and of the helper structure.
"""
import json
import re

from ..core import (AnalysisBroken, Inliner, canon, strip, strip_load, last_member, walk, subst, simplify, names_of,
                    forward, norm_cond, lvalue_steps, is_int, partition_flags, PURE_CALLS)
from ..analyses import is_call, callback_kind, locksets, held, lock_effect, list_empty_test, LOCK_FUNCS
from .. import roles

LH = 'iv_list_head'
LIST_PRIMS = {'iv_list_add', 'iv_list_add_tail', 'iv_list_del', 'iv_list_del_init', 'iv_list_splice', 'iv_list_splice_init',
              'iv_list_splice_tail', 'iv_list_splice_tail_init', '__iv_list_splice', '__iv_list_steal_elements', 'INIT_IV_LIST_HEAD'}
LIST_KEYS = frozenset({(LH, 'next'), (LH, 'prev')})
DETACH = ('__iv_list_steal_elements', 'iv_list_splice_init', 'iv_list_splice_tail_init')     # move all elements, source left empty
ADD = ('iv_list_add_tail', 'iv_list_add')
DEL = ('iv_list_del', 'iv_list_del_init')
# calls after which a local still holds the value it was assigned (nothing the library reads is written by them in this
# thread).  Lock operations are included on purpose: a local keeps its value across them; the substituted expression
# names the value the local got at its assignment and is only used for type-based matching (which member of which
# record an address denotes), never to claim that re-reading the fields would give the same value.
QUIET_CALLS = set(PURE_CALLS) | set(LOCK_FUNCS)        # (Items: access-path aliases of a node survive these)


def _pure_path(e):
    for x in walk(e):
        if x.get('k') in ('call', 'assign', 'incdec', 'stmtexpr', 'other', 'deep', 'va_arg', 'init', 'compound'):
            return False
    return True


# --------------------------------------------------------------------------
# small expression helpers
# --------------------------------------------------------------------------

def varname(x):
    x = strip(x)
    return x['name'] if isinstance(x, dict) and x.get('k') == 'var' else None


def arg_key(e, i):
    """(record, field) of `&X->field` passed as argument i of a call event."""
    a = strip(e['args'][i]) if len(e.get('args', [])) > i else None
    if isinstance(a, dict) and a.get('k') == 'addr':
        return last_member(a['e'])
    return None


def arg_base(e, i):
    """variable name v of an argument `&v->field`."""
    a = strip(e['args'][i]) if len(e.get('args', [])) > i else None
    if isinstance(a, dict) and a.get('k') == 'addr':
        m = strip(a['e'])
        if isinstance(m, dict) and m.get('k') == 'member' and m.get('arrow'):
            return varname(m['base'])
    return None


def is_incr(e, key):
    """store that adds one to record.field: x++, ++x, x += 1, x = x + 1, x = 1 + x"""
    if e['ev'] != 'store' or last_member(e['lhs']) != key:
        return False
    if e['op'] == '++':
        return True
    if e['op'] == '+=':
        return is_int(e.get('rhs'), 1)
    if e['op'] == '=' and 'rhs' in e:
        r = strip(e['rhs'])
        if isinstance(r, dict) and r.get('k') == 'bin' and r['op'] == '+':
            for a, b in ((r['l'], r['r']), (r['r'], r['l'])):
                if is_int(b, 1) and last_member(a) == key and canon(a) == canon(e['lhs']):
                    return True
    return False


def writes(e, key):
    return e['ev'] == 'store' and key in lvalue_steps(e['lhs'])


def atoms_on(blk, si):
    if not blk.term or len(blk.succ) != 2 or blk.term.get('cls') in ('SwitchStmt', 'MethodDispatch'):
        return []
    c = blk.term.get('cond')
    if c is None:
        return []
    if any(x.get('k') == 'assign' for x in walk(c)):
        # the value of `(x = e)` is x (the store itself is an event of the block)
        c = subst(c, lambda n: {'k': 'load', 'e': n['l']} if n.get('k') == 'assign' and n.get('op') == '=' else None)
    return norm_cond(c, si == 0)


def compare_fields(atom, lkey, rfield):
    """For an atom comparing record.field `lkey` with a `.rfield` member (either operand order) returns the
    operator normalised to `lkey OP rfield`, else None."""
    from ..core import SWAP
    (op, lc, rc, l, r) = atom
    if op == 'const' or not isinstance(r, dict):
        return None
    d = strip(l)
    if rc == '0' and isinstance(d, dict) and d.get('k') == 'bin' and d['op'] == '-':
        # (x - y) OP 0  is  x OP y  (int fields far from overflow)
        l, r = d['l'], d['r']
    ll, rr = last_member(l), last_member(r)
    if ll == lkey and rr is not None and rr[1] == rfield:
        return op
    if rr == lkey and ll is not None and ll[1] == rfield:
        return SWAP[op]
    return None


def seq_relation(atom, a, b):
    """'eq' / 'ne' when the atom states equality / inequality of the fields a and b:
    a == b, a != b, (a - b) == 0, !(a - b), in either operand order."""
    (op, lc, rc, l, r) = atom
    if op not in ('==', '!='):
        return None
    if isinstance(r, dict) and {last_member(l), last_member(r)} == {a, b}:
        return 'eq' if op == '==' else 'ne'
    if rc == '0':
        d = strip(l)
        if isinstance(d, dict) and d.get('k') == 'bin' and d['op'] == '-' and {last_member(d['l']), last_member(d['r'])} == {a, b}:
            return 'eq' if op == '==' else 'ne'
    return None


def touches(g, record):
    """the (inlined) function accesses a member of `record`"""
    for e in g.events():
        for x in walk(e):
            if x.get('k') == 'member' and x.get('record') == record:
                return True
    return False


# --------------------------------------------------------------------------
# normalisations local to C12 (wanted in core, see REPORT-C12.md)
# --------------------------------------------------------------------------

def renumber(g):
    g._preds = None
    for b in g.blocks.values():
        for i, e in enumerate(b.events):
            e['_b'] = b.id
            e['_i'] = i


def _addr_value(rhs):
    """rhs is the address of an access path (`&a->b.c`, `&x`): a value that only depends on what the path reads."""
    r = strip(rhs)
    if not (isinstance(r, dict) and r.get('k') == 'addr'):
        return None
    if not _pure_path(r):
        return None
    x = strip_load(r['e'])
    while isinstance(x, dict) and x.get('k') in ('member', 'index', 'load', 'cast', 'deref'):
        if x.get('k') == 'member':
            x = x['base']
        elif x.get('k') == 'index':
            if strip_load(x['idx']).get('k') not in ('int', 'var'):
                return None
            x = x['base']
        else:
            x = x['e']
    if not (isinstance(x, dict) and x.get('k') == 'var'):
        return None
    return r


ARITH = ('+', '-', '*', '&', '|', '^', '<<', '>>')


def _arith_value(rhs):
    """rhs is side-effect free arithmetic over access paths and constants (`pool->seq_tail - pool->seq_head`)"""
    r = strip(rhs)
    if not (isinstance(r, dict) and r.get('k') == 'bin' and r.get('op') in ARITH):
        return None
    if not _pure_path(rhs) or sum(1 for _ in walk(rhs)) > 40:
        return None
    for x in walk(rhs):
        if x.get('k') == 'bin' and x.get('op') not in ARITH:
            return None
        if x.get('k') not in ('bin', 'un', 'load', 'cast', 'var', 'member', 'int', 'index', 'deref', 'paren'):
            return None
    return rhs


def _value_keys(e):
    keys = set()
    for x in walk(e):
        k = x.get('k')
        if k == 'member':
            keys.add((x.get('record'), x['field']))
        elif k == 'var':
            keys.add(('var', x['name']))
        elif k in ('deref', 'index'):
            keys.add(('mem', '*'))
    return frozenset(keys)


def _addr_keys(r):
    """what the *value* of the address expression depends on: the variables and the pointer fields loaded on the
    way (`&this->priv->idle` reads this and iv_work_pool.priv), not the addressed member itself."""
    keys = set()
    def rd(x, addr):
        k = x.get('k')
        if k == 'var':
            keys.add(('var', x['name']))
        elif k == 'member':
            if not addr:
                keys.add((x.get('record'), x['field']))
            if x['arrow']:
                rd(x['base'], False)
            else:
                rd(x['base'], addr)
        elif k == 'index':
            rd(x['base'], addr if 'bound' in x else False)
            rd(x['idx'], False)
        elif k == 'deref':
            rd(x['e'], False)
        elif k in ('load', 'cast'):
            rd(x['e'], addr)
        elif k == 'addr':
            rd(x['e'], True)
    rd(r, False)
    return frozenset(keys)


def _path_value(rhs):
    """rhs is a plain read of an access path through memory (`this->max_threads`, `thr->pool`)"""
    r = strip_load(rhs)
    while isinstance(r, dict) and r.get('k') == 'cast':
        r = strip_load(r['e'])
    if not (isinstance(r, dict) and r.get('k') in ('member', 'index', 'deref')) or not _pure_path(rhs):
        return None
    x = r
    while isinstance(x, dict) and x.get('k') in ('member', 'index', 'load', 'cast', 'deref'):
        if x.get('k') == 'member':
            x = x['base']
        elif x.get('k') == 'index':
            if strip_load(x['idx']).get('k') not in ('int', 'var'):
                return None
            x = x['base']
        else:
            x = x['e']
    if not (isinstance(x, dict) and x.get('k') == 'var'):
        return None
    return rhs


def immutable_key(prog, key):
    """record.field is only ever stored to in objects that the storing function has just allocated (written once before
    publication), or not at all by the library: a cached copy of it never goes stale."""
    cache = prog.__dict__.setdefault('_h12_immut', {})
    if key not in cache:
        ok = True
        for (fn, e) in prog.writers_of(*key):
            x = strip(e['lhs'])
            base = None
            while isinstance(x, dict) and x.get('k') in ('member', 'index'):
                if x.get('k') == 'member' and x['arrow']:
                    base = varname(x['base'])
                    break
                x = strip(x['base'])
            fresh = base is not None and any(
                s_['ev'] == 'store' and 'rhs' in s_ and varname(s_['lhs']) == base and
                any(y.get('k') == 'call' and y.get('callee') in ('malloc', 'calloc') for y in walk(s_['rhs']))
                for s_ in fn.events())
            if not fresh:
                ok = False
                break
        cache[key] = ok
    return cache[key]


def value_propagate(g, prog):
    """`q = &pool->idle_threads; ... iv_list_empty(q) ... q->next`, `pending = pool->seq_tail - pool->seq_head; if (!pending)`,
    `max = this->max_threads; ... started < max` read like the versions without the local.
    Flow-sensitive must-available copies of (a) addresses of access paths, (b) side-effect free arithmetic over access paths,
    (c) plain reads of access paths.  Killed by reassignment and by stores to what the expression reads (type-based).
    Cached *values* that read mutable memory also die at calls into unknown code, user callbacks and lock operations (another
    thread may have changed the field; same policy as core.copy_propagate); values that only read fields that are written
    once before publication (immutable_key) survive.  A local keeps the *address* it was assigned whatever happens; the
    substituted text names that value and is only used for type-based matching."""
    addr_taken = set()
    for e in g.events():
        for x in walk(e):
            if x.get('k') == 'addr':
                v = strip(x['e'])
                if isinstance(v, dict) and v.get('k') == 'var':
                    addr_taken.add(v['name'])

    def mutable(keys):
        return any(k[0] != 'var' and (k[0] == 'mem' or not immutable_key(prog, k)) for k in keys)

    def bind(S, name, expr, keys, kind):
        return frozenset(x for x in S if x[0] != name) | {(name, json.dumps(expr, sort_keys=True), keys, kind, kind == 'val' and mutable(keys))}

    def transfer(e, S):
        ev = e['ev']
        kills = set()
        if ev == 'store':
            for st in lvalue_steps(e['lhs']):
                kills.add(st)
            l = strip(e['lhs'])
            if l.get('k') == 'var':
                kills.add(('var', l['name']))
            if l.get('k') in ('deref', 'index') and not lvalue_steps(e['lhs']):
                kills.add(('mem', '*'))
        elif ev == 'decl':
            kills.add(('var', e['name']))
        elif ev == 'call':
            nm = e.get('callee')
            if 'fnexpr' in e or (nm and nm not in PURE_CALLS and nm not in LIST_PRIMS):
                S = frozenset(x for x in S if not x[4])
            elif nm in LIST_PRIMS:
                kills |= LIST_KEYS
            for a in e.get('args', []):
                a = strip(a)
                if isinstance(a, dict) and a.get('k') == 'addr':
                    v = strip(a['e'])
                    if isinstance(v, dict) and v.get('k') == 'var':
                        kills.add(('var', v['name']))
        if kills:
            S = frozenset(x for x in S if not (x[2] & kills) and ('var', x[0]) not in kills)
        if ev == 'store' and e.get('op') == '=' and 'rhs' in e:
            l = strip(e['lhs'])
            if l.get('k') == 'var' and l.get('vk') == 'local' and l['name'] not in addr_taken:
                me = ('var', l['name'])
                r = _addr_value(e['rhs'])
                if r is not None:
                    if me not in _addr_keys(r):
                        S = bind(S, l['name'], r, _addr_keys(r), 'addr')
                    return S
                a = _arith_value(e['rhs']) or _path_value(e['rhs'])
                if a is not None:
                    if me not in _value_keys(a):
                        S = bind(S, l['name'], a, _value_keys(a), 'val')
                    return S
                # copy of a local that is itself bound (helper results, parameters passed by value)
                v = varname(e['rhs'])
                src = [x for x in S if x[0] == v] if v else []
                if src and v != l['name']:
                    S = frozenset(x for x in S if x[0] != l['name']) | {(l['name'],) + src[0][1:]}
        return S

    _, ev_in = forward(g, frozenset(), transfer, lambda a, b: a & b)
    n = [0]

    def rewrite(x, S):
        avail = {x[0]: x[1] for x in S}
        if not avail:
            return x
        def r(nd):
            if nd.get('k') == 'load':
                inner = nd.get('e')
                if isinstance(inner, dict) and inner.get('k') == 'var' and inner['name'] in avail and inner.get('vk') in ('local', 'param'):
                    n[0] += 1
                    out = json.loads(avail[inner['name']])
                    out['_was'] = inner['name']
                    return out
            return None
        return simplify(subst(x, r))

    for b, blk in g.blocks.items():
        for i, e in enumerate(blk.events):
            S = ev_in.get((b, i))
            if not S or e['ev'] == 'load':
                continue
            for key in ('rhs', 'args', 'fnexpr', 'value'):
                if key in e:
                    e[key] = rewrite(e[key], S)
            if e['ev'] == 'store' and strip(e['lhs']).get('k') != 'var':
                e['lhs'] = rewrite(e['lhs'], S)
        S = ev_in.get((b, len(blk.events)))
        if S and blk.term and blk.term.get('cond') is not None:
            blk.term = dict(blk.term, cond=rewrite(blk.term['cond'], S))
    return n[0]


def snapshot_flags(g):
    """`e = iv_list_empty(q); ...; if (e) ...` : the predicate result is a boolean flag.  Rewritten to
    `e = (iv_list_empty(q) != 0)` so that core.partition_flags splits the paths at the snapshot."""
    n = 0
    for e in g.events():
        if e['ev'] == 'store' and e.get('op') == '=' and 'rhs' in e and varname(e['lhs']):
            r = strip(e['rhs'])
            if isinstance(r, dict) and r.get('k') == 'call' and r.get('callee') == 'iv_list_empty':
                e['rhs'] = {'k': 'bin', 'op': '!=', 'l': e['rhs'], 'r': {'k': 'int', 'v': 0}, 'type': 'int'}
                n += 1
    return n


def fuse_open_coded_del(g):
    """`n->prev->next = n->next; n->next->prev = n->prev;` (either order, optionally followed by the NULLing
    stores of iv_list_del or by INIT_IV_LIST_HEAD(n)) is iv_list_del(n) / iv_list_del_init(n)."""
    def link_store(e):
        # returns (node canon, node expr, 'next'|'prev') for  N->prev->next = N->next  /  N->next->prev = N->prev
        if e['ev'] != 'store' or e.get('op') != '=' or 'rhs' not in e:
            return None
        l = strip(e['lhs'])
        r = strip(e['rhs'])
        if not (isinstance(l, dict) and l.get('k') == 'member' and l.get('record') == LH and l.get('arrow')):
            return None
        inner = strip(l['base'])
        if not (isinstance(inner, dict) and inner.get('k') == 'member' and inner.get('record') == LH):
            return None
        if not (isinstance(r, dict) and r.get('k') == 'member' and r.get('record') == LH):
            return None
        if {l['field'], inner['field']} != {'next', 'prev'} or r['field'] != l['field']:
            return None
        def node(m):
            return m['base'] if m['arrow'] else {'k': 'addr', 'e': m['base']}
        if canon(node(inner)) != canon(node(r)):
            return None
        return canon(node(r)), node(r), l['field']
    changed = 0
    for blk in g.blocks.values():
        evs = blk.events
        out = []
        i = 0
        while i < len(evs):
            e = evs[i]
            a = link_store(e)
            if a:
                j = i + 1
                while j < len(evs) and evs[j]['ev'] == 'load':
                    j += 1
                b = link_store(evs[j]) if j < len(evs) else None
                if b and b[0] == a[0] and b[2] != a[2]:
                    k = j + 1
                    callee = 'iv_list_del'
                    # trailing  N->next = NULL; N->prev = NULL;  or INIT_IV_LIST_HEAD(N)
                    while k < len(evs):
                        x = evs[k]
                        if x['ev'] == 'load':
                            k += 1
                            continue
                        if x['ev'] == 'store' and x.get('op') == '=' and last_member(x['lhs']) in LIST_KEYS and 'rhs' in x \
                                and canon(x['rhs']) in ('NULL', '0'):
                            m = strip(x['lhs'])
                            nd = m['base'] if m['arrow'] else {'k': 'addr', 'e': m['base']}
                            if canon(nd) == a[0]:
                                k += 1
                                continue
                        if x['ev'] == 'call' and x.get('callee') == 'INIT_IV_LIST_HEAD' and canon(x['args'][0]) == a[0]:
                            callee = 'iv_list_del_init'
                            k += 1
                        break
                    # drop trailing pure loads that were consumed with the stores
                    out.append({'ev': 'call', 'callee': callee, 'args': [a[1]], 'loc': e['loc'], 'used': False,
                                'synthetic': True, 'chain': e.get('chain'), 'fn': e.get('fn')})
                    i = k
                    changed += 1
                    continue
            out.append(e)
            i += 1
        blk.events = out
    return changed


def _node_of(m):
    return m['base'] if m['arrow'] else {'k': 'addr', 'e': m['base']}


def _link_lhs(l):
    """store target N->f or N->f2->f1 of list links: (canon of N, N, (f,) / (f2, f1))"""
    l = strip(l)
    if not (isinstance(l, dict) and l.get('k') == 'member' and l.get('record') == LH and l['field'] in ('next', 'prev')):
        return None
    n1 = _node_of(l)
    s1 = strip(n1)
    if isinstance(s1, dict) and s1.get('k') == 'member' and s1.get('record') == LH and s1['field'] in ('next', 'prev'):
        return canon(_node_of(s1)), _node_of(s1), (s1['field'], l['field'])
    return canon(n1), n1, (l['field'],)


def _link_rhs(r):
    s_ = strip(r)
    if isinstance(s_, dict) and s_.get('k') == 'member' and s_.get('record') == LH and s_['field'] in ('next', 'prev'):
        return ('field', canon(_node_of(s_)), s_['field'], None)
    return ('ptr', canon(r), None, r)


def fuse_open_coded_add(g):
    """the four link stores of iv_list_add_tail(N, H) / iv_list_add(N, H), written out in one block (loads in between),
    are replaced by the primitive."""
    changed = 0
    for blk in g.blocks.values():
        evs = blk.events
        idx = [i for i, e in enumerate(evs) if e['ev'] == 'store' and e.get('op') == '=' and 'rhs' in e and _link_lhs(e['lhs'])]
        used = set()
        repl = {}
        for k in range(len(idx) - 3):
            quad = idx[k:k + 4]
            if used & set(quad):
                continue
            if any(evs[j]['ev'] != 'load' for j in range(quad[0], quad[3]) if j not in quad):
                continue
            D = [(_link_lhs(evs[j]['lhs']), _link_rhs(evs[j]['rhs'])) for j in quad]
            for callee, fa, fb in (('iv_list_add_tail', 'next', 'prev'), ('iv_list_add', 'prev', 'next')):
                # add_tail: N->next = H; N->prev = H->prev; H->prev->next = N; H->prev = N
                # add     : N->prev = H; N->next = H->next; H->next->prev = N; H->next = N
                a = [i for i, (L, R) in enumerate(D) if L[2] == (fa,) and R[0] == 'ptr']
                for ia in a:
                    N, Nx = D[ia][0][0], D[ia][0][1]
                    H, Hx = D[ia][1][1], D[ia][1][3]
                    ib = [i for i, (L, R) in enumerate(D) if L[0] == N and L[2] == (fb,) and R[:3] == ('field', H, fb)]
                    ic = [i for i, (L, R) in enumerate(D) if L[0] == H and L[2] == (fb, fa) and R[0] == 'ptr' and R[1] == N]
                    id_ = [i for i, (L, R) in enumerate(D) if L[0] == H and L[2] == (fb,) and R[0] == 'ptr' and R[1] == N]
                    if ib and ic and id_ and len({ia, ib[0], ic[0], id_[0]}) == 4 and ic[0] < id_[0] and ib[0] < id_[0]:
                        e0 = evs[quad[0]]
                        repl[quad[0]] = {'ev': 'call', 'callee': callee, 'args': [Nx, Hx], 'loc': e0['loc'], 'used': False,
                                         'synthetic': True, 'chain': e0.get('chain'), 'fn': e0.get('fn')}
                        used |= set(quad)
                        break
                if used & set(quad):
                    break
        if repl:
            out = []
            for i, e in enumerate(evs):
                if i in repl:
                    out.append(repl[i])
                elif i in used:
                    continue
                else:
                    out.append(e)
            blk.events = out
            changed += len(repl)
    return changed


def fold_container_of(g, prog):
    """`(struct R *)((char *)E - offsetof(struct R, m))` (the expansion of iv_container_of with the offset folded by the
    compiler) is container_of(E, R, m)."""
    n = [0]
    def r(nd):
        if nd.get('k') == 'cast' and nd.get('record') and str(nd.get('to', '')).rstrip().endswith('*'):
            b = nd.get('e')
            while isinstance(b, dict) and b.get('k') in ('paren',):
                b = b['e']
            if isinstance(b, dict) and b.get('k') == 'bin' and b.get('op') == '-' and is_int(b.get('r')):
                l = b['l']
                while isinstance(l, dict) and l.get('k') == 'cast':
                    l = l['e']
                off = strip(b['r'])['v']
                rec = prog.records.get(nd['record'], {})
                fl = [f for f in rec.get('fields', []) if f.get('offset') == off and f.get('record')]
                inner = strip(l)
                if fl and isinstance(inner, dict) and (inner.get('trecord') == fl[0]['record'] or inner.get('record') == fl[0]['record']):
                    n[0] += 1
                    return {'k': 'container_of', 'e': subst(l, r), 'record': nd['record'], 'member': fl[0]['name']}
        return None
    for blk in g.blocks.values():
        for e in blk.events:
            for key in ('rhs', 'args', 'fnexpr', 'value', 'e'):
                if key in e and isinstance(e[key], (dict, list)):
                    e[key] = subst(e[key], r)
        if blk.term and blk.term.get('cond') is not None:
            blk.term = dict(blk.term, cond=subst(blk.term['cond'], r))
    return n[0]


def normalise(g, prog):
    fold_container_of(g, prog)
    fuse_open_coded_del(g)
    fuse_open_coded_add(g)
    renumber(g)
    value_propagate(g, prog)
    snapshot_flags(g)
    for _ in range(6):
        if not partition_flags(g):
            break
    renumber(g)
    return g


# --------------------------------------------------------------------------
# calling contexts
# --------------------------------------------------------------------------

def context_of(prog, root):
    """root with every helper inlined that is not library API of another module (a function with external linkage defined
    outside the files of the iv_work code); normalised."""
    cache = prog.__dict__.setdefault('_h12_ctx', {})
    if root.q not in cache:
        files = module_files(prog)
        g = Inliner(prog, stop=lambda t: not t.static and t.file not in files).inline(root)
        cache[root.q] = normalise(g, prog)
    return cache[root.q]


RECORDS = ('work_pool_priv', 'work_pool_thread', 'iv_work_item', 'iv_work_thr_info')


def module_files(prog):
    """the .c files whose code accesses the iv_work records (found by what they do, not by name)"""
    cache = prog.__dict__.get('_h12_files')
    if cache is None:
        cache = set()
        for f in prog.all_funcs():
            if f.file.endswith('.c') and f.file not in cache:
                if any(x.get('k') == 'member' and x.get('record') in RECORDS for e in f.events() for x in walk(e)):
                    cache.add(f.file)
        prog.__dict__['_h12_files'] = cache
    return cache


def module_roots(prog):
    """roots (exported functions, installed handlers) of the iv_work code"""
    files = module_files(prog)
    return [r for r in roles.roots(prog) if r.file in files]


def contexts(prog, site_pred):
    """[(root, inlined root, [site events])]: every root (exported function or installed handler) of the iv_work code in
    whose inlined and normalised body an event satisfies site_pred.  (The predicate is evaluated on the normalised
    context, so a site written through a cached address or an extracted helper is found like the plain form.)"""
    out = []
    for r in module_roots(prog):
        g = context_of(prog, r)
        sites = [e for e in g.events() if site_pred(e)]
        if sites:
            out.append((r, g, sites))
    return out


def short(f):
    return f.name


# --------------------------------------------------------------------------
# may-analysis over sets of worlds
# --------------------------------------------------------------------------

def _zero_tested(g):
    """locals that some branch compares with 0 / NULL"""
    cache = g.__dict__.get('_h12_zt')
    if cache is None:
        cache = set()
        for blk in g.blocks.values():
            for si in range(len(blk.succ)):
                for (op, lc, rc, l, r) in atoms_on(blk, si):
                    if op in ('==', '!=') and rc == '0' and varname(l):
                        cache.add(varname(l))
        grown = True
        while grown:
            grown = False
            for e in g.events():
                if e['ev'] == 'store' and e.get('op') == '=' and 'rhs' in e and varname(e['lhs']) in cache:
                    v = varname(e['rhs'])
                    if v and v not in cache:
                        cache.add(v)
                        grown = True
        # a local whose address escapes may change behind the analysis' back
        for e in g.events():
            for x in walk(e):
                if x.get('k') == 'addr' and varname(x['e']):
                    cache.discard(varname(x['e']))
        g.__dict__['_h12_zt'] = cache
    return cache


def _zero_step(e, facts, tracked):
    """facts: frozenset((local, is_zero)) known on this path"""
    ev = e['ev']
    if ev == 'decl':
        return frozenset(f for f in facts if f[0] != e['name']) if facts else facts
    if ev == 'store':
        x = varname(e['lhs'])
        if x is None:
            return facts
        facts = frozenset(f for f in facts if f[0] != x)
        if x in tracked and e.get('op') == '=' and 'rhs' in e:
            r = strip(e['rhs'])
            if isinstance(r, dict):
                if r.get('k') == 'null' or (r.get('k') == 'int' and r['v'] == 0):
                    return facts | {(x, True)}
                if r.get('k') in ('container_of', 'addr') or (r.get('k') == 'int' and r['v'] != 0):
                    return facts | {(x, False)}
                if r.get('k') == 'var':
                    for f in facts:
                        if f[0] == r['name']:
                            return facts | {(x, f[1])}
        return facts
    if ev == 'call' and facts:
        for a in e.get('args', []):
            a = strip(a)
            if isinstance(a, dict) and a.get('k') == 'addr':
                v = varname(a['e'])
                if v:
                    facts = frozenset(f for f in facts if f[0] != v)
    return facts


def _zero_edge(blk, si, facts, tracked):
    for (op, lc, rc, l, r) in atoms_on(blk, si):
        if op in ('==', '!=') and rc == '0':
            v = varname(l)
            if v in tracked:
                z = (op == '==')
                if (v, not z) in facts:
                    return None
                facts = facts | {(v, z)}
    return facts


def worlds(g, init, step, edge=None):
    """Forward may-analysis whose state is a finite set of abstract worlds (path-sensitive up to the world).
    step(event, world) -> iterable of worlds; edge(block, succ index, world) -> world or None (infeasible).
    Every world also carries what the path knows about locals being zero / NULL (assigned NULL, a constant, an address, a
    container_of result, or tested), and edges contradicting it are infeasible: a helper returning "item or NULL" or
    "found / not found" reads like the code with the test inlined.
    Returns {(block, i): frozenset(worlds)} (state before event i; i == len(events): at the block end)."""
    tracked = _zero_tested(g)

    def tr(e, S):
        out = set()
        for (w, facts) in S:
            f2 = _zero_step(e, facts, tracked)
            for w2 in step(e, w):
                out.add((w2, f2))
        return frozenset(out)

    def ed(blk, si, S):
        if any(at[0] == 'const' and at[1] == 'False' for at in atoms_on(blk, si)):
            return None
        out = set()
        for (w, facts) in S:
            f2 = _zero_edge(blk, si, facts, tracked)
            if f2 is None:
                continue
            w2 = edge(blk, si, w) if edge is not None else w
            if w2 is not None:
                out.add((w2, f2))
        return frozenset(out) if out else None
    _, ev_in = forward(g, frozenset([(init, frozenset())]), tr, lambda a, b: a | b, edge=ed)
    return {k: frozenset(w for (w, _) in v) for k, v in ev_in.items()}


def at_exit(g, ev_in):
    return ev_in.get((g.exit, 0), frozenset())


# --------------------------------------------------------------------------
# work item typestate
# --------------------------------------------------------------------------

_IDENT = re.compile(r'^[\w$@]+$')


def _is_varname(s):
    return bool(_IDENT.match(s))


def _src_of(E):
    """where a list node pointer was read from: ('head'|'tail', key) for X.next / X.prev with key = (record, field)
    of the list head X, ('var', name) for a local head, ('ptr', name) for p->next."""
    m = strip(E)
    if isinstance(m, dict) and m.get('k') == 'member' and m.get('record') == LH and m['field'] in ('next', 'prev'):
        which = 'head' if m['field'] == 'next' else 'tail'
        b = strip(m['base'])
        if not isinstance(b, dict):
            return None
        if not m['arrow']:
            if b.get('k') == 'member':
                return (which, (b.get('record'), b['field']))
            if b.get('k') == 'var':
                return (which, ('var', b['name']))
        elif b.get('k') == 'var':
            return (which, ('ptr', b['name']))
    return None


class Items:
    """Alias typestate of `rec` objects linked through `rec.link`, evaluated per world (h12.worlds).

    An abstract object is (names, phase, src, ulocked).  names: ('i', v) local v points to the object, ('n', s) local or
    access path s points to its list node.  Objects are created by the *definition* that takes them from a list
    (`v = container_of(X.next, rec, link)`, `n = X.next`), so every statement about "the item whose work function is
    called here" is relative to that definition -- independent of loop shape and of how the code is cut into helpers.
    phases: taken -> unlinked -> worked -> queued ; unlinked/worked -> completed ; anything unexpected -> bad;
    (_join, the must-join of two partitions, is kept for users that want a single summary per point)."""

    def __init__(self, g, rec='iv_work_item', link='list', lock=None):
        self.g, self.rec, self.link, self.lock = g, rec, link, lock
        self.ls = locksets(g)
        # one alias/typestate partition per world: no information is lost where paths join
        self.ev_in = worlds(g, frozenset(), lambda e, S: [self._tr(e, S)])

    # -- names -------------------------------------------------------------
    def names_for(self, E):
        out = set()
        s = strip(E)
        if isinstance(s, dict) and s.get('k') == 'addr':
            m = strip(s['e'])
            if last_member(m) == (self.rec, self.link) and m.get('arrow'):
                b = varname(m['base'])
                if b:
                    out.add(('i', b))
            return out
        for nm in names_of(E):
            out.add(('n', nm))
        return out

    @staticmethod
    def find(S, names):
        for o in S:
            if o[0] & names:
                return o
        return None

    def obj_of_var(self, S, v):
        return self.find(S, {('i', v)})

    @staticmethod
    def _replace(S, old, new):
        S = set(S)
        S.discard(old)
        if new is not None and new[0]:
            S.add(new)
        return frozenset(S)

    @staticmethod
    def _mentions(s, v):
        return s == v or bool(re.search(r'(?<![\w$@])%s(?![\w$@])' % re.escape(v), s))

    @classmethod
    def _unbind(cls, S, v):
        out = set()
        for o in S:
            nm = frozenset(n for n in o[0] if not cls._mentions(n[1], v))
            if nm:
                out.add((nm,) + o[1:])
        return frozenset(out)

    @staticmethod
    def _kill_mem(S):
        out = set()
        for o in S:
            nm = frozenset(n for n in o[0] if _is_varname(n[1]))
            if nm:
                out.add((nm,) + o[1:])
        return frozenset(out)

    # -- transfer -----------------------------------------------------------
    def _tr(self, e, S):
        ev = e['ev']
        if ev == 'decl':
            return self._unbind(S, e['name'])
        if ev == 'store':
            l = strip(e['lhs'])
            if l.get('k') == 'var':
                x = l['name']
                S = self._unbind(S, x)
                if e.get('op') != '=' or 'rhs' not in e:
                    return S
                r = strip(e['rhs'])
                if not isinstance(r, dict):
                    return S
                if r.get('k') == 'container_of' and r.get('record') == self.rec and r.get('member') == self.link:
                    nm = {n for n in self.names_for(r['e']) if not self._mentions(n[1], x)}
                    o = self.find(S, nm)
                    if o is not None:
                        return self._replace(S, o, (o[0] | {('i', x)},) + o[1:])
                    src = _src_of(r['e'])
                    return S | {(frozenset(nm | {('i', x)}), 'taken', src, False)}
                if r.get('k') == 'member' and r.get('record') == LH and r['field'] in ('next', 'prev') \
                        and (l.get('record') == LH or LH in str(l.get('type', ''))):
                    nm = {n for n in self.names_for(e['rhs']) if not self._mentions(n[1], x)}
                    o = self.find(S, nm)
                    if o is not None:
                        return self._replace(S, o, (o[0] | {('n', x)},) + o[1:])
                    return S | {(frozenset(nm | {('n', x)}), 'taken', _src_of(r), False)}
                if r.get('k') == 'var':
                    o = self.find(S, {('i', r['name']), ('n', r['name'])})
                    if o is not None:
                        tag = 'i' if ('i', r['name']) in o[0] else 'n'
                        return self._replace(S, o, (o[0] | {(tag, x)},) + o[1:])
                    return S
                if r.get('k') == 'addr':
                    o = self.find(S, {n for n in self.names_for(e['rhs']) if n[0] == 'i'})
                    if o is not None:
                        return self._replace(S, o, (o[0] | {('n', x)},) + o[1:])
                return S
            if set(lvalue_steps(e['lhs'])) & LIST_KEYS or l.get('k') in ('deref', 'index'):
                return self._kill_mem(S)
            return S
        if ev != 'call':
            return S
        nm = e.get('callee')
        if nm in DEL and e.get('args'):
            o = self.find(S, self.names_for(e['args'][0]))
            S2 = S
            if o is not None:
                locked = self.lock is None or self.lock in held(self.ls.get((e['_b'], e['_i'])))
                new = (o[0], 'unlinked' if o[1] == 'taken' else 'bad', o[2], locked)
                S2 = self._replace(S, o, new)
            return self._kill_mem(S2)
        if nm in ADD and e.get('args'):
            o = self.find(S, self.names_for(e['args'][0]))
            S2 = S
            if o is not None:
                new = (o[0], 'queued' if o[1] in ('worked', 'unlinked') else 'bad', o[2], o[3])
                S2 = self._replace(S, o, new)
            return self._kill_mem(S2)
        ck = callback_kind(e) if 'fnexpr' in e else None
        if ck and ck[0] == 'callback' and ck[1] in ('work', 'completion'):
            b = varname(strip(e['fnexpr']).get('base'))
            o = self.obj_of_var(S, b) if b else None
            S2 = S
            if o is not None:
                if ck[1] == 'work':
                    ph = 'worked' if o[1] == 'unlinked' else 'bad'
                else:
                    ph = 'completed' if o[1] in ('unlinked', 'worked') else 'bad'
                S2 = self._replace(S, o, (o[0], ph, o[2], o[3]))
            return self._kill_mem(S2)
        if 'fnexpr' in e or (nm and nm not in QUIET_CALLS):
            S = self._kill_mem(S)
        # a local whose address is passed out may be rewritten
        for a in e.get('args', []):
            a = strip(a)
            if isinstance(a, dict) and a.get('k') == 'addr':
                v = strip(a['e'])
                if isinstance(v, dict) and v.get('k') == 'var' and v.get('ptr'):
                    S = self._unbind(S, v['name'])
        return S

    @staticmethod
    def _join(a, b):
        if a == b:
            return a
        out = set()
        for oa in a:
            for ob in b:
                nm = oa[0] & ob[0]
                if nm:
                    out.add((nm, oa[1] if oa[1] == ob[1] else 'mixed', oa[2] if oa[2] == ob[2] else None, oa[3] and ob[3]))
        return frozenset(out)

    # -- queries --------------------------------------------------------------
    def before(self, e):
        """the alias/typestate partitions that can hold before event e (one per world)"""
        return self.ev_in.get((e['_b'], e['_i']), frozenset())

    def callee_objects(self, e):
        """per world: the abstract object the indirect call `v->work(...)` / `v->completion(...)` is made on (None: unknown)"""
        b = varname(strip(e['fnexpr']).get('base'))
        return [self.obj_of_var(S, b) if b else None for S in self.before(e)]

    def var_objects(self, e, v):
        return [self.obj_of_var(S, v) if v else None for S in self.before(e)]

    def arg_objects(self, e, i=0):
        a = e['args'][i] if len(e.get('args', [])) > i else None
        return [self.find(S, self.names_for(a)) if a is not None else None for S in self.before(e)]
