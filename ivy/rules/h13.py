"""Helpers of the C13 rules.

Everything here is formulated on *roles* and *calling contexts*: a context is an entry point of the library (exported
function, constructor, or a function whose address is taken: handler, thread body, destructor) with every static
helper inlined (exported functions are operations in their own right and are not entered).  Sites are found by what
they do (`free` of a record, `started_threads--`, `pthr_create`, ...), objects by their record type, fields by
(record, field); nothing depends on the name of a static function, of a local or of a parameter.

A context is normalised (ctx_of) so that the rules see one spelling of what the program does:
  fold_builtin_expect / switch_on_bool      likely(), switch ((int)!!c)
  normalise_fields + _derive_renames        grouping sub-structs flattened; regrouped / renamed fields found by role
  fold_deref_addr, retype_untyped_pointers  out-parameters (`*(&x)`), `void *` variables used as one record type
  recover_containers                        open-coded container_of, a member pointer P of T = container_of(P, ..) is &T->m
  substitute_ptr_locals                     locals that hold an address, a function or iv_list_empty(&X)
  fold_const_tables                         reads of const tables / structs of functions
  partition_values                          trace partitioning on what is known about locals (constants, zero-ness,
                                            ranges, functions, outcomes of `c ? a : b`): infeasible paths are removed,
                                            indirect calls the program text decides get their target
  enter_resolved_calls + dispatch_only      those calls are entered; their targets are no entry points of their own
"""
import copy
import json
from ..core import (AnalysisBroken, Inliner, Block, canon, strip, walk, last_member, lvalue_steps, norm_cond, forward,
                    root_var, is_int, is_null, PURE_CALLS, subst, simplify, fold, partition_flags, copy_propagate)
from ..analyses import is_call, locksets, held, lock_effect, _mem_keys
from .. import roles

POOL = 'work_pool_priv.lock'
INT0 = ('int', 0)


# --------------------------------------------------------------------------
# contexts
# --------------------------------------------------------------------------

def _cache(prog):
    c = getattr(prog, '_h13_cache', None)
    if c is None:
        c = {}
        prog._h13_cache = c
    return c


def ctx_of(prog, f):
    """f with every static helper inlined (normalised: flags partitioned, copies propagated, grouping sub-structs
    flattened, fields that were regrouped/renamed identified by their role and spelled with their canonical name)."""
    c = _cache(prog)
    if 'renames' not in c:
        _derive_renames(prog)
    key = ('ctx', f.q)
    if key not in c:
        g = Inliner(prog, stop=lambda t: not t.static).inline(f)
        for _round in range(4):
            renorm = resolve_ghost_calls(g)
            if _round == 0:
                expand_struct_stores(prog, g)
                if scalarise_structs(prog, g):
                    renorm = True
            if renorm:
                partition_flags(g)           # the result variables / struct fields are flags now
                try:
                    copy_propagate(g)
                except AnalysisBroken:
                    pass
            if grouped(prog):
                normalise_fields(prog, g, {})
            fold_builtin_expect(g)
            switch_on_bool(g)
            for _it in range(4):
                # `c = &pool->started_threads; *c += 1` is `pool->started_threads += 1` only after the local was
                # substituted; `t = &pool->threads; t->nr--` is `pool->threads.nr--`: iterate
                n = fold_fn_deref(g) + fold_deref_addr(g) + retype_untyped_pointers(g) + recover_containers(prog, g) + fold_const_tables(prog, g)
                if substitute_ptr_locals(g):
                    n += 1
                    if grouped(prog):
                        normalise_fields(prog, g, {})
                if not n:
                    break
            gained = partition_values(g, prog)
            g2 = enter_resolved_calls(prog, g, _round + 1)
            if g2 is not None:
                g = g2
            elif not gained[0]:
                break                       # (pruned edges may make more locals single-valued: another round)
        if c['renames'] and not c.get('deriving'):
            normalise_fields(prog, g, c['renames'])
        c[key] = g
    return c[key]


# --------------------------------------------------------------------------
# field identity: grouping sub-structs are flattened; a field that was regrouped or renamed is found by its role
# --------------------------------------------------------------------------

OWNERS = ('work_pool_priv', 'work_pool_thread', 'iv_thread')
# the fields the rules speak about, under the names they have in the property text
USED = {
    'work_pool_priv': ('lock', 'ev', 'shutting_down', 'started_threads', 'idle_threads', 'thread_start', 'thread_stop',
                       'seq_head', 'seq_tail', 'work_done'),
    'work_pool_thread': ('list', 'kicked', 'kick', 'idle_timer'),
    'iv_thread': ('list', 'dead', 'start_routine'),
}
LIST_MOVE = ('iv_list_splice', 'iv_list_splice_init', 'iv_list_splice_tail', 'iv_list_splice_tail_init',
             '__iv_list_steal_elements', '__iv_list_splice')


def is_group(prog, rec):
    """a record that only groups fields of its owner: an anonymous struct, or a struct private to a .c file, embedded by value"""
    if not rec or rec in OWNERS:
        return False
    r = prog.records.get(rec)
    if not r or r.get('union') or 'fields' not in r:
        return False
    if rec.startswith('<anon@'):
        return True
    return str(r.get('loc') or '').split(':')[0].endswith('.c')


def flat_fields(prog, rec, prefix='', depth=0):
    """the fields of a record with grouping sub-structs flattened (`seq.head`)"""
    out = []
    for fl in (prog.records.get(rec) or {}).get('fields', []):
        sub = fl.get('record')
        if sub and not fl.get('ptr') and depth < 4 and is_group(prog, sub) and '[' not in str(fl.get('type', '')):
            out += flat_fields(prog, sub, prefix + fl['name'] + '.', depth + 1)
        else:
            out.append(dict(fl, name=prefix + fl['name']))
    return out


def grouped(prog):
    c = _cache(prog)
    if 'grouped' not in c:
        c['grouped'] = any('.' in fl['name'] for R in OWNERS for fl in flat_fields(prog, R))
    return c['grouped']


def norm_expr(prog, x, ren):
    """x with member chains through grouping sub-structs of the owner records flattened to one step
    (`pool->seq.head`: field `seq.head` of work_pool_priv) and fields renamed by the table ren."""
    if isinstance(x, list):
        return [norm_expr(prog, y, ren) for y in x]
    if not isinstance(x, dict):
        return x
    out = {k: (norm_expr(prog, v, ren) if isinstance(v, (dict, list)) else v) for k, v in x.items()}
    k = out.get('k')
    if k == 'member':
        b = out.get('base')
        if not out.get('arrow') and isinstance(b, dict) and b.get('k') == 'member' and b.get('record') in OWNERS \
                and is_group(prog, out.get('record')):
            out = dict(out, arrow=b['arrow'], base=b['base'], record=b['record'], field=b['field'] + '.' + out['field'])
        if ren and out.get('record') in OWNERS:
            c_ = ren.get((out['record'], out['field']))
            if c_:
                out = dict(out, field=c_)
    elif k == 'container_of' and ren and out.get('record') in OWNERS:
        c_ = ren.get((out['record'], out.get('member')))
        if c_:
            out = dict(out, member=c_)
    return out


def norm_event(prog, e):
    """a copy of an event of a source function (not of a context) with its expressions normalised like a context's"""
    if 'renames' not in _cache(prog):
        _derive_renames(prog)
    ren = _cache(prog).get('renames') or {}
    if not ren and not grouped(prog):
        return e
    return {k: (norm_expr(prog, v, ren) if (isinstance(v, (dict, list)) and k != 'chain') else v) for k, v in e.items()}


def normalise_fields(prog, g, ren):
    for blk in g.blocks.values():
        for e in blk.events:
            for k, v in list(e.items()):
                if isinstance(v, (dict, list)) and k != 'chain':
                    e[k] = norm_expr(prog, v, ren)
        if blk.term and blk.term.get('cond') is not None:
            blk.term = dict(blk.term, cond=norm_expr(prog, blk.term['cond'], ren))
    for a in ('_h13_al', '_h13_fc', '_h13_arith'):
        if hasattr(g, a):
            setattr(g, a, None)


def _intlike(fl):
    if fl.get('record') or fl.get('ptr') or fl.get('fnptr') or '*' in str(fl.get('type', '')) or '[' in str(fl.get('type', '')):
        return False
    t = str(fl.get('type', '')).replace('unsigned ', '').replace('signed ', '').replace('volatile ', '').strip()
    return t in ('int', 'long', 'short', 'char', 'unsigned', 'long long', '_Bool', 'bool', 'size_t', 'ssize_t') \
        or (t.endswith('_t') and 'int' in t)


def _kind(fl):
    if 'mutex' in str(fl.get('type', '')) or fl.get('record') == 'pthread_mutex_t':
        return 'mutex'
    if fl.get('fnptr'):
        return 'fnptr'
    if fl.get('record') and not fl.get('ptr'):
        return fl['record']
    if _intlike(fl):
        return 'int'
    return None


def store_delta(e):
    """net change a store makes to its integer target: +n / -n, None for anything else"""
    if e['ev'] != 'store':
        return None
    op = e.get('op')
    if op == '++':
        return 1
    if op == '--':
        return -1

    def ival(x):
        x = strip(x)
        if isinstance(x, dict) and x.get('k') == 'un' and x.get('op') == '-' and is_int(x.get('e')):
            return -strip(x['e'])['v']
        return x['v'] if is_int(x) else None
    if op in ('+=', '-=') and 'rhs' in e:
        n = ival(e['rhs'])
        return None if n is None else (n if op == '+=' else -n)
    r = strip(e.get('rhs')) if op == '=' and 'rhs' in e else None
    if isinstance(r, dict) and r.get('k') == 'bin' and r.get('op') in ('+', '-') and canon(r['l']) == canon(e['lhs']):
        n = ival(r['r'])
        return None if n is None else (n if r['op'] == '+' else -n)
    return None


def _derive_renames(prog):
    """{(record, actual flattened field): canonical name} for the fields the rules speak about that do not exist under
    their name: first a regrouped field that kept its name as the last component (`state.shutting_down`), then the one
    field that plays the role (by type where the record has one field of the kind, else by what the entry points of
    the library do with it).  Nothing is derived for names that exist; an ambiguous or missing role stays unresolved
    (the rules then miss their anchor)."""
    c = _cache(prog)
    c['renames'] = {}
    todo = {}
    for R in OWNERS:
        ff = flat_fields(prog, R)
        names = {fl['name'] for fl in ff}
        miss = [u for u in USED[R] if u not in names]
        if miss and ff:
            todo[R] = (ff, miss)
    if not todo:
        return
    c['deriving'] = True
    ren = {}
    try:
        ctxs = [(r, ctx_of(prog, r)) for r in entry_points(prog)]
        for R, (ff, miss) in sorted(todo.items()):
            free = [fl for fl in ff if fl['name'] not in USED[R]]
            for u in miss:
                cands = [fl for fl in free if fl['name'].split('.')[-1] == u]
                if len(cands) != 1:
                    cands = [fl for fl in free if _plays(prog, ctxs, R, u, fl, ff)]
                if len(cands) == 1 and (R, cands[0]['name']) not in ren:
                    ren[(R, cands[0]['name'])] = u
    finally:
        c['deriving'] = False
    for k_ in [k_ for k_ in c if not (isinstance(k_, tuple) and k_[0] == 'ctx') and k_ not in ('grouped', 'donly', 'roots')]:
        del c[k_]
    c['renames'] = ren
    if ren:
        for k_, g in c.items():
            if isinstance(k_, tuple) and k_[0] == 'ctx':
                normalise_fields(prog, g, ren)


def _plays(prog, ctxs, R, role, fl, ff):
    """does field fl of record R play the role of the field the property calls `role`?"""
    me = (R, fl['name'])
    kind = _kind(fl)
    by_type = {('work_pool_priv', 'lock'): 'mutex',
               ('work_pool_thread', 'list'): 'iv_list_head', ('work_pool_thread', 'kick'): 'iv_event',
               ('work_pool_thread', 'idle_timer'): 'iv_timer', ('work_pool_thread', 'kicked'): 'int',
               ('iv_thread', 'list'): 'iv_list_head', ('iv_thread', 'dead'): 'iv_event', ('iv_thread', 'start_routine'): 'fnptr'}
    if (R, role) in by_type:
        return kind == by_type[(R, role)] and sum(1 for x in ff if _kind(x) == kind) == 1

    def exported(name):
        return [(r, g) for (r, g) in ctxs if r.name == name and not r.static]

    def stores(g):
        return [e for e in g.events() if e['ev'] == 'store' and lvalue_steps(e['lhs']) == [me]]

    def frees_owner(g):
        return any(is_call(e, 'free') and e.get('args') and obj_record(e['args'][0]) == R for e in g.events())
    if R != 'work_pool_priv':
        return False
    if role == 'ev':
        if kind != 'iv_event':
            return False
        for (r, g) in ctxs:
            for e in g.events():
                if e['ev'] == 'store' and 'rhs' in e and lvalue_steps(e['lhs'])[:1] == [('iv_event', 'handler')] and me in lvalue_steps(e['lhs']):
                    t = func_arg(prog, g, {'args': [e['rhs']], 'fn': e.get('fn')}, 0)
                    if t is not None and frees_owner(ctx_of(prog, t)):
                        return True
        return False
    if role == 'shutting_down':
        return kind == 'int' and any(e.get('op') == '=' and is_int(e.get('rhs')) and strip(e['rhs'])['v'] != 0
                                     for (r, g) in exported('iv_work_pool_put') for e in stores(g))
    if role == 'started_threads':
        up = any(store_delta(e) == 1 for (r, g) in ctxs if any(is_call(x, 'iv_thread_create') for x in g.events()) for e in stores(g))
        down = any(store_delta(e) == -1 for (r, g) in ctxs for e in stores(g))
        return kind == 'int' and up and down
    if role in ('seq_tail', 'seq_head'):
        if kind != 'int':
            return False
        sub = {id(g) for (r, g) in exported('iv_work_pool_submit_work')}
        ups = [(id(g) in sub) for (r, g) in ctxs for e in stores(g) if store_delta(e) == 1]
        downs = any((store_delta(e) or 0) < 0 for (r, g) in ctxs for e in stores(g))
        if not ups or downs:
            return False
        return any(ups) if role == 'seq_tail' else not any(ups)
    if role == 'idle_threads':
        return kind == 'iv_list_head' and any(e['ev'] == 'call' and e.get('callee') in LIST_ON and lm_arg(e, 1) == me
                                              and (lm_arg(e, 0) or (None,))[0] == 'work_pool_thread' for (r, g) in ctxs for e in g.events())
    if role == 'work_done':
        return kind == 'iv_list_head' and any(e['ev'] == 'call' and e.get('callee') in LIST_MOVE and lm_arg(e, 0) == me
                                              for (r, g) in ctxs if frees_owner(g) for e in g.events())
    if role in ('thread_start', 'thread_stop'):
        return kind == 'fnptr' and any(e.get('op') == '=' and 'rhs' in e and last_member(e['rhs']) == ('iv_work_pool', role)
                                       for (r, g) in ctxs for e in stores(g))
    return False


def scalarise_structs(prog, g):
    """Scalar replacement of small struct locals that are only ever copied as a whole and accessed field by field
    (`const struct worker_verdict v = worker_verdict_locked(pool); if (v.exit) ...`: the "locked part" of a function
    hands its decisions back by value): `v.f` becomes the local `v.f`, `v = w` one assignment per field, an initialiser
    list one assignment per field (0 for the fields it leaves out).  Returns the number of variables replaced."""
    def rec_of(v):
        r = v.get('record') if not v.get('ptr') else None
        if r is None and not v.get('record'):
            t = str(v.get('type', '')).replace('const ', '').strip()
            if t.startswith('struct ') and '*' not in t and '[' not in t:
                r = t[len('struct '):].strip()
        return r if (r and r in prog.records and not prog.records[r].get('union')) else None

    def small(r):
        fl = prog.records[r].get('fields') or []
        return 0 < len(fl) <= 8 and all(not (f.get('record') and not f.get('ptr')) and '[' not in str(f.get('type', '')) for f in fl)
    cands, bad = {}, set()
    for e in g.events():
        if e['ev'] in ('enter', 'leave'):
            continue
        for k_, x in e.items():
            if not isinstance(x, (dict, list)) or k_ == 'chain':
                continue
            for y in walk(x):
                if y.get('k') == 'var' and y.get('vk') == 'local':
                    r = rec_of(y)
                    if r and small(r):
                        cands.setdefault(y['name'], r)
        if e['ev'] == 'decl' and e.get('record') and not e.get('ptr') and e.get('record') in prog.records and small(e['record']) \
                and '[' not in str(e.get('type', '')):
            cands.setdefault(e['name'], e['record'])
    if not cands:
        return 0

    def classify(x, parent_ok):
        """mark candidates that occur other than as `v.f`, as a whole-copy operand, or in decl/ret"""
        if isinstance(x, list):
            for y in x:
                classify(y, False)
            return
        if not isinstance(x, dict):
            return
        if x.get('k') == 'var' and x.get('name') in cands and not parent_ok:
            bad.add(x['name'])
            return
        if x.get('k') == 'member' and not x.get('arrow'):
            b = x.get('base')
            if isinstance(b, dict) and b.get('k') == 'var' and b.get('name') in cands:
                return
        for k_, v in x.items():
            if isinstance(v, (dict, list)):
                classify(v, False)
    for e in g.events():
        if e['ev'] in ('enter', 'leave'):
            for y in walk(e.get('args', [])):
                if y.get('k') == 'var' and y.get('name') in cands:
                    bad.add(y['name'])
            continue
        if e['ev'] == 'ret':
            v = strip(e.get('value')) if 'value' in e else None
            if isinstance(v, dict) and v.get('k') == 'var' and v.get('name') in cands and not e.get('chain') is None:
                continue
        if e['ev'] == 'load':
            x = e.get('e')
            y = x
            while isinstance(y, dict) and y.get('k') == 'load':
                y = y['e']
            if isinstance(y, dict) and y.get('k') == 'var' and y.get('name') in cands:
                continue
        if e['ev'] == 'store' and e.get('op') == '=' and 'rhs' in e:
            l, r = strip(e['lhs']), e['rhs']
            r0 = r
            while isinstance(r0, dict) and r0.get('k') in ('load', 'compound') and 'e' in r0:
                r0 = r0['e']
            if isinstance(l, dict) and l.get('k') == 'var' and l.get('name') in cands:
                if isinstance(r0, dict) and ((r0.get('k') == 'var' and r0.get('name') in cands and cands[r0['name']] == cands[l['name']])
                                             or r0.get('k') == 'init'):
                    if r0.get('k') == 'init':
                        classify(r0.get('fields', {}), False)
                    continue
                if isinstance(r0, dict) and r0.get('k') == 'member' and r0.get('trecord') == cands[l['name']] \
                        and not any(y.get('k') in ('call', 'assign', 'incdec', 'stmtexpr', 'cond') for y in walk(r0)):
                    classify(r0, False)     # `w = pool->seq;`: a copy of a struct that lives in memory
                    continue
                bad.add(l['name'])
                classify(r, False)
                continue
        for k_, x in e.items():
            if isinstance(x, (dict, list)) and k_ != 'chain':
                classify(x, False)
    for blk in g.blocks.values():
        if blk.term and blk.term.get('cond') is not None:
            classify(blk.term['cond'], False)
    # a copy partner that is not replaceable spoils the other side
    ch = True
    while ch:
        ch = False
        for e in g.events():
            if e['ev'] == 'store' and e.get('op') == '=' and 'rhs' in e:
                l = strip(e['lhs'])
                r0 = e['rhs']
                while isinstance(r0, dict) and r0.get('k') in ('load', 'compound') and 'e' in r0:
                    r0 = r0['e']
                if isinstance(l, dict) and l.get('k') == 'var' and isinstance(r0, dict) and r0.get('k') == 'var' \
                        and l.get('name') in cands and r0.get('name') in cands:
                    if (l['name'] in bad) != (r0['name'] in bad):
                        bad |= {l['name'], r0['name']}
                        ch = True
    good = {v: r for v, r in cands.items() if v not in bad}
    if not good:
        return 0

    def fvar(v, fl):
        out = {'k': 'var', 'name': '%s.%s' % (v, fl['name']), 'vk': 'local', 'type': fl.get('type')}
        if fl.get('record'):
            out['record'] = fl['record']
            out['ptr'] = bool(fl.get('ptr'))
        return out

    def fields(r):
        return prog.records[r]['fields']

    def rw(x):
        if isinstance(x, list):
            return [rw(y) for y in x]
        if not isinstance(x, dict):
            return x
        if x.get('k') == 'member' and not x.get('arrow'):
            b = x.get('base')
            if isinstance(b, dict) and b.get('k') == 'var' and b.get('name') in good:
                fl = next((f for f in fields(good[b['name']]) if f['name'] == x['field']), None)
                if fl is not None:
                    return fvar(b['name'], fl)
        return {k: (rw(v) if isinstance(v, (dict, list)) else v) for k, v in x.items()}
    for blk in g.blocks.values():
        evs = []
        for e in blk.events:
            if e['ev'] == 'decl' and e.get('name') in good:
                for fl in fields(good[e['name']]):
                    evs.append({'ev': 'decl', 'name': '%s.%s' % (e['name'], fl['name']), 'type': fl.get('type'), 'loc': e.get('loc'),
                                'chain': e.get('chain', []), 'fn': e.get('fn')})
                init = e.get('init')
                if isinstance(init, dict) and init.get('k') == 'init':
                    for fl in fields(good[e['name']]):
                        val = (init.get('fields') or {}).get(fl['name'], {'k': 'int', 'v': 0})
                        evs.append({'ev': 'store', 'op': '=', 'lhs': fvar(e['name'], fl), 'rhs': rw(val), 'loc': e.get('loc'),
                                    'chain': e.get('chain', []), 'fn': e.get('fn')})
                continue
            if e['ev'] == 'load':
                y = e.get('e')
                while isinstance(y, dict) and y.get('k') == 'load':
                    y = y['e']
                if isinstance(y, dict) and y.get('k') == 'var' and y.get('name') in good:
                    continue
            if e['ev'] == 'store' and e.get('op') == '=' and 'rhs' in e:
                l = strip(e['lhs'])
                r0 = e['rhs']
                while isinstance(r0, dict) and r0.get('k') in ('load', 'compound') and 'e' in r0:
                    r0 = r0['e']
                if isinstance(l, dict) and l.get('k') == 'var' and l.get('name') in good:
                    for fl in fields(good[l['name']]):
                        if isinstance(r0, dict) and r0.get('k') == 'init':
                            val = rw((r0.get('fields') or {}).get(fl['name'], {'k': 'int', 'v': 0}))
                        elif isinstance(r0, dict) and r0.get('k') == 'member':
                            val = {'k': 'load', 'e': {'k': 'member', 'arrow': False, 'base': rw(r0), 'record': good[l['name']],
                                                      'field': fl['name'], 'type': fl.get('type')}}
                        else:
                            val = {'k': 'load', 'e': fvar(r0['name'], fl)}
                        evs.append(dict({k_: v_ for k_, v_ in e.items() if k_ not in ('lhs', 'rhs')}, lhs=fvar(l['name'], fl), rhs=val))
                    continue
            if e['ev'] == 'ret' and 'value' in e:
                v = strip(e['value'])
                if isinstance(v, dict) and v.get('k') == 'var' and v.get('name') in good:
                    evs.append({k_: v_ for k_, v_ in e.items() if k_ != 'value'})
                    continue
            evs.append({k_: (rw(v_) if (isinstance(v_, (dict, list)) and k_ != 'chain') else v_) for k_, v_ in e.items()})
        blk.events = evs
        if blk.term and blk.term.get('cond') is not None:
            blk.term = dict(blk.term, cond=rw(blk.term['cond']))
    for b in g.blocks.values():
        for i, e in enumerate(b.events):
            e['_b'] = b.id
            e['_i'] = i
    for a in ('_h13_al', '_h13_fc', '_h13_live', '_h13_arith'):
        if hasattr(g, a):
            setattr(g, a, None)
    return len(good)


def expand_struct_stores(prog, g):
    """`*thr = (struct T) { .dead = { .cookie = thr, .handler = h }, .tid = 0, ... };` is one assignment per (leaf)
    field: `thr->dead.cookie = thr; thr->dead.handler = h; ...` (in the order of the record's fields)"""
    def init_of(x):
        while isinstance(x, dict) and x.get('k') in ('load', 'compound', 'cast') and 'e' in x:
            x = x['e']
        return x if (isinstance(x, dict) and x.get('k') == 'init' and x.get('record') in prog.records and isinstance(x.get('fields'), dict)) else None
    n = 0
    for blk in g.blocks.values():
        if not any(e['ev'] == 'store' and e.get('op') == '=' and 'rhs' in e and init_of(e['rhs']) is not None for e in blk.events):
            continue
        evs = []
        for e in blk.events:
            ini = init_of(e['rhs']) if (e['ev'] == 'store' and e.get('op') == '=' and 'rhs' in e) else None
            l = e.get('lhs') if ini is not None else None
            l0 = l
            while isinstance(l0, dict) and l0.get('k') in ('cast',) and 'e' in l0:
                l0 = l0['e']
            if ini is None or not (isinstance(l0, dict) and (l0.get('k') == 'deref' or l0.get('k') == 'member')):
                evs.append(e)
                continue

            def emit(base_lhs, arrow, ptr_expr, rec, init):
                fls = {f['name']: f for f in (prog.records.get(rec) or {}).get('fields', [])}
                for fname in [f['name'] for f in (prog.records.get(rec) or {}).get('fields', [])]:
                    if fname not in init['fields']:
                        continue
                    val = init['fields'][fname]
                    fl = fls[fname]
                    m = {'k': 'member', 'arrow': arrow, 'base': ptr_expr if arrow else base_lhs, 'record': rec, 'field': fname, 'type': fl.get('type')}
                    if fl.get('record'):
                        m['trecord'] = fl['record']
                        m['tptr'] = bool(fl.get('ptr'))
                    sub = init_of(val)
                    if sub is not None and fl.get('record') and not fl.get('ptr'):
                        emit(m, False, None, fl['record'], sub)
                    else:
                        evs.append(dict({k_: v_ for k_, v_ in e.items() if k_ not in ('lhs', 'rhs')}, lhs=m, rhs=val))
            if l0.get('k') == 'deref':
                emit(None, True, l0['e'], ini['record'], ini)
            else:
                emit(l0, False, None, ini['record'], ini)
            n += 1
        blk.events = evs
    if n:
        for b in g.blocks.values():
            for i, e in enumerate(b.events):
                e['_b'] = b.id
                e['_i'] = i
    return n


def fold_fn_deref(g):
    """`(*fp)(args)` calls fp"""
    n = 0
    for e in g.events():
        if e['ev'] == 'call' and 'fnexpr' in e:
            x = e['fnexpr']
            y = x
            while isinstance(y, dict) and y.get('k') in ('load', 'cast') and 'e' in y:
                y = y['e']
            # only when what is dereferenced is the function pointer itself (the result has function type), not a
            # pointer to a function pointer (`(*hookp)(arg)` with hookp = &pool->thread_stop)
            if isinstance(y, dict) and y.get('k') == 'deref' and isinstance(y.get('e'), dict):
                t = str(strip(y['e']).get('type', '**') if isinstance(strip(y['e']), dict) else '**').replace('const', '').replace('volatile', '').replace(' ', '')
                if '(**' in t or (t.endswith('*') and '(*' not in t):
                    continue
                e['fnexpr'] = y['e']
                n += 1
    return n


def fold_deref_addr(g):
    """`*(&x)` reads/writes x: an out-parameter of an inlined helper (`*thrp = thr` with thrp = &thr) is a plain
    assignment to the caller's local.  core.simplify does this when nothing (a load) sits between the two operators."""
    n_ = [0]

    def rb(x):
        if isinstance(x, list):
            return [rb(y) for y in x]
        if not isinstance(x, dict):
            return x
        out = {k: (rb(v) if isinstance(v, (dict, list)) else v) for k, v in x.items()}
        if out.get('k') == 'deref':
            b = out.get('e')
            while isinstance(b, dict) and b.get('k') == 'load' and 'e' in b:
                b = b['e']
            if isinstance(b, dict) and b.get('k') == 'addr' and isinstance(b.get('e'), dict):
                n_[0] += 1
                return b['e']
        return out
    if not any(x.get('k') == 'deref' for e in g.events() for x in walk(e)):
        return 0
    for blk in g.blocks.values():
        for e in blk.events:
            for k, v in list(e.items()):
                if isinstance(v, (dict, list)) and k != 'chain':
                    e[k] = rb(v)
        if blk.term and blk.term.get('cond') is not None:
            blk.term = dict(blk.term, cond=rb(blk.term['cond']))
    return n_[0]


def resolve_ghost_calls(g):
    """The inliner replaces the expression of an inlined call by its result variable only in the rest of the *source
    block* of the call; when the value is used in another block (`return a && !helper(p);`, `x = helper(p) ? A : B;`
    -- the CFG evaluates `&&` and `?:` in blocks of their own) the later expression still spells the call.  Such a
    "ghost" call is replaced by the result variable of the inlined instance that reaches it."""
    leaves = [e for e in g.events() if e['ev'] == 'leave' and e.get('retvar') and e.get('targets')]
    if not leaves:
        return 0
    names = {}
    for e in leaves:
        names[id(e)] = (e['targets'][0].split(':')[-1], e.get('loc'))
    keys = set(names.values())

    def ghost(x):
        return x.get('k') == 'call' and (x.get('callee'), x.get('loc')) in keys
    if not any(ghost(x) for e in g.events() if e['ev'] not in ('enter', 'leave') for x in walk(e)) \
            and not any(blk.term and blk.term.get('cond') is not None and any(ghost(x) for x in walk(blk.term['cond'])) for blk in g.blocks.values()):
        return 0

    # (a path on which the call was not made did not need its value: `a && !helper(p)` with a false, so any instance that
    # reaches the use will do, provided all that reach it are the same variable)
    def tr(e, S):
        if id(e) in names:
            k_ = names[id(e)]
            return frozenset(x for x in S if x[0] != k_) | {(k_, e['retvar'], str(e.get('rettype') or ''))}
        return S
    _, ev_in = forward(g, frozenset(), tr, lambda a, b: a | b)
    n_ = [0]

    def rewrite(x, S):
        m, bad = {}, set()
        for (k_, rv, ty) in S:
            if k_ in m and m[k_][0] != rv:
                bad.add(k_)
            m[k_] = (rv, ty)
        for k_ in bad:
            m.pop(k_, None)

        def rep(nd):
            if ghost(nd) and (nd.get('callee'), nd.get('loc')) in m:
                rv, ty = m[(nd.get('callee'), nd.get('loc'))]
                n_[0] += 1
                return {'k': 'load', 'e': {'k': 'var', 'name': rv, 'vk': 'local', 'type': ty}}
            return None
        return subst(x, rep)
    for bid, blk in g.blocks.items():
        for i, e in enumerate(blk.events):
            S = ev_in.get((bid, i))
            if not S or e['ev'] in ('enter', 'leave', 'call'):
                continue
            for key in ('rhs', 'args', 'value', 'e'):
                if key in e and isinstance(e[key], (dict, list)) and any(ghost(y) for y in walk(e[key])):
                    e[key] = rewrite(e[key], S)
        S = ev_in.get((bid, len(blk.events)))
        if S and blk.term and blk.term.get('cond') is not None and any(ghost(y) for y in walk(blk.term['cond'])):
            blk.term = dict(blk.term, cond=rewrite(blk.term['cond'], S))
    return n_[0]


def fold_builtin_expect(g):
    """`likely(x)` / `unlikely(x)` (`__builtin_expect(!!(x), c)`) have the value of their first argument"""
    if not any(x.get('k') == 'call' and x.get('callee') == '__builtin_expect' for e in g.events() for x in walk(e)) \
            and not any(blk.term and blk.term.get('cond') is not None and
                        any(x.get('k') == 'call' and x.get('callee') == '__builtin_expect' for x in walk(blk.term['cond'])) for blk in g.blocks.values()):
        return 0
    n_ = [0]

    def rb(x):
        if isinstance(x, list):
            return [rb(y) for y in x]
        if not isinstance(x, dict):
            return x
        out = {k: (rb(v) if isinstance(v, (dict, list)) else v) for k, v in x.items()}
        if out.get('k') == 'call' and out.get('callee') == '__builtin_expect' and out.get('args'):
            n_[0] += 1
            return out['args'][0]
        return out
    for blk in g.blocks.values():
        evs = []
        for e in blk.events:
            if e['ev'] == 'call' and e.get('callee') == '__builtin_expect':
                continue                     # the evaluation itself: no effect
            for k, v in list(e.items()):
                if isinstance(v, (dict, list)) and k != 'chain':
                    e[k] = rb(v)
            evs.append(e)
        if len(evs) != len(blk.events):
            blk.events = evs
        if blk.term and blk.term.get('cond') is not None:
            blk.term = dict(blk.term, cond=rb(blk.term['cond']))
    for b in g.blocks.values():
        for i, e in enumerate(b.events):
            e['_b'] = b.id
            e['_i'] = i
    return n_[0]


def switch_on_bool(g):
    """`switch (!!c) { case 1: A; break; default: B; }` is `if (c) A else B`: a switch whose controlling expression is a
    truth value (comparison, `!`, `&&`, `||`) and whose cases are 0 / 1 / default becomes a two-way branch on it."""
    n = 0
    for blk in g.blocks.values():
        t = blk.term
        if not (t and t.get('cls') == 'SwitchStmt' and t.get('cond') is not None and len(t.get('cases', [])) == len(blk.succ)):
            continue
        c = strip(t['cond'])
        if not (isinstance(c, dict) and ((c.get('k') == 'bin' and c.get('op') in ('==', '!=', '<', '>', '<=', '>=', '&&', '||'))
                                         or (c.get('k') == 'un' and c.get('op') == '!'))):
            continue
        cases = t['cases']
        if any(not (cv in (0, 1, 'default')) or isinstance(cv, bool) for cv in cases):
            continue
        by = {}
        for si, cv in enumerate(cases):
            by.setdefault(cv, blk.succ[si])
        tru = by.get(1, by.get('default'))
        fal = by.get(0, by.get('default'))
        if tru is None or fal is None:
            continue
        blk.term = {'cls': 'IfStmt', 'cond': c, 'loc': t.get('loc', ''), 'was': 'SwitchStmt'}
        blk.succ = [tru, fal]
        n += 1
    if n:
        g._preds = None
    return n


def recover_containers(prog, g):
    """Open-coded container_of spread over several statements
    (`char *base = (char *)ev - offsetof(struct T, m); return (struct T *)base;`) is made a container_of node at the
    store that gives the result its record type; afterwards, where `T = container_of(P, R, m)` is still valid, a read
    of the member pointer P is a read of `&T->m` (`iv_event_unregister(dead)` with thr = container_of(dead, iv_thread,
    dead) unregisters `&thr->dead`).  Only locals with a single definition that are never address-taken take part."""
    taken, ndefs, dstore = set(), {}, {}
    for e in g.events():
        for x in (walk(e) if e['ev'] not in ('enter', 'load') else ()):
            if x.get('k') == 'addr':
                v = strip(x['e'])
                if isinstance(v, dict) and v.get('k') == 'var':
                    taken.add(v['name'])
        if e['ev'] == 'store':
            l = strip(e['lhs'])
            if isinstance(l, dict) and l.get('k') == 'var':
                ndefs[l['name']] = ndefs.get(l['name'], 0) + 1
                dstore[l['name']] = e
    single = {v for v, n in ndefs.items() if n == 1 and v not in taken}

    def arith(x, at, depth=0):
        """(pointer variable node, byte offset subtracted, event that computed it) when x is `P - c` through casts and
        single-definition copies; at: the event in which x occurs"""
        x = strip(x)
        if not isinstance(x, dict) or depth > 4:
            return None
        if x.get('k') == 'bin' and x.get('op') == '-' and _intval(x.get('r')) is not None:
            p = strip(x['l'])
            if isinstance(p, dict) and p.get('k') == 'var' and p.get('vk') in ('local', 'param'):
                return (p, _intval(x['r']), at)
            return None
        if x.get('k') == 'var' and x['name'] in single and x.get('vk') == 'local':
            d = dstore[x['name']]
            if d.get('op') == '=' and 'rhs' in d:
                return arith(d['rhs'], d, depth + 1)
        return None

    def unchanged_between(name, e1, e2):
        """e2 follows e1 in straight-line code and nothing in between assigns the variable"""
        if e1 is e2:
            return True
        b, i = e1['_b'], e1['_i'] + 1
        for _ in range(64):
            blk = g.blocks.get(b)
            if blk is None:
                return False
            for e in blk.events[i:]:
                if e is e2:
                    return True
                if e['ev'] == 'store' and strip(e['lhs']).get('k') == 'var' and strip(e['lhs'])['name'] == name:
                    return False
            if len(blk.succ) != 1 or blk.succ[0] is None:
                return False
            b, i = blk.succ[0], 0
        return False

    def field_at(rec, off, prec):
        for fl in (prog.records.get(rec) or {}).get('fields', []):
            if fl.get('offset') == off and not fl.get('ptr') and (prec is None or fl.get('record') == prec):
                return fl['name']
        return None
    n = 0
    avail_defs = []
    for e in g.events():
        if e['ev'] == 'store' and e.get('op') == '=' and 'rhs' in e:
            l = strip(e['lhs'])
            lrec = None
            if isinstance(l, dict) and l.get('k') == 'var':
                lrec = l.get('record') if l.get('ptr') else None
                t_ = str(l.get('type', '')).strip()
                if lrec is None and t_.startswith('struct ') and t_.endswith('*') and t_.count('*') == 1:
                    lrec = t_[len('struct '):-1].strip()          # `$retN` carries only the type
            if lrec and lrec in prog.records and l['name'] in single:
                r0 = strip(e['rhs'])
                if isinstance(r0, dict) and r0.get('k') == 'container_of':
                    continue
                a = arith(e['rhs'], e)
                l = dict(l, record=lrec)
                if a and a[1] > 0 or (a and a[0].get('record') and a[0].get('record') != l['record']):
                    m = field_at(l['record'], a[1], a[0].get('record'))
                    if m is not None and a[0]['name'] not in taken and (ndefs.get(a[0]['name'], 0) <= 1 or unchanged_between(a[0]['name'], a[2], e)):
                        e['rhs'] = {'k': 'container_of', 'record': l['record'], 'member': m, 'e': {'k': 'load', 'e': dict(a[0])}, '_open': True}
                        n += 1
    # inverse: P is &T->m while T = container_of(P, R, m) holds (T and P have one definition each)
    inv = {}
    for e in g.events():
        if e['ev'] == 'store' and e.get('op') == '=' and 'rhs' in e:
            l, r = strip(e['lhs']), strip(e['rhs'])
            if isinstance(l, dict) and l.get('k') == 'var' and l['name'] in single and l.get('vk') == 'local' \
                    and isinstance(r, dict) and r.get('k') == 'container_of':
                p = strip(r.get('e'))
                if isinstance(p, dict) and p.get('k') == 'var' and p['name'] not in taken and ndefs.get(p['name'], 0) <= 1 \
                        and p.get('vk') in ('local', 'param') and p['name'] not in inv:
                    inv[p['name']] = (e, l, r)
                    e['_keep'] = True          # T stays a variable (substitute_ptr_locals would put the container_of back)
    if inv:
        # the definition of T must dominate the use: a forward must-analysis of "T = container_of(P..) was executed"
        def tr(e, S):
            for pn, (d, l, r) in inv.items():
                if e is d:
                    S = S | {pn}
            return S
        _, ev_in = forward(g, frozenset(), tr, lambda a_, b_: a_ & b_)

        def rewrite(x, S):
            def rep(nd):
                if nd.get('k') == 'load':
                    inner = nd.get('e')
                    if isinstance(inner, dict) and inner.get('k') == 'var' and inner['name'] in S:
                        (d, l, r) = inv[inner['name']]
                        return {'k': 'addr', 'e': {'k': 'member', 'arrow': True, 'base': {'k': 'load', 'e': dict(l)},
                                                   'record': r['record'], 'field': r['member'], 'trecord': inner.get('record')},
                                '_was': inner['name']}
                return None
            return subst(x, rep)
        for bid, blk in g.blocks.items():
            for i, e in enumerate(blk.events):
                S = ev_in.get((bid, i))
                if not S or e['ev'] == 'load' or any(e is d for (d, _, _) in inv.values()):
                    continue
                for key in ('rhs', 'args', 'fnexpr', 'value'):
                    if key in e and any(y.get('k') == 'var' and y.get('name') in S for y in walk(e[key])):
                        e[key] = rewrite(e[key], S)
                        n += 1
    return n


def was_of(x):
    """the local whose read copy propagation replaced by the expression x (looked for on x and on its load/cast wrappers)"""
    while isinstance(x, dict):
        if x.get('_was') is not None:
            return x['_was']
        if x.get('k') in ('load', 'cast', 'stmtexpr') and 'e' in x:
            x = x['e']
        else:
            break
    return None


def obj_record(x):
    """record of the object a pointer expression denotes: a typed variable, or container_of(...) (also where a local
    that held it was substituted)"""
    x = strip(x)
    if isinstance(x, dict) and x.get('k') == 'var':
        return x.get('record')
    if isinstance(x, dict) and x.get('k') == 'container_of':
        return x.get('record')
    return None


def retype_untyped_pointers(g):
    """A `void *` variable that is only ever dereferenced as one record type (`iv_thread_reap(_thr, 1)` with the handler's
    `void *_thr` substituted for the helper's typed parameter) is a pointer to that record: its reads get the record
    annotation that typed variables carry, so that `free(_thr)` is recognised as the release of that object."""
    recs, nodes = {}, {}
    for e in g.events():
        for x in walk(e):
            if x.get('k') == 'var' and x.get('vk') in ('local', 'param') and not x.get('record'):
                nodes.setdefault(x['name'], []).append(x)
            elif x.get('k') == 'member' and x.get('arrow') and x.get('record'):
                b = strip(x.get('base'))
                if isinstance(b, dict) and b.get('k') == 'var' and not b.get('record'):
                    recs.setdefault(b['name'], set()).add(x['record'])
    n = 0
    for name, rs in recs.items():
        if len(rs) == 1 and 'void' in str((nodes.get(name) or [{}])[0].get('type', '')):
            for x in nodes.get(name, ()):
                x['record'] = next(iter(rs))
                x['ptr'] = True
                n += 1
    return n


def fold_const_tables(prog, g):
    """a read of an element of a const static table / struct of functions with a constant index (`ops.kick`,
    `steps[2]`) is the function named in the initialiser: `thr->kick.handler = ops->kick` installs that function"""
    if prog is None:
        return 0
    n_ = [0]

    def rb(x, e):
        if isinstance(x, list):
            return [rb(y, e) for y in x]
        if not isinstance(x, dict):
            return x
        out = {k: (rb(v, e) if isinstance(v, (dict, list)) else v) for k, v in x.items()}
        if out.get('k') == 'load':
            m = out.get('e')
            if isinstance(m, dict) and m.get('k') in ('member', 'index'):
                t = dispatch_table(prog, g, e, m)
                if t:
                    key = m.get('field') if m['k'] == 'member' else (strip(m['idx'])['v'] if is_int(m.get('idx')) else None)
                    if key in t:
                        n_[0] += 1
                        return {'k': 'var', 'name': t[key], 'vk': 'func'}
        return out
    cands = set()
    for key, gl in prog.globals.items():
        if isinstance(gl, dict) and isinstance(gl.get('init'), dict) and 'const' in str(gl.get('type', '')):
            cands.add(gl.get('name'))
    if not any(x.get('k') == 'var' and x.get('vk') in ('global', 'staticlocal') and x.get('name') in cands for e in g.events() for x in walk(e)):
        return 0
    for blk in g.blocks.values():
        for e in blk.events:
            if e['ev'] == 'call' and 'fnexpr' in e:
                # the callee expression itself is resolved by partition_values (the call is entered)
                for k, v in list(e.items()):
                    if isinstance(v, (dict, list)) and k not in ('chain', 'fnexpr'):
                        e[k] = rb(v, e)
                continue
            for k, v in list(e.items()):
                if isinstance(v, (dict, list)) and k != 'chain':
                    e[k] = rb(v, e)
    return n_[0]


def substitute_ptr_locals(g):
    """`struct iv_event *ev = &thr->dead; iv_event_post(ev);` reads like `iv_event_post(&thr->dead)`.
    core.copy_propagate does this for cached *values* (`idx = fd->u.index`); this is the same available-copies analysis
    for locals that hold an *address* (`&P->f`, `container_of(p, T, m)`): a read of the local is replaced by the
    address expression wherever, on every path from the definition, neither the local nor any variable the expression
    reads was re-assigned (pointer fields it reads through must not be written anywhere in the context)."""
    taken, stored = set(), set()
    for e in g.events():
        for x in (walk(e) if e['ev'] not in ('enter', 'load') else ()):     # 'enter' only records the arguments of an inlined call
            if x.get('k') == 'addr':
                v = strip(x['e'])
                if isinstance(v, dict) and v.get('k') == 'var':
                    taken.add(v['name'])
        if e['ev'] == 'store':
            stored |= set(lvalue_steps(e['lhs']))

    def is_listq(r):
        return isinstance(r, dict) and r.get('k') == 'call' and r.get('callee') == 'iv_list_empty' and len(r.get('args', [])) == 1 \
            and isinstance(strip(r['args'][0]), dict) and strip(r['args'][0]).get('k') == 'addr' \
            and not any(y.get('k') in ('call', 'assign', 'incdec', 'stmtexpr', 'cond') for y in walk(r['args'][0]))

    def usable(name, rhs):
        r = strip(rhs)
        if isinstance(r, dict) and r.get('k') == 'var' and r.get('vk') == 'func':
            return True                       # `handler_fn died = iv_thread_died;`: the local is that function
        if is_listq(r):
            return True                       # `e = iv_list_empty(&X)`: valid until a list is written (see tr)
        if not (isinstance(r, dict) and r.get('k') in ('addr', 'container_of')):
            return False
        if r.get('k') == 'addr' and strip(r['e']).get('k') == 'var' and strip(r['e']).get('vk') not in ('global', 'staticlocal'):
            return False                      # &local: not a path into an object
        for y in walk(rhs):
            k = y.get('k')
            if k in ('call', 'assign', 'incdec', 'stmtexpr', 'cond', 'other', 'deep', 'va_arg', 'deref', 'index'):
                return False
            if k == 'var' and y.get('name') == name:
                return False
            if k == 'load':
                inner = strip(y)
                if isinstance(inner, dict) and inner.get('k') == 'member' and (inner.get('record'), inner.get('field')) in stored:
                    return False
        return True

    # core.copy_propagate spells a read of a caching local as the access path it cached (`&pool->idle_threads` becomes
    # `&this->priv->idle_threads`, annotated _was=pool).  For an *address* kept in a local that makes the address depend
    # on memory that may be written later (`this->priv = NULL`): restore the read of the local when it has one definition.
    ndefs, protos = {}, {}
    for e in g.events():
        if e['ev'] == 'store':
            l = strip(e['lhs'])
            if isinstance(l, dict) and l.get('k') == 'var':
                ndefs[l['name']] = ndefs.get(l['name'], 0) + 1
                protos[l['name']] = l

    def restore(x):
        def rep(nd):
            w = nd.get('_was')
            if w is not None and nd.get('k') in ('load', 'member') and ndefs.get(w) == 1 and w not in taken and protos[w].get('vk') == 'local':
                return {'k': 'load', 'e': {k_: v_ for k_, v_ in protos[w].items() if k_ != '_was'}}
            return None
        return subst(x, rep) if any('_was' in y for y in walk(x)) else x
    dcache = {}

    def defn(e):
        if id(e) in dcache:
            return dcache[id(e)]
        out = None
        if e['ev'] == 'store' and e.get('op') == '=' and 'rhs' in e and not e.get('_keep'):
            l = strip(e['lhs'])
            if isinstance(l, dict) and l.get('k') == 'var' and l.get('vk') == 'local' and l['name'] not in taken:
                r0 = strip(e['rhs'])
                rhs = restore(e['rhs']) if (isinstance(r0, dict) and r0.get('k') in ('addr', 'container_of')) else e['rhs']
                if usable(l['name'], rhs):
                    reads = frozenset(y['name'] for y in walk(rhs) if y.get('k') == 'var' and y.get('vk') != 'func')
                    out = (l['name'], json.dumps(strip(rhs), sort_keys=True, default=str), reads)
        dcache[id(e)] = out
        return out
    if not any(defn(e) for e in g.events()):
        return 0

    def tr(e, S):
        if e['ev'] == 'store':
            l = strip(e['lhs'])
            if isinstance(l, dict) and l.get('k') == 'var':
                S = frozenset(x for x in S if x[0] != l['name'] and l['name'] not in x[2])
            elif any(st_[0] == 'iv_list_head' for st_ in lvalue_steps(e['lhs'])) or (isinstance(l, dict) and l.get('k') in ('deref', 'index')):
                S = frozenset(x for x in S if '"iv_list_empty"' not in x[1])
        elif e['ev'] == 'call' and (e.get('callee') not in PURE_CALLS or e.get('callee') is None) and any('"iv_list_empty"' in x[1] for x in S):
            # anything that is not known to be pure may relink a list (list primitives, callbacks, unlock lets others in)
            S = frozenset(x for x in S if '"iv_list_empty"' not in x[1])
            for a_ in e.get('args', []):
                a_ = strip(a_)
                if isinstance(a_, dict) and a_.get('k') == 'addr':
                    v = strip(a_['e'])
                    if isinstance(v, dict) and v.get('k') == 'var':
                        S = frozenset(x for x in S if x[0] != v['name'] and v['name'] not in x[2])
        elif e['ev'] == 'decl':
            S = frozenset(x for x in S if x[0] != e['name'] and e['name'] not in x[2])
        elif e['ev'] == 'call':
            for a_ in e.get('args', []):
                a_ = strip(a_)
                if isinstance(a_, dict) and a_.get('k') == 'addr':
                    v = strip(a_['e'])
                    if isinstance(v, dict) and v.get('k') == 'var':
                        S = frozenset(x for x in S if x[0] != v['name'] and v['name'] not in x[2])
        d = defn(e)
        if d:
            S = frozenset(x for x in S if x[0] != d[0]) | {d}
        return S
    _, ev_in = forward(g, frozenset(), tr, lambda x, y: x & y)
    n_ = [0]

    def rewrite(x, S):
        avail = {v: ex for (v, ex, _) in S}
        if not avail:
            return x
        def rep(nd):
            if nd.get('k') == 'load':
                inner = nd.get('e')
                if isinstance(inner, dict) and inner.get('k') == 'var' and inner.get('vk') == 'local' and inner['name'] in avail:
                    n_[0] += 1
                    out = json.loads(avail[inner['name']])
                    out['_was'] = inner['name']
                    return out
            return None
        return simplify(subst(x, rep))
    for bid, blk in g.blocks.items():
        for i, e in enumerate(blk.events):
            S = ev_in.get((bid, i))
            if not S:
                continue
            if e['ev'] == 'load':
                if strip(e['e']).get('k') != 'var':
                    e['e'] = rewrite(e['e'], S)
                continue
            for key in ('rhs', 'args', 'fnexpr', 'value'):
                if key in e:
                    e[key] = rewrite(e[key], S)
            if e['ev'] == 'store' and strip(e['lhs']).get('k') != 'var':
                e['lhs'] = rewrite(e['lhs'], S)
        S = ev_in.get((bid, len(blk.events)))
        if S and blk.term and blk.term.get('cond') is not None:
            blk.term = dict(blk.term, cond=rewrite(blk.term['cond'], S))
    g._h13_al = None
    g._h13_fc = None
    return n_[0]


class _Reinliner(Inliner):
    """Inliner whose instance numbers (`name@N`, `$retN`) continue after those of an earlier round"""

    def __init__(self, prog, offset, **kw):
        Inliner.__init__(self, prog, **kw)
        self._offset = offset

    def _emit(self, f, ren, chain, active, depth, retvar):
        if depth == 0:
            self.instances = self._offset
        return Inliner._emit(self, f, ren, chain, active, depth, retvar)


def enter_resolved_calls(prog, g, rnd):
    """Indirect calls of g whose target partition_values() found are entered like direct calls of that function
    (static targets are inlined, exported ones become plain calls by name).  None when there is nothing to do."""
    todo = [e for e in g.events() if e['ev'] == 'call' and e.get('_target') and 'fnexpr' in e]
    if not todo:
        return None
    for e in todo:
        e['callee'] = e.pop('_target')
        e['_via'] = e.pop('fnexpr')
        if e.get('used'):
            # the value of the call is used by a later event of the block (`return finish(...)`): the expression there must
            # name the callee too, so that the inliner replaces it by the result variable
            blk = g.blocks.get(e['_b'])
            def rep(nd, e=e):
                if nd.get('k') == 'call' and 'fnexpr' in nd and nd.get('loc') == e.get('loc'):
                    m = {k_: v_ for k_, v_ in nd.items() if k_ != 'fnexpr'}
                    m['callee'] = e['callee']
                    return m
                return None
            for x in (blk.events if blk else ()):
                if x is e:
                    continue
                for k_ in ('rhs', 'args', 'value', 'e', 'lhs'):
                    if k_ in x and isinstance(x[k_], (dict, list)) and any(y.get('k') == 'call' and 'fnexpr' in y and y.get('loc') == e.get('loc') for y in walk(x[k_])):
                        x[k_] = subst(x[k_], rep)
            if blk is not None and blk.term and blk.term.get('cond') is not None:
                blk.term = dict(blk.term, cond=subst(blk.term['cond'], rep))
    root = getattr(g, 'inlined_from', None) or g
    while getattr(root, 'inlined_from', None) is not None:
        root = root.inlined_from
    g2 = _Reinliner(prog, 1000 * rnd, stop=lambda t: not t.static).inline(g)
    g2.inlined_from = root
    return g2


def dispatch_table(prog, fn, e, x):
    """{index or field: function name} of the const static table / struct of functions the callee expression x selects from"""
    if x.get('k') == 'index' or (x.get('k') == 'member' and not x.get('arrow')):
        b = x.get('base')
        while isinstance(b, dict) and b.get('k') == 'load':
            b = b.get('e')
    else:
        return None
    if not (isinstance(b, dict) and b.get('k') == 'var' and b.get('vk') in ('global', 'staticlocal')):
        return None
    origin = prog.funcs.get(e.get('fn')) if e.get('fn') else None
    u = prog.unit_of(origin or fn)
    g = prog.global_for(u, b['name']) if u else prog.globals.get(b['name'])
    if not isinstance(g, dict) or 'const' not in str(g.get('type', '')):
        return None
    init = g.get('init')
    if not (isinstance(init, dict) and init.get('k') == 'init'):
        return None

    def fname(v):
        v = strip(v)
        if isinstance(v, dict) and v.get('k') == 'addr':
            v = strip(v['e'])
        return v['name'] if isinstance(v, dict) and v.get('k') == 'var' and v.get('vk') == 'func' else None
    if 'elems' in init:
        out = {i: fname(v) for i, v in enumerate(init['elems'])}
    elif 'fields' in init:
        out = {k_: fname(v) for k_, v in init['fields'].items()}
    else:
        return None
    return {k_: v for k_, v in out.items() if v}


def dispatch_target(prog, fn, e, st=None):
    """name of the function an indirect call event enters when the program text decides that: a call through a const
    static table of functions with a known index (`step[next](thr)`), through a member of a const static struct of
    functions (`ops.die(thr)`), or through a local that is known to hold a function (st: known values of locals)."""
    if e['ev'] != 'call' or 'fnexpr' not in e:
        return None
    x = strip(e['fnexpr'])
    if not isinstance(x, dict):
        return None
    if x.get('k') == 'var':
        if x.get('vk') == 'func':
            return x['name']
        v = (st or {}).get(x['name'])
        return v[1] if isinstance(v, tuple) and v[0] == 'F' else None
    if prog is None:
        return None
    tbl = dispatch_table(prog, fn, e, x)
    if tbl is None:
        return None
    if x.get('k') == 'index':
        i = strip(x['idx'])
        n = None
        if is_int(i):
            n = i['v']
        elif isinstance(i, dict) and i.get('k') == 'var':
            v = (st or {}).get(i['name'])
            n = v[1] if isinstance(v, tuple) and v[0] == 'I' else (0 if v == 'Z' else None)
        return tbl.get(n) if n is not None else None
    return tbl.get(x.get('field'))


def dispatch_vars(prog, fn):
    """locals that select the target of an indirect call: function-pointer locals that are called, index locals of
    calls through a const table of functions"""
    out = set()
    for e in fn.events():
        if e['ev'] == 'call' and 'fnexpr' in e:
            x = strip(e['fnexpr'])
            if isinstance(x, dict) and x.get('k') == 'var' and x.get('vk') in ('local', 'param'):
                out.add(x['name'])
            elif isinstance(x, dict) and x.get('k') == 'index' and prog is not None and dispatch_table(prog, fn, e, x):
                i = strip(x['idx'])
                if isinstance(i, dict) and i.get('k') == 'var' and i.get('vk') in ('local', 'param'):
                    out.add(i['name'])
    return out


def partition_values(fn, prog=None, max_blocks=1500):
    """Trace partitioning on what is known about the value of locals (core.partition_flags does this for locals that
    only ever hold constants and are tested in a branch).

    * A helper that returns `NULL` on one path and the object on the other, whose caller tests the result again
      (`thr = alloc(); if (thr == NULL) return -1;`), leaves -- inlined -- a path "allocation failed, caller sees
      non-NULL" that no execution takes; a parameter replaced by the constant the caller passes leaves `if (0)`.
    * A local that selects the target of an indirect call (`next = WORKER_DIE; ...; step[next](thr);`,
      `action = c ? rearm : retire; action(thr);`) decides which function runs.

    Tracked: locals (never address-taken) that are tested against 0/NULL in a branch or select a call target, and
    the locals copied into them; known values: constants, function names, "some address", copies of known locals,
    the outcome of an earlier test or of the branch that evaluated the (side-effect free) condition of a `c ? a : b`.
    Blocks are duplicated per known state of the *live* tracked locals, the edges a state refutes are removed, a store
    of `c ? a : b` with constant arms takes the arm of the branch on exactly that condition taken just before (else it
    becomes a branch on c), and an indirect call whose target is known is marked with it (`_target`).  Purely a CFG refinement: every path of the result is a
    path of the input with the same events; nothing changes when no edge is refuted and no call resolved.
    Returns (#edges removed, #calls resolved)."""
    taken, defs = set(), {}
    for e in fn.events():
        for x in (walk(e) if e['ev'] not in ('enter', 'load') else ()):
            if x.get('k') == 'addr':
                v = strip(x['e'])
                if isinstance(v, dict) and v.get('k') == 'var':
                    taken.add(v['name'])
        if e['ev'] == 'store':
            l = strip(e['lhs'])
            if isinstance(l, dict) and l.get('k') == 'var' and l.get('vk') in ('local', 'param'):
                defs.setdefault(l['name'], []).append(e)

    def tested_var(atom):
        (op, lc, rc, l, r) = atom
        if op not in ('==', '!=', '<', '>', '<=', '>=') or not (is_null(r) or _intval(r) is not None):
            return None
        v = strip(l)
        if isinstance(v, dict) and v.get('k') == 'var' and v.get('vk') in ('local', 'param') and v['name'] not in taken:
            return v['name']
        # copy propagation spelled the read of a caching local as the access path it cached: still a test of the local
        w = was_of(l)
        if w is not None and w not in taken and w in defs and not (isinstance(v, dict) and v.get('k') in ('addr', 'container_of')):
            return w
        return None

    def unwas(c):
        # copy propagation spelled the read of a caching local as the access path it cached (`if (threads)` became
        # `if (pool->started_threads)` annotated _was=threads): for the purpose of this pass it is a test of the local
        def rep(nd):
            w = nd.get('_was')
            if w is not None and nd.get('k') in ('load', 'member') and w not in taken and w in defs:
                return {'k': 'load', 'e': {'k': 'var', 'name': w, 'vk': 'local'}}
            return None
        return subst(c, rep) if any('_was' in y for y in walk(c)) else c

    def edge_atoms(blk, si):
        """[(local, op, integer)] the edge asserts"""
        if not _two_way(blk):
            return []
        return [(tested_var(a), a[0], 0 if is_null(a[4]) else _intval(a[4])) for a in norm_cond(unwas(blk.term['cond']), si == 0)
                if a[0] != 'const' and tested_var(a)]

    def edge_const_false(blk, si):
        # a parameter replaced by the constant the caller passes leaves `if (0)` / `if (1)` / `if (1 == 0)`
        if not _two_way(blk):
            return False
        c = blk.term['cond']
        if any(y.get('k') == 'int' for y in walk(c)) and not any(y.get('k') in ('var', 'call', 'member') for y in walk(c)):
            c = fold(c)
        return any(a[0] == 'const' and a[1] == 'False' for a in norm_cond(c, si == 0))

    cand = set()
    for blk in fn.blocks.values():
        for si in (0, 1):
            cand |= {v for (v, _, _) in edge_atoms(blk, si)}
    dv = {v for v in dispatch_vars(prog, fn) if v not in taken}
    cand |= dv
    for blk in fn.blocks.values():
        if blk.term and blk.term.get('cls') == 'SwitchStmt' and blk.term.get('cond') is not None:
            v = strip(blk.term['cond'])
            if isinstance(v, dict) and v.get('k') == 'var' and v.get('vk') in ('local', 'param') and v['name'] not in taken:
                cand.add(v['name'])

    def arms(r):
        r = strip(r)
        if isinstance(r, dict) and r.get('k') == 'cond':
            return arms(r['a']) + arms(r['b'])
        return [r]
    ch = True
    while ch:
        ch = False
        for v in list(cand):
            for d in defs.get(v, ()):
                for r in (arms(d['rhs']) if (d.get('op') == '=' and 'rhs' in d) else ()):
                    if isinstance(r, dict) and r.get('k') == 'var' and r.get('vk') in ('local', 'param') and r['name'] not in taken \
                            and r['name'] not in cand:
                        cand.add(r['name'])
                        ch = True
    if not cand and not any(edge_const_false(blk, si) for blk in fn.blocks.values() for si in (0, 1)) \
            and not any(blk.term and blk.term.get('cls') == 'SwitchStmt' and _intval(blk.term.get('cond')) is not None for blk in fn.blocks.values()) \
            and not any(dispatch_target(prog, fn, e) or (prog is not None and isinstance(strip(e['fnexpr']), dict)
                                                         and strip(e['fnexpr']).get('k') == 'index' and dispatch_table(prog, fn, e, strip(e['fnexpr'])))
                        for e in fn.events() if e['ev'] == 'call' and 'fnexpr' in e and '_target' not in e):
        return (0, 0)

    def value_of(rhs, st):
        r = strip(rhs)
        while isinstance(r, dict) and r.get('k') == 'bin' and r.get('op') == ',':
            r = strip(r['r'])               # `(lock(), 1)`: the calls are events of their own, the value is the last operand
        if not isinstance(r, dict):
            return None
        if r.get('k') == 'null':
            return 'Z'
        if r.get('k') == 'int':
            return ('I', r['v'])
        if _intval(r) is not None:
            return ('I', _intval(r))
        if r.get('k') == 'container_of':
            return 'N'                      # the object around a (non-NULL) member pointer
        if r.get('k') == 'addr':
            f_ = strip(r['e'])
            if isinstance(f_, dict) and f_.get('k') == 'var' and f_.get('vk') == 'func':
                return ('F', f_['name'])
            return 'N'
        if r.get('k') == 'var' and r.get('vk') == 'func':
            return ('F', r['name'])
        if r.get('k') == 'var' and r['name'] in cand:
            return st.get(r['name'])
        return None

    def zero(v):
        if v is None:
            return None
        if isinstance(v, tuple) and v[0] == 'R':
            return 'N' if ((v[1] is not None and v[1] > 0) or (v[2] is not None and v[2] < 0)) else None
        return 'Z' if v in ('Z', ('I', 0)) else 'N'

    def cond_store(e):
        """(local, condition, arm if true, arm if false) of `v = c ? a : b` whose arms are constants (or again such
        conditional expressions), resp. of `v = (x == y)`"""
        if not (e['ev'] == 'store' and e.get('op') == '=' and 'rhs' in e):
            return None
        l, r = strip(e['lhs']), strip(e['rhs'])
        if not (isinstance(l, dict) and l.get('k') == 'var' and l['name'] in cand and isinstance(r, dict)):
            return None
        if (r.get('k') == 'bin' and r.get('op') in ('==', '!=', '<', '>', '<=', '>=', '&&', '||')) or (r.get('k') == 'un' and r.get('op') == '!'):
            # `v = (a == b)`: a branch on the comparison, v known on either side
            if any(y.get('k') in ('assign', 'incdec', 'stmtexpr', 'cond') or (y.get('k') == 'call' and y.get('callee') not in PURE_CALLS)
                   for y in walk(r)):
                return None
            return (l['name'], r, {'k': 'int', 'v': 1}, {'k': 'int', 'v': 0})
        if r.get('k') != 'cond':
            return None

        def const_arm(x):
            x = strip(x)
            if isinstance(x, dict) and x.get('k') == 'cond':
                return const_arm(x['a']) or const_arm(x['b'])
            v_ = value_of(x, {})
            return v_ is not None and v_ != 'N'

        def plain_arm(x):
            # a constant, or a read without side effects (`c ? pool->thread_stop : no_hook`)
            return not any(y.get('k') in ('assign', 'incdec', 'stmtexpr') or (y.get('k') == 'call' and y.get('callee') not in PURE_CALLS)
                           for y in walk(x))
        if not (const_arm(r['a']) or const_arm(r['b'])) or not plain_arm(r['a']) or not plain_arm(r['b']):
            return None
        # (a condition with a call in it cannot be branched on again: the call was made -- inlined -- when the CFG
        # evaluated it; it can still be matched with the outcome of that evaluation)
        return (l['name'], r['c'], r['a'], r['b'])

    def transfer(e, st):
        if e['ev'] == 'store':
            l = strip(e['lhs'])
            if isinstance(l, dict) and l.get('k') == 'var' and l['name'] in cand:
                name = l['name']
                v = value_of(e['rhs'], st) if (e.get('op') == '=' and 'rhs' in e) else None
                old_ = st.get(name)
                if v is None and isinstance(old_, tuple) and old_[0] == 'I' or (v is None and old_ == 'Z'):
                    d_ = store_delta(e)
                    if d_ is not None:
                        v = ('I', (old_[1] if isinstance(old_, tuple) else 0) + d_)
                st = dict(st)
                st.pop(name, None)
                if v:
                    st[name] = v
        elif e['ev'] == 'decl' and e.get('name') in cand and e['name'] in st:
            st = dict(st)
            st.pop(e['name'])
        return st

    # liveness of the tracked locals at block entry
    def reads(x):
        return {y['name'] for y in walk(x) if y.get('k') == 'var' and y.get('name') in cand}

    def block_use_def(blk):
        use, df = set(), set()
        for e in blk.events:
            r = set()
            plain = None
            if e['ev'] == 'store':
                l = strip(e['lhs'])
                if isinstance(l, dict) and l.get('k') == 'var' and e.get('op') == '=':
                    plain = l['name']
            for k_, x in e.items():
                if isinstance(x, (dict, list)) and not (k_ == 'lhs' and plain is not None):
                    r |= reads(x)
            use |= (r - df)
            if plain in cand:
                df.add(plain)
        if blk.term and blk.term.get('cond') is not None:
            use |= (reads(blk.term['cond']) - df)
        return use, df
    ud = {b: block_use_def(blk) for b, blk in fn.blocks.items()}
    live_in = {b: set() for b in fn.blocks}
    ch = True
    while ch:
        ch = False
        for b, blk in fn.blocks.items():
            out = set()
            for s_ in blk.succ:
                if s_ is not None:
                    out |= live_in.get(s_, set())
            lv = ud[b][0] | (out - ud[b][1])
            if lv != live_in[b]:
                live_in[b] = lv
                ch = True

    ids, work, newblocks = {}, [], {}
    gained = [0, 0, 0]          # edges removed, calls resolved, conditional stores split

    def node(b, i0, st, pre=None):
        if b == fn.exit:
            key = (b, 0, frozenset(), None)
        elif i0 == 0:
            key = (b, 0, frozenset((v, x) for (v, x) in st.items() if v in live_in[b] or v[:1] == '?'), None)
        else:
            key = (b, i0, frozenset(st.items()), id(pre))
        if key not in ids:
            ids[key] = len(ids)
            work.append((key, pre))
        return ids[key]

    def impure(x):
        return any(y.get('k') in ('assign', 'incdec', 'stmtexpr') or (y.get('k') == 'call' and y.get('callee') not in PURE_CALLS)
                   for y in walk(x))

    def switch_pick(blk, st):
        """index of the only successor a `switch (v)` on a local with a known value can take"""
        if not (blk.term and blk.term.get('cls') == 'SwitchStmt' and blk.term.get('cond') is not None
                and len(blk.term.get('cases', [])) == len(blk.succ)):
            return None
        v = strip(blk.term['cond'])
        if _intval(v) is not None:
            n = _intval(v)                  # a parameter replaced by the constant the caller passes
        elif isinstance(v, dict) and v.get('k') == 'var' and v['name'] in cand:
            x = st.get(v['name'])
            n = x[1] if isinstance(x, tuple) and x[0] == 'I' else (0 if x == 'Z' else None)
        else:
            return None
        if n is None:
            return None
        cases = blk.term['cases']
        for si, cv in enumerate(cases):
            if isinstance(cv, int) and not isinstance(cv, bool) and cv == n:
                return si
        for si, cv in enumerate(cases):
            if cv == 'default':
                return si
        return None

    entry = node(fn.entry, 0, {})
    while work:
        (key, pre) = work.pop()
        if len(ids) > max_blocks:
            return (0, 0)
        b, i0, fs, _ = key
        blk = fn.blocks[b]
        st = dict(fs)
        evs = []
        nb = Block(ids[key], evs, [], None, blk.noreturn)
        if hasattr(blk, 'labels'):
            nb.labels = blk.labels
        newblocks[nb.id] = nb
        split = False
        todo = ([(i0, pre)] if pre is not None else []) + [(i + 1, blk.events[i]) for i in range(i0, len(blk.events))]
        for (nxt, e) in todo:
            cs = cond_store(e)
            # the branch that evaluated the condition of this `c ? a : b` was taken just before: its outcome is known
            # (the outcomes of the conditional-operator branches on the path, oldest first, are matched with the nested
            # `c ? a : b` from the outside in: that is the order in which the CFG evaluates them)
            while cs is not None and st.get('?q'):
                q_ = st['?q']
                cn = canon(cs[1])
                if not any(y.get('k') == 'call' for y in walk(cs[1])):
                    # a side-effect free condition: only the outcome of the branch on exactly this condition will do
                    # (earlier entries belong to conditions that constant folding removed from the expression)
                    ix = next((i_ for i_, (o_, c_, a_) in enumerate(q_) if c_ == cn), None)
                else:
                    # the condition still spells a call (resolve_ghost_calls could not name its result): not decided here
                    ix = None
                if ix is None:
                    st = {k_: v_ for k_, v_ in st.items() if k_ != '?q'}
                    break
                o_ = q_[ix][0]
                e = dict(e, rhs=(cs[2] if o_ == 'T' else cs[3]))
                st = dict(st)
                st['?q'] = q_[ix + 1:]
                if not st['?q']:
                    del st['?q']
                cs = cond_store(e)
            if '?q' in st and any(y.get('k') == 'cond' for y in walk(e)):
                st = {k_: v_ for k_, v_ in st.items() if k_ != '?q'}              # some other use of a conditional expression
            if cs is not None and impure(cs[1]):
                cs = None
            if cs is not None:
                (name, c_, a_, b_) = cs
                nb.term = {'cls': 'FlagSplit', 'cond': c_, 'loc': e.get('loc', '')}
                nb.succ = [node(b, nxt, st, dict(e, rhs=a_)), node(b, nxt, st, dict(e, rhs=b_))]
                gained[2] += 1
                split = True
                break
            e2 = dict(e)
            if e['ev'] == 'call' and 'fnexpr' in e and '_target' not in e:
                t = dispatch_target(prog, fn, e, st)
                if t:
                    e2['_target'] = t
                    gained[1] += 1
                else:
                    # `action[!!thr->kicked](thr)`: a table of two, indexed by a truth value: a branch on it
                    x_ = strip(e['fnexpr'])
                    tb_ = dispatch_table(prog, fn, e, x_) if (prog is not None and isinstance(x_, dict) and x_.get('k') == 'index') else None
                    ix_ = strip(x_['idx']) if tb_ else None
                    if tb_ and set(tb_) >= {0, 1} and isinstance(ix_, dict) and not impure(ix_) and \
                            ((ix_.get('k') == 'un' and ix_.get('op') == '!') or (ix_.get('k') == 'bin' and ix_.get('op') in ('==', '!=', '<', '>', '<=', '>=', '&&', '||'))):
                        nb.term = {'cls': 'FlagSplit', 'cond': ix_, 'loc': e.get('loc', '')}
                        nb.succ = [node(b, nxt, st, dict(e, _target=tb_[1])), node(b, nxt, st, dict(e, _target=tb_[0]))]
                        gained[1] += 1
                        split = True
                        break
            st = transfer(e, st)
            evs.append(e2)
        if split:
            continue
        nb.term = dict(blk.term) if blk.term else None
        succ = []
        dropped = None
        only = switch_pick(blk, st)
        for si, s_ in enumerate(blk.succ):
            if s_ is None:
                succ.append(None)
                continue
            if only is not None and si != only:
                gained[0] += 1
                continue
            st2, ok = st, not edge_const_false(blk, si)
            for (v, op, m) in (edge_atoms(blk, si) if ok else ()):
                x2 = _refine(st2.get(v), op, m)
                if x2 == 'empty':
                    ok = False              # what is known about the local refutes the comparison
                    break
                if x2 != st2.get(v):
                    st2 = dict(st2)
                    if x2 is None:
                        st2.pop(v, None)
                    else:
                        st2[v] = x2
            if not ok:
                dropped = si
                gained[0] += 1
                continue
            # outcome of the evaluation of a conditional expression, remembered until the expression is used
            if '?q' in st2:
                q_ = tuple((o_, c_, a_ + 1) for (o_, c_, a_) in st2['?q'] if a_ < 6)
                st2 = {k_: v_ for k_, v_ in st2.items() if k_ != '?q'}
                if q_:
                    st2['?q'] = q_
            t_ = blk.term or {}
            if t_.get('cls') == 'ConditionalOperator' and _two_way(blk) and si in (0, 1):
                st2 = dict(st2)
                if not impure(t_['cond']):
                    st2['?q'] = st2.get('?q', ()) + (('T' if si == 0 else 'F', canon(t_['cond']), 0),)
            succ.append(node(s_, 0, st2))
        if only is not None:
            t = dict(nb.term, cls='Pruned')
            t.pop('cond', None)
            t.pop('cases', None)
            nb.term = t
        elif dropped is not None and _two_way(blk) and len(succ) == 1:
            t = dict(nb.term, cls='Pruned', pruned=('true' if dropped == 0 else 'false'))
            t.pop('cond', None)
            nb.term = t
        nb.succ = succ
    if not gained[0] and not gained[1]:
        return (0, 0)
    ex = ids.get((fn.exit, 0, frozenset(), None))
    fn.blocks = newblocks
    fn.entry = entry
    if ex is None:
        ex = max(newblocks) + 1
        fn.blocks[ex] = Block(ex, [], [], None)
    fn.exit = ex
    fn._preds = None
    for b in fn.blocks.values():
        for i, e in enumerate(b.events):
            e['_b'] = b.id
            e['_i'] = i
    for a in ('_h13_al', '_h13_fc', '_h13_live', '_h13_arith'):
        if hasattr(fn, a):
            setattr(fn, a, None)
    return (gained[0], gained[1])


def _refine(x, op, m):
    """abstract value of an integer / pointer local after the comparison `local op m` came out true: 'empty' when what
    was known refutes it.  Values: None (unknown), 'Z' (0 / NULL), 'N' (non-zero), ('I', n), ('F', function),
    ('R', lo, hi) (integer range, None = unbounded)."""
    if isinstance(x, tuple) and x[0] == 'F' or x == 'N':
        if m == 0 and op == '==':
            return 'empty'
        return x
    if x == 'Z':
        lo, hi = 0, 0
    elif isinstance(x, tuple) and x[0] == 'I':
        lo, hi = x[1], x[1]
    elif isinstance(x, tuple) and x[0] == 'R':
        lo, hi = x[1], x[2]
    else:
        lo, hi = None, None
    mx = lambda a_, b_: b_ if a_ is None else (a_ if b_ is None else max(a_, b_))
    mn = lambda a_, b_: b_ if a_ is None else (a_ if b_ is None else min(a_, b_))
    if op == '==':
        lo, hi = mx(lo, m), mn(hi, m)
    elif op == '!=':
        if lo == hi == m:
            return 'empty'
        if lo == m:
            lo = m + 1
        if hi == m:
            hi = m - 1
        if lo is None and hi is None:
            return 'N' if m == 0 else x
    elif op == '<':
        hi = mn(hi, m - 1)
    elif op == '<=':
        hi = mn(hi, m)
    elif op == '>':
        lo = mx(lo, m + 1)
    elif op == '>=':
        lo = mx(lo, m)
    if lo is not None and hi is not None and lo > hi:
        return 'empty'
    if lo is not None and lo == hi:
        return 'Z' if lo == 0 else ('I', lo)
    if lo is None and hi is None:
        return None
    return ('R', lo, hi)


def _intval(x):
    x = strip(x)
    if isinstance(x, dict) and x.get('k') == 'un' and x.get('op') == '-' and is_int(x.get('e')):
        return -strip(x['e'])['v']
    return x['v'] if is_int(x) else None


def dispatch_only(prog):
    """qualified names of static functions whose address is used only to select them as the target of a call that
    the program text decides: an element of a const static table / struct of functions that is only ever called
    through, or a value of a local function pointer that is only ever called.  They are entered where they are
    called (enter_resolved_calls) and are no entry points of their own."""
    c = _cache(prog)
    if 'donly' in c:
        return c['donly']
    esc, cand = set(), set()

    def res(u, name):
        t = (prog.resolve(u, name) if u else None) or prog.funcs.get(name)
        return t.q if t is not None else None
    # tables: const static aggregates of functions every use of which is the callee expression of a call
    tables = {}
    for key, g in prog.globals.items():
        init = g.get('init') if isinstance(g, dict) else None
        if not isinstance(init, dict):
            continue
        unit = g.get('unit') or (key.split(':')[0] if ':' in key else None)
        names = [res(unit, x['name']) for x in walk(init) if x.get('k') == 'var' and x.get('vk') == 'func']
        names = [n for n in names if n]
        if not names:
            continue
        if g.get('static') and 'const' in str(g.get('type', '')) and init.get('k') == 'init' and not g.get('record', '').startswith('iv_'):
            tables[(unit, g['name'])] = names
        else:
            esc |= set(names)
    used_ok = {k_: True for k_ in tables}
    # static helpers that *return* a function (`return shutting_down ? worker_die : worker_go_idle;`): the functions are
    # handed to whoever calls the helper (below: a local that is only called)
    fret = {}
    for f in prog.all_funcs():
        if not f.static:
            continue
        u = prog.unit_of(f)
        for e in f.events():
            if e['ev'] == 'ret' and 'value' in e:
                for a_ in _arms(e['value']):
                    if isinstance(a_, dict) and a_.get('k') == 'addr':
                        a_ = strip(a_['e'])
                    if isinstance(a_, dict) and a_.get('k') == 'var' and a_.get('vk') == 'func' and res(u, a_['name']):
                        fret.setdefault((u, f.name), set()).add(res(u, a_['name']))
    for f in prog.all_funcs():
        u = prog.unit_of(f)
        # locals of f that are only assigned and called
        lstore, lother, tptr, lelem = {}, set(), {}, {}
        for e in f.events():
            callee_base = None
            # `next = ops->exit;` / `next = c ? TABLE.a : TABLE.b;`: elements of a table read into a local (that must
            # itself only be called): the table variable / the table pointer under such a read is no escaping use
            elem_ok = set()
            if e['ev'] == 'ret' and 'value' in e and f.static:
                for a_ in _arms(e['value']):
                    if isinstance(a_, dict) and a_.get('k') == 'addr':
                        a_ = strip(a_['e'])
                    if isinstance(a_, dict) and a_.get('k') == 'var' and a_.get('vk') == 'func':
                        elem_ok.add(id(a_))             # accounted for through fret at the helper's call sites
            if e['ev'] == 'store' and e.get('op') == '=' and 'rhs' in e and isinstance(strip(e['lhs']), dict) \
                    and strip(e['lhs']).get('k') == 'var' and strip(e['lhs']).get('vk') == 'local':
                for a_ in _arms(e['rhs']):
                    if isinstance(a_, dict) and a_.get('k') == 'call' and (u, a_.get('callee')) in fret:
                        lstore.setdefault(strip(e['lhs'])['name'], set()).update(fret[(u, a_['callee'])])
                        elem_ok.add(id(a_))
                    if isinstance(a_, dict) and a_.get('k') in ('member', 'index'):
                        b_ = a_.get('base')
                        while isinstance(b_, dict) and b_.get('k') == 'load':
                            b_ = b_.get('e')
                        if isinstance(b_, dict) and b_.get('k') == 'var':
                            elem_ok.add(id(b_))
                            lelem.setdefault(strip(e['lhs'])['name'], []).append(b_)
            if e['ev'] == 'call' and 'fnexpr' in e:
                x = strip(e['fnexpr'])
                if isinstance(x, dict) and x.get('k') in ('index', 'member'):
                    b = x.get('base')
                    while isinstance(b, dict) and b.get('k') == 'load':
                        b = b.get('e')
                    if isinstance(b, dict) and b.get('k') == 'var' and (x.get('k') == 'index' or not x.get('arrow') or b.get('vk') == 'local'):
                        callee_base = b
            for k_, v in e.items():
                if not isinstance(v, (dict, list)):
                    continue
                for x in walk(v):
                    if x.get('k') == 'call' and (u, x.get('callee')) in fret and id(x) not in elem_ok and e['ev'] not in ('call', 'load'):
                        esc.update(fret[(u, x['callee'])])
                    if x.get('k') != 'var':
                        continue
                    if id(x) in elem_ok:
                        continue
                    if x.get('vk') in ('global', 'staticlocal') and (u, x['name']) in tables and x is not callee_base and e['ev'] != 'load':
                        # `ops = &TABLE` into a local that is itself only called through is as good as the table
                        l = strip(e['lhs']) if e['ev'] == 'store' else None
                        r = strip(e['rhs']) if (e['ev'] == 'store' and e.get('op') == '=' and 'rhs' in e) else None
                        if k_ == 'rhs' and isinstance(l, dict) and l.get('k') == 'var' and l.get('vk') == 'local' \
                                and isinstance(r, dict) and r.get('k') == 'addr' and strip(r['e']) is x:
                            tptr.setdefault(l['name'], set()).add((u, x['name']))
                        else:
                            used_ok[(u, x['name'])] = False
                    if x.get('vk') == 'func':
                        q = res(u, x['name'])
                        if q is None:
                            continue
                        l = strip(e['lhs']) if e['ev'] == 'store' else None
                        direct = e['ev'] == 'store' and k_ == 'rhs' and e.get('op') == '=' and isinstance(l, dict) and l.get('k') == 'var' \
                            and l.get('vk') == 'local' and any(a_ is x for a_ in _arms(e['rhs']))
                        if direct:
                            lstore.setdefault(l['name'], set()).add(q)
                        elif e['ev'] == 'call' and k_ == 'fnexpr' and strip(e['fnexpr']) is x:
                            pass
                        else:
                            esc.add(q)
                    elif x.get('vk') == 'local':
                        is_lhs = e['ev'] == 'store' and k_ == 'lhs' and strip(e['lhs']) is x
                        is_callee = e['ev'] == 'call' and k_ == 'fnexpr' and (strip(e['fnexpr']) is x or callee_base is x)
                        if not (is_lhs or is_callee or e['ev'] == 'load'):
                            lother.add(x['name'])
            if e['ev'] == 'decl' and 'init' in e:
                for x in walk(e['init']):
                    if x.get('k') == 'var' and x.get('vk') == 'func' and res(u, x['name']):
                        esc.add(res(u, x['name']))
        for t in f.blocks.values():
            if t.term and t.term.get('cond') is not None:
                for x in walk(t.term['cond']):
                    if x.get('k') == 'var' and x.get('vk') == 'local':
                        lother.add(x['name'])
                    if x.get('k') == 'var' and x.get('vk') == 'func' and res(u, x['name']):
                        esc.add(res(u, x['name']))
        for v, qs in lstore.items():
            if v in lother:
                esc |= qs
            else:
                cand |= qs
        for v, ks in tptr.items():
            if v in lother:
                for k_ in ks:
                    used_ok[k_] = False
        for v, bases in lelem.items():
            # the local that received table elements is used for something else than being called: the tables escape
            if v in lother:
                for b_ in bases:
                    if b_.get('vk') in ('global', 'staticlocal') and (u, b_['name']) in tables:
                        used_ok[(u, b_['name'])] = False
                    for k_ in tptr.get(b_.get('name'), ()):
                        used_ok[k_] = False
    for k_, names in tables.items():
        if used_ok[k_]:
            cand |= set(names)
        else:
            esc |= set(names)
    out = {q for q in cand - esc if prog.funcs.get(q) is not None and prog.funcs[q].static}
    c['donly'] = out
    return out


def _arms(r):
    r = strip(r)
    if isinstance(r, dict) and r.get('k') == 'cond':
        return _arms(r['a']) + _arms(r['b'])
    return [r]


def unresolved_dispatch(prog, g):
    """indirect calls of a context that may enter a dispatch_only() function -- through a local that is assigned one
    somewhere in the context, or through a const table that contains one -- and whose target was not found"""
    d = {q.split(':')[-1] for q in dispatch_only(prog)}
    holds = {}
    for e in g.events():
        if e['ev'] == 'store' and e.get('op') == '=' and 'rhs' in e:
            l = strip(e['lhs'])
            if isinstance(l, dict) and l.get('k') == 'var':
                for a_ in _arms(e['rhs']):
                    if isinstance(a_, dict) and a_.get('k') == 'addr':
                        a_ = strip(a_['e'])
                    if isinstance(a_, dict) and a_.get('k') == 'var' and a_.get('vk') == 'func':
                        holds.setdefault(l['name'], set()).add(a_['name'])
    out = []
    for e in g.events():
        if e['ev'] == 'call' and 'fnexpr' in e:
            x = strip(e['fnexpr'])
            if isinstance(x, dict) and x.get('k') == 'var' and x.get('vk') != 'func' and holds.get(x['name'], set()) & d:
                out.append(e)
            elif isinstance(x, dict) and x.get('k') in ('index', 'member'):
                t = dispatch_table(prog, g, e, x)
                if t and set(t.values()) & d:
                    out.append(e)
    return out


def entry_points(prog):
    """roles.roots() without the functions that are only entered through calls the program text decides, provided
    every such call was resolved in every context (otherwise they stay entry points of their own)"""
    c = _cache(prog)
    if 'roots' in c:
        return c['roots']
    rs = roles.roots(prog)
    # the loader calls constructor functions: entry points although nobody takes their address
    rs = rs + [f for f in sorted(prog.all_funcs(), key=lambda f: f.q)
               if getattr(f, 'constructor', False) and f.blocks and f.file.endswith('.c') and f not in rs]
    d = dispatch_only(prog)
    if d:
        keep = [r for r in rs if r.q not in d]
        c['roots'] = keep
        if any(unresolved_dispatch(prog, ctx_of(prog, r)) for r in keep):
            keep = rs
        rs = keep
    c['roots'] = rs
    return rs


def contexts(prog, site_pred, key=None):
    """[(root, inlined root, [site events])] for every entry point whose inlined, normalised body contains a site.
    Every entry point of the library is looked at (a site may only become recognisable after normalisation, e.g. a
    counter decremented through a pointer local)."""
    c = _cache(prog)
    if key is not None and ('cx', key) in c:
        return c[('cx', key)]
    out = []
    for r in entry_points(prog):
        g = ctx_of(prog, r)
        sites = [e for e in g.events() if site_pred(e)]
        if sites:
            out.append((r, g, sites))
    if key is not None:
        c[('cx', key)] = out
    return out


def func_arg(prog, g, e, i):
    """The repository function whose address is argument i of call event e (None when it is not a function name)."""
    a = strip(e['args'][i]) if len(e.get('args', [])) > i else None
    if isinstance(a, dict) and a.get('k') == 'var' and a.get('vk') != 'func':
        a = resolve(a, ptr_aliases(g))
    if isinstance(a, dict) and a.get('k') == 'addr':
        a = strip(a['e'])
    if not (isinstance(a, dict) and a.get('k') == 'var' and a.get('vk') == 'func'):
        return None
    origin = prog.funcs.get(e.get('fn')) if e.get('fn') else None
    u = prog.unit_of(origin or g)
    return prog.resolve(u, a['name']) if u else prog.funcs.get(a['name'])


def lm_arg(e, i):
    a = strip(e['args'][i]) if len(e.get('args', [])) > i else None
    if isinstance(a, dict) and a.get('k') == 'addr':
        return last_member(a['e'])
    return None


def handlers_of(prog, record, field, files=None):
    """Functions stored into <record>.<field>.handler in any context (the store may sit in a static helper that
    receives the handler or the embedded object as a parameter: the inlined context shows the actual values)."""
    c = _cache(prog)
    key = ('h', record, field)
    if key in c:
        return c[key]
    def site(e):
        if e['ev'] != 'store':
            return False
        st = lvalue_steps(e['lhs'])
        return bool(st) and st[0][1] == 'handler' and ((record, field) in st or
                                                      any((x.get('record'), x.get('field')) == (record, field) for x in walk(e['lhs']) if x.get('k') == 'member'))
    out = []
    # the embedded object may reach the storing helper as a bare pointer parameter: look at every context that mentions the field
    def mentions(e):
        return any(x.get('k') == 'member' and (x.get('record'), x.get('field')) == (record, field) for x in walk(e))
    for (root, g, sites) in contexts(prog, mentions, key=('mentions', record, field)):
        for e in g.events():
            if site(e) and 'rhs' in e:
                r = strip(e['rhs'])
                if isinstance(r, dict) and r.get('k') == 'addr':
                    r = strip(r['e'])
                if isinstance(r, dict) and r.get('k') == 'var' and r.get('vk') == 'func':
                    origin = prog.funcs.get(e.get('fn')) if e.get('fn') else None
                    u = prog.unit_of(origin or g)
                    t = prog.resolve(u, r['name']) if u else prog.funcs.get(r['name'])
                    if t is not None and t not in out:
                        out.append(t)
    c[key] = out
    return out


def thread_bodies(prog):
    """Functions started as threads through the library's thread helper (argument of iv_thread_create)."""
    c = _cache(prog)
    if 'bodies' in c:
        return c['bodies']
    out = []
    for (root, g, sites) in contexts(prog, lambda e: is_call(e, 'iv_thread_create'), key='iv_thread_create'):
        for e in sites:
            t = func_arg(prog, g, e, 1)
            if t is not None and t not in out:
                out.append(t)
    c['bodies'] = out
    return out


def by_loc(events):
    return roles.by_loc(events)


# --------------------------------------------------------------------------
# generic dataflow helpers
# --------------------------------------------------------------------------

def reaches_exit(fn):
    """Blocks from which the function's exit is reachable (the others end in a noreturn call)."""
    c = getattr(fn, '_h13_live', None)
    if c is not None:
        return c
    preds = fn.preds()
    seen = {fn.exit}
    st = [fn.exit]
    while st:
        x = st.pop()
        for p in preds.get(x, ()):
            if p not in seen:
                seen.add(p)
                st.append(p)
    fn._h13_live = seen
    return seen


def dnf(c, pol=True, limit=16):
    """Disjunctive normal form of a branch condition taken with polarity pol: a list of alternatives, each a list of
    norm_cond atoms that all hold.  `!(A && B)` is `!A` or `!B`: a fact follows from the edge iff it follows from
    every alternative."""
    c0 = strip(c)
    if isinstance(c0, dict) and c0.get('k') == 'un' and c0.get('op') == '!':
        return dnf(c0['e'], not pol, limit)
    if isinstance(c0, dict) and c0.get('k') == 'bin' and c0.get('op') in ('&&', '||'):
        conj = (c0['op'] == '&&') == pol
        L, R = dnf(c0['l'], pol, limit), dnf(c0['r'], pol, limit)
        if conj:
            out = [a + b for a in L for b in R]
        else:
            out = L + R
        return out if len(out) <= limit else [[]]
    if isinstance(c0, dict) and c0.get('k') == 'bin' and c0.get('op') in ('==', '!=') :
        # (x && y) != 0 style wrappers are unwrapped by norm_cond itself when simple; compound ones here
        for a, b in ((c0['l'], c0['r']), (c0['r'], c0['l'])):
            a0 = strip(a)
            if (is_int(b, 0) or is_null(b)) and isinstance(a0, dict) and a0.get('k') == 'bin' and a0.get('op') in ('&&', '||'):
                return dnf(a0, pol == (c0['op'] == '!='), limit)
    return [list(norm_cond(c, pol))]


def _two_way(blk):
    return blk.term and blk.term.get('cond') is not None and len(blk.succ) == 2 \
        and blk.term.get('cls') not in ('SwitchStmt', 'MethodDispatch')


def cond_alts(blk):
    """[(succ index, [alternative atom lists])] of a conditional block: two-way branches, and `switch` (a case edge
    says `value == constant`, the default edge `value != every case constant`)"""
    if _two_way(blk):
        return [(si, dnf(blk.term['cond'], si == 0)) for si in (0, 1)]
    if blk.term and blk.term.get('cls') == 'SwitchStmt' and blk.term.get('cond') is not None \
            and len(blk.term.get('cases', [])) == len(blk.succ):
        c = blk.term['cond']
        cases = blk.term['cases']
        ints = [v for v in cases if isinstance(v, int) and not isinstance(v, bool)]
        out = []
        for si, cv in enumerate(cases):
            if isinstance(cv, int) and not isinstance(cv, bool):
                out.append((si, [[('==', canon(c), str(cv), c, {'k': 'int', 'v': cv})]]))
            elif cv == 'default':
                out.append((si, [[('!=', canon(c), str(v), c, {'k': 'int', 'v': v}) for v in ints]]))
            else:
                out.append((si, [[]]))
        return out
    return []


def cond_edges(blk):
    """[(succ index, atoms)] of a two-way conditional block: the atoms that hold whichever alternative made the
    condition come out this way."""
    out = []
    for (si, alts) in cond_alts(blk):
        if len(alts) == 1:
            out.append((si, alts[0]))
            continue
        common = [a for a in alts[0] if all(any(a[:3] == b[:3] for b in alt) for alt in alts[1:])]
        out.append((si, common))
    return out


def edge_all(blk, si, pred):
    """pred(atoms) holds for every alternative of edge si (False for an unconditional edge)"""
    for (i, alts) in cond_alts(blk):
        if i == si:
            return bool(alts) and all(pred(a) for a in alts)
    return False


def forward_from(fn, start_event, after, transfer, join, edge=None):
    """forward() started just after start_event (state `after`); points not reached from it are absent.
    The state *before* start_event itself is the state with which a loop comes back to it."""
    def tr(e, s):
        if e is start_event:
            return after
        if s is None:
            return None
        return transfer(e, s)
    def jn(a, b):
        if a is None:
            return b
        if b is None:
            return a
        return join(a, b)
    def ed(blk, si, s):
        if s is None or edge is None:
            return s
        return edge(blk, si, s)
    _, ev_in = forward(fn, None, tr, jn, edge=ed, start=start_event['_b'])
    return {k: v for k, v in ev_in.items() if v is not None}


def must(fn, pred, excuse=None, kill=None, start_event=None):
    """Forward must-analysis {(b, i): bool}: every path (from entry / from just after start_event) executed an event
    satisfying pred, or took an edge for which excuse(block, succ index, atoms) holds; kill(e) resets."""
    def tr(e, s):
        if kill and kill(e):
            return False
        return True if pred(e) else s
    def ed(blk, si, s):
        if s or excuse is None:
            return s
        if edge_all(blk, si, lambda atoms: excuse(blk, si, atoms)):
            return True
        return s
    if start_event is None:
        _, ev_in = forward(fn, False, tr, lambda a, b: a and b, edge=ed)
        return ev_in
    return forward_from(fn, start_event, False, tr, lambda a, b: a and b, edge=ed)


def exit_points(fn):
    """the exit block (every return of an inlined root flows into it)"""
    return [(fn.exit, 0)]


# --------------------------------------------------------------------------
# guard atoms: decisions taken on the path, with the locks they were taken under
# --------------------------------------------------------------------------

def opkey(x, fc=None):
    """Structural key of a condition operand: fields by (record, field), list emptiness by the list's (record, field);
    fc: field_caches() of the function (a local that only ever holds one field's value stands for the field)."""
    x0 = strip(x)
    if fc and isinstance(x0, dict) and x0.get('k') == 'var' and x0['name'] in fc:
        return fc[x0['name']]
    if not isinstance(x0, dict):
        return ('?',)
    k = x0.get('k')
    if k == 'int':
        return ('int', x0['v'])
    if k == 'null':
        return INT0
    if k == 'incdec' and x0.get('prefix'):
        return opkey(x0['e'], fc)               # the value of ++x / --x is the new value of x
    if k == 'bin' and x0.get('op') == '-':
        a, b = opkey(x0['l'], fc), opkey(x0['r'], fc)
        if a[0] == 'field' and b[0] == 'field':
            return ('diff', a, b)
    if k == 'member':
        return ('field',) + tuple(last_member(x0))
    if k == 'var':
        return ('var', x0['name'])
    if k == 'call':
        if x0.get('callee') == 'iv_list_empty' and x0.get('args'):
            a = strip(x0['args'][0])
            if isinstance(a, dict) and a.get('k') == 'addr' and last_member(a['e']):
                return ('empty',) + tuple(last_member(a['e']))
            return ('empty?', canon(x0['args'][0]))
        return ('call', x0.get('callee') or canon(x0.get('fnexpr')))
    return ('expr', canon(x0))


MAX_ALTS = 12


def guards(fn, assertions=True, unlock_kills=True):
    """{(b, i): frozenset of alternatives}; an alternative is a frozenset of atoms (op, lkey, rkey, locks, reads) that
    hold on the paths it stands for: branch decisions, `local = constant` and `local = <read/test>` definitions.
    Alternatives are kept apart at joins (up to MAX_ALTS, then intersected) and dropped on an edge that contradicts
    them, so that a decision survives being computed by a helper with several returns or being parked in a local:
    a fact holds at a point iff it holds in every alternative (g_* below).

    locks = locks held when the value was read.  An atom dies when something it reads may be written (type based;
    user callbacks write everything) and -- unlock_kills -- when a lock it was taken under is released (another thread
    may then change what was read).  assertions=False: the surviving edge of a fatal check (`if (c) iv_fatal()`) is
    not a decision of the program and yields nothing."""
    ls = locksets(fn)
    live = reaches_exit(fn)
    defs_of = {}
    for e in fn.events():
        if e['ev'] == 'store' and strip(e['lhs']).get('k') == 'var':
            defs_of.setdefault(strip(e['lhs'])['name'], []).append(e)

    def was_names(x):
        # only locals that cached a *value*: an address (`done = &pool->work_done`, container_of) computed before the
        # lock is pointer arithmetic; what is tested is read through it at the test
        return {y['_was'] for y in walk(x) if '_was' in y and y.get('k') not in ('addr', 'container_of')}

    avail = arith_locals(fn)

    def locks_for(l, r, H0):
        # an operand that copy propagation spelled out was *read* where the caching local was defined:
        # the decision was taken under the locks held there as well as here
        H = H0
        for nm in was_names(l) | was_names(r):
            for d in defs_of.get(nm, ()):
                H = H & frozenset(held(ls.get((d['_b'], d['_i']))))
        return H

    def consistent(alt, at):
        (op, lk, rk) = at[:3]
        n = _num(rk)
        if n is None or op == 'def':
            return True
        for a in alt:
            if a[1] != lk or a[0] == 'def':
                continue
            m = _num(a[2])
            if m is None:
                continue
            if a[0] == '==' and not _sat(m, op, n):
                return False
            if op == '==' and not _sat(n, a[0], m):
                return False
        return True

    def edge(blk, si, S):
        alts = None
        for (i, a_) in cond_alts(blk):
            if i == si:
                alts = a_
        if alts is None:
            return S
        if not assertions and len(blk.succ) == 2:
            other = blk.succ[1 - si]
            if other is not None and other not in live:
                return S
        H0 = frozenset(held(ls.get((blk.id, len(blk.events)))))
        ex = avail.get((blk.id, len(blk.events))) if avail else None
        exprs = {v: json.loads(x) for (v, x, _) in ex} if ex else None
        out = set()
        for alt in S:
            for conj in alts:
                new, ok = set(), True
                for (op, lc, rc, l, r) in conj:
                    if op == 'const':
                        if lc == 'False':
                            ok = False
                        continue
                    (op2, lk, rk) = atom_keys(op, l, r, None, exprs)
                    reads = _mem_keys(l) | _mem_keys(r)
                    for (v, x, ks) in (ex or ()):
                        if ('var', v) in reads:
                            reads = reads | ks
                    cand = [(op2, lk, rk, locks_for(l, r, H0), frozenset(reads))]
                    # the tested local was defined as a read / test of something: the decision is about that
                    if lk[0] == 'var':
                        for a in alt:
                            if a[0] == 'def' and a[1] == lk:
                                cand.append((op2, a[2], rk, a[3], a[4]))
                    # ... also on the right (`w.head == w.tail` with both locals read from the fields)
                    for c_ in list(cand):
                        if c_[2][0] == 'var':
                            for a in alt:
                                if a[0] == 'def' and a[1] == c_[2]:
                                    cand.append((c_[0], c_[1], a[2], c_[3] & a[3], c_[4] | a[4]))
                    for c_ in cand:
                        if not consistent(alt, c_):
                            ok = False
                        new.add(c_)
                if ok:
                    out.add(frozenset(alt | new))
        if not out:
            return None
        return collapse(frozenset(out))

    def collapse(S):
        if len(S) <= MAX_ALTS:
            return S
        it = iter(S)
        acc = set(next(it))
        for x in it:
            acc &= x
        return frozenset({frozenset(acc)})

    def kill(S, pred):
        return frozenset(frozenset(a for a in alt if not pred(a)) for alt in S)

    def transfer(e, S):
        ev = e['ev']
        if ev == 'store':
            l = strip(e['lhs'])
            kills = set(lvalue_steps(e['lhs']))
            if l.get('k') == 'var':
                kills.add(('var', l['name']))
            if l.get('k') in ('deref', 'index'):
                kills.add(('mem', '*'))
            if not kills:
                lm = last_member(e['lhs'])
                if lm:
                    kills.add(lm)
            S = kill(S, lambda a: bool(a[4] & kills))
            if l.get('k') == 'var' and l.get('vk') == 'local' and e.get('op') == '=' and 'rhs' in e:
                H = frozenset(held(ls.get((e['_b'], e['_i']))))
                vk = ('var', l['name'])
                rk = opkey(e['rhs'])
                add = None
                if rk[0] == 'int':
                    add = ('==', vk, rk, H, frozenset({vk}))
                elif rk[0] in ('field', 'empty', 'diff'):
                    add = ('def', vk, rk, locks_for(e['rhs'], None, H), frozenset(_mem_keys(e['rhs']) | {vk}))
                if add:
                    S = frozenset(alt | {add} for alt in S)
            return S
        if ev == 'decl' and 'init' in e:
            return kill(S, lambda a: ('var', e['name']) in a[4])
        if ev == 'call':
            if 'fnexpr' in e:
                return kill(S, lambda a: not all(k[0] == 'var' for k in a[4]))
            if unlock_kills:
                for (op, lid) in lock_effect(e):
                    if op == 'unlock':
                        S = kill(S, lambda a, lid=lid: lid in a[3])
            ks = set()
            for a_ in e.get('args', []):
                a_ = strip(a_)
                if isinstance(a_, dict) and a_.get('k') == 'addr':
                    v = strip(a_['e'])
                    if isinstance(v, dict) and v.get('k') == 'var':
                        ks.add(('var', v['name']))
            if ks:
                S = kill(S, lambda a: bool(a[4] & ks))
            # list primitives change the emptiness of the lists they are given
            if e.get('callee') in ('iv_list_add', 'iv_list_add_tail', 'iv_list_del', 'iv_list_del_init', 'INIT_IV_LIST_HEAD',
                                   'iv_list_splice', 'iv_list_splice_init', 'iv_list_splice_tail', 'iv_list_splice_tail_init',
                                   '__iv_list_steal_elements', '__iv_list_splice'):
                lk = {lm_arg(e, i) for i in range(len(e.get('args', [])))} - {None}
                if lk:
                    S = kill(S, lambda a: bool(a[4] & lk))
        return S

    def join(a, b):
        return collapse(a | b)

    _, ev_in = forward(fn, frozenset({frozenset()}), transfer, join, edge=edge)
    return ev_in


def _alts(S):
    """alternatives of a guards() state; a plain atom collection counts as one alternative"""
    if S is None:
        return []
    S = list(S)
    if S and all(isinstance(x, frozenset) for x in S):
        return S
    return [S]


def _num(k):
    return k[1] if isinstance(k, tuple) and k and k[0] == 'int' else None


def atom_keys(op, l, r, fc=None, exprs=None):
    """(op, lkey, rkey) of a norm_cond atom, normalised: `x-- == n` speaks about the new value (x == n - 1),
    `a - b == 0` is `a == b`; exprs: {local: expression} of arithmetic locals that are still valid here."""
    def sub(x):
        x0 = strip(x)
        if exprs and isinstance(x0, dict) and x0.get('k') == 'var' and x0['name'] in exprs:
            return exprs[x0['name']]
        return x
    l, r = sub(l), sub(r)
    l0 = strip(l)
    lk, rk = opkey(l, fc), opkey(r, fc)
    if isinstance(l0, dict) and l0.get('k') == 'incdec' and not l0.get('prefix') and _num(rk) is not None:
        lk = opkey(l0['e'], fc)
        rk = ('int', _num(rk) + (1 if l0['op'] == '++' else -1))
    if lk[0] == 'diff' and rk == INT0 and op in ('==', '!='):
        lk, rk = lk[1], lk[2]
    return (op, lk, rk)


def g_equal(S, k1, k2, lock=None):
    def one(A):
        for a in A:
            if a[0] == '==' and {a[1], a[2]} == {k1, k2} and (lock is None or lock in a[3]):
                return True
        return False
    al = _alts(S)
    return bool(al) and all(one(A) for A in al)


def g_zero(A, k, lock=None, count=False):
    """count: k is a count of objects (only stepped by one, from 0: checked elsewhere), so `k <= 0`, `k < 1` and
    `!(k > 0)` decide k == 0 as well"""
    if not count:
        return g_equal(A, k, INT0, lock)

    def one(alt):
        for a in alt:
            if a[1] != k or (lock is not None and lock not in a[3]):
                continue
            n = _num(a[2])
            if n is None:
                continue
            if (a[0] == '==' and n == 0) or (a[0] == '<=' and n == 0) or (a[0] == '<' and n == 1):
                return True
        return False
    al = _alts(A)
    return bool(al) and all(one(x) for x in al)


def g_nonzero(S, k, lock=None):
    def one(A):
        for a in A:
            if a[0] == 'def' or a[1] != k or (lock is not None and lock not in a[3]):
                continue
            n = _num(a[2])
            if n is None:
                continue
            if (a[0] == '!=' and n == 0) or (a[0] == '>' and n >= 0) or (a[0] == '>=' and n > 0) or (a[0] == '==' and n != 0) \
                    or (a[0] == '<' and n <= 0) or (a[0] == '<=' and n < 0):
                return True
        return False
    al = _alts(S)
    return bool(al) and all(one(A) for A in al)


def atoms_nonzero(atoms, k, fc=None):
    """same test on the raw atoms of one edge"""
    A = [atom_keys(op, l, r, fc) + (frozenset(), frozenset()) for (op, lc, rc, l, r) in atoms if op != 'const']
    return g_nonzero(A, k)


def atoms_zero(atoms, k, fc=None):
    A = [atom_keys(op, l, r, fc) + (frozenset(), frozenset()) for (op, lc, rc, l, r) in atoms if op != 'const']
    return g_zero(A, k)


def arith_locals(fn):
    """{(b, i): frozenset((local, json of its defining expression, keys read))}: locals holding `field - field` whose
    definition is still valid at the point (nothing it read was written since, no callback ran, no lock was dropped):
    `pending = pool->seq_tail - pool->seq_head; if (!pending)` is a test of the fields."""
    c = getattr(fn, '_h13_arith', None)
    if c is not None:
        return c
    cands = {}
    for e in fn.events():
        if e['ev'] == 'store' and e.get('op') == '=' and 'rhs' in e:
            l = strip(e['lhs'])
            if isinstance(l, dict) and l.get('k') == 'var' and l.get('vk') == 'local' and opkey(e['rhs'])[0] == 'diff':
                cands[id(e)] = (l['name'], json.dumps(e['rhs'], sort_keys=True, default=str), frozenset(_mem_keys(e['rhs'])))
    if not cands:
        fn._h13_arith = {}
        return {}
    def tr(e, S):
        if e['ev'] == 'store':
            l = strip(e['lhs'])
            kills = set(lvalue_steps(e['lhs']))
            if isinstance(l, dict) and l.get('k') == 'var':
                kills.add(('var', l['name']))
                S = frozenset(x for x in S if x[0] != l['name'])
            if isinstance(l, dict) and l.get('k') in ('deref', 'index'):
                kills.add(('mem', '*'))
            S = frozenset(x for x in S if not (x[2] & kills))
            if id(e) in cands:
                S = S | {cands[id(e)]}
            return S
        if e['ev'] == 'call':
            if 'fnexpr' in e or e.get('callee') not in PURE_CALLS or any(op == 'unlock' for (op, _) in lock_effect(e)):
                return frozenset()
        return S
    _, ev_in = forward(fn, frozenset(), tr, lambda a, b: a & b)
    fn._h13_arith = ev_in
    return ev_in


def value_copies(fn, key, lock=None):
    """{(b, i): frozenset(locals)}: the locals that hold the current value of the field `key` = ('field', record, name):
    assigned from a read of the field, from the value of a `++f` / `--f` / `f += n` on it or from another such local,
    and neither the local nor the field was stored to since; taking or releasing `lock` forgets everything (a value read
    outside the lock region may be stale inside it and the other way round)."""
    rf = (key[1], key[2])

    def is_val(x, S):
        x0 = strip(x)
        if not isinstance(x0, dict):
            return False
        if x0.get('k') == 'var':
            return x0['name'] in S
        if x0.get('k') == 'incdec' and x0.get('prefix'):
            return last_member(x0.get('e')) == rf
        if x0.get('k') == 'assign':
            return last_member(x0.get('l')) == rf
        return x0.get('k') == 'member' and last_member(x0) == rf

    def tr(e, S):
        if e['ev'] == 'store':
            l = strip(e['lhs'])
            if isinstance(l, dict) and l.get('k') == 'var':
                if e.get('op') == '=' and 'rhs' in e and is_val(e['rhs'], S):
                    return S | {l['name']}
                return S - {l['name']}
            if rf in lvalue_steps(e['lhs']) or (isinstance(l, dict) and l.get('k') in ('deref', 'index')):
                return frozenset()
        elif e['ev'] == 'decl':
            return S - {e.get('name')}
        elif e['ev'] == 'call' and lock is not None and any(lid == lock for (op, lid) in lock_effect(e)):
            return frozenset()
        return S
    _, ev_in = forward(fn, frozenset(), tr, lambda a, b: a & b)
    return ev_in


def called_field(fn, e):
    """(record, field) of the function-pointer field an indirect call goes through, also when the pointer was first
    loaded into a local"""
    if e['ev'] != 'call' or 'fnexpr' not in e:
        return None
    lm = last_member(e['fnexpr'])
    if lm:
        return lm
    v = strip(e['fnexpr'])
    if isinstance(v, dict) and v.get('k') == 'var':
        k = field_caches(fn).get(v['name'])
        if k:
            return (k[1], k[2])
    return None


# --------------------------------------------------------------------------
# results of calls that report failure by a non-zero value
# --------------------------------------------------------------------------

def result_vars(fn, callees):
    """locals that hold the result of a call to one of `callees` (directly or through copies)"""
    rv = set()
    copies = []
    for e in fn.events():
        if e['ev'] == 'store' and e.get('op') == '=' and 'rhs' in e:
            l, r = strip(e['lhs']), strip(e['rhs'])
            if not (isinstance(l, dict) and l.get('k') == 'var' and isinstance(r, dict)):
                continue
            if r.get('k') == 'call' and r.get('callee') in callees:
                rv.add(l['name'])
            elif r.get('k') == 'var':
                copies.append((l['name'], r['name']))
    ch = True
    while ch:
        ch = False
        for (a, b) in copies:
            if b in rv and a not in rv:
                rv.add(a)
                ch = True
    return rv


def int_value_sets(g):
    """{(b, i): {local: frozenset of integers}}: the integer constants a local can hold at a point (flow-sensitive: constants,
    copies, `c ? K1 : K2`, refined by comparisons with constants on the way; a local that may hold anything else is absent)"""
    c = getattr(g, '_h13_ivs', None)
    if c is not None:
        return c
    CAP = 8

    def val(x, S):
        x = strip(x)
        if _intval(x) is not None:
            return frozenset({_intval(x)})
        if isinstance(x, dict) and x.get('k') == 'var' and x.get('vk') in ('local', 'param'):
            return S.get(x['name'])
        if isinstance(x, dict) and x.get('k') == 'cond':
            a_, b_ = val(x['a'], S), val(x['b'], S)
            return None if (a_ is None or b_ is None) else (a_ | b_)
        if isinstance(x, dict) and ((x.get('k') == 'bin' and x.get('op') in ('==', '!=', '<', '>', '<=', '>=', '&&', '||')) or
                                    (x.get('k') == 'un' and x.get('op') == '!')):
            return frozenset({0, 1})
        return None

    def tr(e, S):
        if e['ev'] == 'store':
            l = strip(e['lhs'])
            if isinstance(l, dict) and l.get('k') == 'var':
                v = val(e['rhs'], S) if (e.get('op') == '=' and 'rhs' in e) else None
                S = {k_: v_ for k_, v_ in S.items() if k_ != l['name']}
                if v is not None and len(v) <= CAP:
                    S[l['name']] = v
        elif e['ev'] == 'decl':
            S = {k_: v_ for k_, v_ in S.items() if k_ != e.get('name')}
        elif e['ev'] == 'call':
            for a_ in e.get('args', []):
                a_ = strip(a_)
                if isinstance(a_, dict) and a_.get('k') == 'addr':
                    v = strip(a_['e'])
                    if isinstance(v, dict) and v.get('k') == 'var':
                        S = {k_: v_ for k_, v_ in S.items() if k_ != v['name']}
        return S

    def ed(blk, si, S):
        if not _two_way(blk):
            return S
        for (op, lc, rc, l, r) in norm_cond(blk.term['cond'], si == 0):
            if op == 'const':
                if lc == 'False':
                    return None
                continue
            v, m = strip(l), (0 if is_null(r) else _intval(r))
            if m is None or not (isinstance(v, dict) and v.get('k') == 'var' and v['name'] in S):
                continue
            keep = frozenset(x for x in S[v['name']] if _sat(x, op, m))
            if not keep:
                return None
            S = dict(S)
            S[v['name']] = keep
        return S

    def jn(a, b):
        out = {}
        for k_ in a:
            if k_ in b and len(a[k_] | b[k_]) <= CAP:
                out[k_] = a[k_] | b[k_]
        return out
    _, ev_in = forward(g, {}, tr, jn, edge=ed)
    g._h13_ivs = ev_in
    return ev_in


def return_values(prog, callee):
    """set of integer constants a repository function returns, or None when it returns something else too
    (looked at in its calling context: `return helper_that_returns_minus_one(...)`; a result variable stands for every
    constant it is ever given)"""
    c = _cache(prog)
    key = ('retvals', callee)
    if key in c:
        return c[key]
    out = None
    f = prog.funcs.get(callee)
    if f is not None and f.blocks and not f.static:
        g = ctx_of(prog, f)
        vals = set()

        def const(v):
            v = strip(v)
            return _intval(v)

        def of_var(name, seen):
            if name in seen:
                return set()
            seen = seen | {name}
            acc = set()
            for d in g.events():
                if d['ev'] == 'store' and strip(d['lhs']).get('k') == 'var' and strip(d['lhs'])['name'] == name:
                    r = strip(d['rhs']) if (d.get('op') == '=' and 'rhs' in d) else None
                    if const(r) is not None:
                        acc.add(const(r))
                    elif isinstance(r, dict) and r.get('k') == 'var' and r.get('vk') == 'local':
                        sub = of_var(r['name'], seen)
                        if sub is None:
                            return None
                        acc |= sub
                    elif isinstance(r, dict) and r.get('k') == 'cond':
                        arms_ = []
                        st_ = [r]
                        while st_:
                            y = strip(st_.pop())
                            if isinstance(y, dict) and y.get('k') == 'cond':
                                st_ += [y['a'], y['b']]
                            else:
                                arms_.append(y)
                        if any(const(y) is None for y in arms_):
                            return None
                        acc |= {const(y) for y in arms_}
                    else:
                        return None
            return acc
        def of_expr(v):
            v = strip(v)
            if const(v) is not None:
                return {const(v)}
            if isinstance(v, dict) and v.get('k') == 'var' and v.get('vk') == 'local':
                return of_var(v['name'], frozenset())
            if isinstance(v, dict) and v.get('k') == 'cond':          # `return ok ? 0 : -1;`
                a_, b_ = of_expr(v['a']), of_expr(v['b'])
                return None if (a_ is None or b_ is None) else a_ | b_
            return None
        def own_return(blk, i, e):
            # the return of an inlined helper is preceded by the store of its value into the result variable
            # (after a second inlining round 'chain'/'fn' no longer tell them apart)
            if e.get('chain'):
                return False
            p_ = blk.events[i - 1] if i > 0 else None
            return not (p_ is not None and p_['ev'] == 'store' and p_.get('is_ret') and p_.get('loc') == e.get('loc'))
        ivs = int_value_sets(g)
        for (blk, i, e) in [(blk, i, e) for blk in g.blocks.values() for i, e in enumerate(blk.events)]:
            if e['ev'] == 'ret' and 'value' in e and own_return(blk, i, e):
                sub = of_expr(e['value'])
                if sub is None:
                    # what the returned local can hold *here* (`ret = helper(); if (ret < 0) return ret;`)
                    v_ = strip(e['value'])
                    if isinstance(v_, dict) and v_.get('k') == 'var' and (blk.id, i) in ivs:
                        sub = ivs[(blk.id, i)].get(v_['name'])
                        sub = set(sub) if sub is not None else None
                if sub is None:
                    vals = None
                    break
                vals |= sub
        out = frozenset(vals) if vals else None
    c[key] = out
    return out


def _sat(v, op, n):
    return {'==': v == n, '!=': v != n, '<': v < n, '>': v > n, '<=': v <= n, '>=': v >= n}[op]


def result_edge(atoms, callees, rv, prog=None):
    """'ok' | 'failed' | None: what the atoms of an edge say about the result of a call to `callees`
    (0 = success, anything else = failure; the library's convention for init/create functions).  When the callee is a
    repository function that returns only constants, the decision is made over exactly those values."""
    for (op, lc, rc, l, r) in atoms:
        if op == 'const':
            continue
        l0 = strip(l)
        if not isinstance(l0, dict):
            continue
        isres = (l0.get('k') == 'call' and l0.get('callee') in callees) or (l0.get('k') == 'var' and l0['name'] in rv)
        if not isres:
            continue
        n = _num(opkey(r))
        if n is None:
            continue
        if not _sat(0, op, n):
            return 'failed'
        vals = None
        if prog is not None:
            vs = [return_values(prog, c_) for c_ in callees]
            if vs and all(v is not None for v in vs):
                vals = frozenset().union(*vs)
        if vals is not None:
            if all(v == 0 for v in vals if _sat(v, op, n)):
                return 'ok'
        elif op == '==' and n == 0:
            return 'ok'
    return None


# --------------------------------------------------------------------------
# single-definition pointer locals (`idle = &pool->idle_threads`)
# --------------------------------------------------------------------------

def ptr_aliases(fn):
    c = getattr(fn, '_h13_al', None)
    if c is not None:
        return c
    c = _ptr_aliases(fn)
    fn._h13_al = c
    return c


def field_caches(fn):
    """{local: ('field', record, field)} for locals every definition of which loads that one field
    (`stop = pool->thread_stop`): a test of / a call through the local is a test of / a call through the field value."""
    c = getattr(fn, '_h13_fc', None)
    if c is not None:
        return c
    defs, bad = {}, set()
    for e in fn.events():
        for x in walk(e):
            if x.get('k') == 'addr':
                v = strip(x['e'])
                if isinstance(v, dict) and v.get('k') == 'var':
                    bad.add(v['name'])
        if e['ev'] == 'store':
            l = strip(e['lhs'])
            if isinstance(l, dict) and l.get('k') == 'var' and l.get('vk') == 'local':
                r = strip(e['rhs']) if (e.get('op') == '=' and 'rhs' in e) else None
                lm = last_member(r) if isinstance(r, dict) and r.get('k') == 'member' else None
                if lm is None:
                    bad.add(l['name'])
                else:
                    defs.setdefault(l['name'], set()).add(('field',) + tuple(lm))
    c = {n: next(iter(ks)) for n, ks in defs.items() if n not in bad and len(ks) == 1}
    fn._h13_fc = c
    return c


def _ptr_aliases(fn):
    defs = {}
    addr = set()
    for e in fn.events():
        for x in walk(e):
            if x.get('k') == 'addr':
                v = strip(x['e'])
                if isinstance(v, dict) and v.get('k') == 'var':
                    addr.add(v['name'])
        if e['ev'] == 'store':
            l = strip(e['lhs'])
            if isinstance(l, dict) and l.get('k') == 'var' and l.get('vk') == 'local':
                defs.setdefault(l['name'], []).append(e)
    out = {}
    for n, ds in defs.items():
        if n in addr or len({d.get('loc') for d in ds}) != 1:
            continue
        d = ds[0]
        if d.get('op') != '=' or 'rhs' not in d:
            continue
        r = strip(d['rhs'])
        if isinstance(r, dict) and r.get('k') in ('addr', 'var') and not any(y.get('k') == 'call' for y in walk(r)):
            if not any(y.get('k') == 'var' and y.get('name') == n for y in walk(r)):
                out[n] = r
    return out


def resolve(x, al, depth=4):
    """x with single-definition pointer locals replaced by what they were assigned"""
    x = strip(x)
    while depth > 0 and isinstance(x, dict) and x.get('k') == 'var' and x['name'] in al:
        x = strip(al[x['name']])
        depth -= 1
    return x


def head_of(x, al):
    """(record, field) of the list head an expression denotes: `&P->f`, or a local that was assigned that."""
    x = resolve(x, al)
    if isinstance(x, dict) and x.get('k') == 'addr':
        return last_member(x['e'])
    return None


def container_base(x):
    """(record, pointer expression) when x computes the object that contains the list head / member a pointer points
    to: `container_of(p, T, m)` (iv_container_of, iv_list_entry) or its open-coded form `(T *)((char *)p - offset)`."""
    y = x
    while isinstance(y, dict) and y.get('k') in ('load', 'stmtexpr') and 'e' in y:
        y = y['e']
    if isinstance(y, dict) and y.get('k') == 'container_of':
        return (y.get('record'), y['e'])
    rec = None
    while isinstance(y, dict) and y.get('k') == 'cast' and 'e' in y:
        rec = y.get('record') or rec
        y = y['e']
        while isinstance(y, dict) and y.get('k') in ('load', 'stmtexpr') and 'e' in y:
            y = y['e']
    if isinstance(y, dict) and y.get('k') == 'container_of':
        return (y.get('record'), y['e'])
    if rec and isinstance(y, dict) and y.get('k') == 'bin' and y.get('op') == '-' and is_int(y.get('r')):
        return (rec, y['l'])
    return None


def mentions_record(x, record):
    for y in walk(x):
        if y.get('k') == 'member' and y.get('record') == record:
            return True
        if y.get('k') == 'var' and y.get('record') == record:
            return True
    return False


def is_effect(e):
    """an event that can change memory other than locals of the function"""
    if e['ev'] == 'store':
        l = strip(e['lhs'])
        return not (isinstance(l, dict) and l.get('k') == 'var' and l.get('vk') in ('local', 'param'))
    if e['ev'] == 'call':
        return e.get('callee') not in PURE_CALLS
    return False


# --------------------------------------------------------------------------
# registration worlds of the embedded objects of a record
# --------------------------------------------------------------------------

LIST_ON = ('iv_list_add', 'iv_list_add_tail')
LIST_OFF = ('iv_list_del', 'iv_list_del_init', 'INIT_IV_LIST_HEAD')
ALLOC = ('malloc', 'calloc')
HANDOFF = ('iv_thread_create', 'pthr_create')


class Worlds:
    """Disjunctive forward analysis of what is registered in objects of one record type inside one context.

    A world assigns every embedded field that is ever registered one of 0 (not registered), 1 (registered),
    2 (not registered by this thread, but the object was handed to a new thread that may register it), plus
    'onlist' for the list linkage a timer is paired with and 'shared' (other code can reach the object).
    Objects are identified by their record type (one object of a kind per context)."""

    def __init__(self, prog, fn, record, fields, embedded, paired=None, entry='live', own_timers=()):
        self.fn, self.record, self.fields = fn, record, list(fields)
        self.idx = {f: i for i, f in enumerate(self.fields)}
        self.kind = {f: t for (f, t) in fields_types(prog, record) if f in self.idx}
        self.emb = embedded
        self.paired = paired           # (timer field, list field) or None
        n = len(self.fields)
        self.LIST, self.SHARED = n, n + 1
        if entry == 'fresh':
            init = {tuple([0] * n + [0, 0])}
        else:
            base = [1] * n
            for f in own_timers:
                if f in self.idx:
                    base[self.idx[f]] = 0
            if paired and paired[0] in self.idx:
                ti = self.idx[paired[0]]
                if paired[0] in own_timers:
                    init = {tuple(base + [1, 1])}          # the timer fired: it is no longer registered, the object is still linked
                else:
                    init = set()
                    for v in (0, 1):
                        b = list(base)
                        b[ti] = v
                        init.add(tuple(b + [v, 1]))
            else:
                init = {tuple(base + [0, 1])}
        self.regs = {}
        for f in self.fields:
            reg, unreg = embedded[self.kind[f]]
            self.regs[f] = (reg, unreg)
        self.rv = {f: result_vars(fn, (self.regs[f][0],)) for f in self.fields}
        self.hv = result_vars(fn, HANDOFF)
        _, self.ev_in = forward(fn, frozenset(init), self.transfer, lambda a, b: a | b, edge=self.edge)

    def _set(self, S, i, v, only=None):
        out = set()
        for w in S:
            if only is None or w[i] == only:
                w = w[:i] + (v,) + w[i + 1:]
            out.add(w)
        return frozenset(out)

    def _is_obj(self, a):
        return obj_record(a) == self.record

    def transfer(self, e, S):
        ev = e['ev']
        if ev == 'store':
            l = strip(e['lhs'])
            r = strip(e['rhs']) if 'rhs' in e else None
            if self._is_obj(l) and isinstance(r, dict) and r.get('k') == 'call' and r.get('callee') in ALLOC:
                return frozenset({tuple([0] * (len(self.fields) + 2))})
            if self._is_obj(r) and isinstance(l, dict) and l.get('k') != 'var':
                # the pointer is stored somewhere: published, unless it is stored into the object itself (`obj->ev.cookie = obj`)
                rt = root_var(e['lhs'])
                if not (rt is not None and rt.get('record') == self.record):
                    return self._set(S, self.SHARED, 1)
                return S
            if self.paired:
                st = lvalue_steps(e['lhs'])
                if len(st) == 2 and st[1] == (self.record, self.paired[1]) and st[0][0] == 'iv_list_head' and e.get('op') == '=':
                    # NULL, or the address of the linkage itself (INIT_IV_LIST_HEAD written out): not linked
                    r_ = strip(e.get('rhs'))
                    selfref = isinstance(r_, dict) and r_.get('k') == 'addr' and last_member(r_['e']) == (self.record, self.paired[1]) \
                        and canon(root_var(r_['e']) or {'k': 'int', 'v': 0}) == canon(root_var(e['lhs']) or {'k': 'int', 'v': 1})
                    return self._set(S, self.LIST, 0 if (is_null(e.get('rhs')) or selfref) else 1)
            return S
        if ev != 'call':
            return S
        c = e.get('callee')
        if c is None:
            return S
        for f in self.fields:
            reg, unreg = self.regs[f]
            if c in (reg, unreg) and lm_arg(e, 0) == (self.record, f):
                return self._set(S, self.idx[f], 1 if c == reg else 0)
        if self.paired and c in LIST_ON + LIST_OFF and lm_arg(e, 0) == (self.record, self.paired[1]):
            return self._set(S, self.LIST, 1 if c in LIST_ON else 0)
        if c in HANDOFF and any(self._is_obj(a) for a in e.get('args', [])):
            for i in range(len(self.fields)):
                S = self._set(S, i, 2, only=0)
            return self._set(S, self.SHARED, 1)
        if c == 'free' and e.get('args') and self._is_obj(e['args'][0]):
            return frozenset({tuple([0] * (len(self.fields) + 2))})
        return S

    def edge(self, blk, si, S):
        for (i, atoms) in cond_edges(blk):
            if i != si:
                continue
            for f in self.fields:
                reg = self.regs[f][0]
                # the registration reported failure
                for at in atoms:
                    l0 = strip(at[3])
                    direct = isinstance(l0, dict) and l0.get('k') == 'call' and l0.get('callee') == reg and \
                        l0.get('args') and _addr_member(l0['args'][0]) == (self.record, f)
                    if (direct or (isinstance(l0, dict) and l0.get('k') == 'var' and l0['name'] in self.rv[f])) \
                            and result_edge([at], (reg,), self.rv[f]) == 'failed':
                        S = self._set(S, self.idx[f], 0)
            if result_edge(atoms, HANDOFF, self.hv) == 'failed':
                for j in range(len(self.fields)):
                    S = self._set(S, j, 0, only=2)
            if self.paired:
                for at in atoms:
                    if at[0] == 'const':
                        continue
                    k = opkey(at[3])
                    if k == ('empty', self.record, self.paired[1]) and _num(opkey(at[4])) == 0:
                        want = 0 if at[0] == '!=' else 1 if at[0] == '==' else None
                        if want is not None:
                            S = frozenset(w for w in S if w[self.LIST] == want)
        return S

    def at(self, e):
        return self.ev_in.get((e['_b'], e['_i']))

    def at_exit(self):
        return self.ev_in.get((self.fn.exit, 0))


def _addr_member(a):
    a = strip(a)
    if isinstance(a, dict) and a.get('k') == 'addr':
        return last_member(a['e'])
    return None


def fields_types(prog, record):
    """[(field, embedded object kind)] of a record's fields that are library objects or mutexes (grouping sub-structs
    flattened, fields under the names the contexts use)"""
    if record in OWNERS and 'renames' not in _cache(prog):
        _derive_renames(prog)
    ren = _cache(prog).get('renames') or {}
    out = []
    for fl in (flat_fields(prog, record) if record in OWNERS else (prog.records.get(record) or {}).get('fields', [])):
        t = fl.get('record') or ('pthread_mutex_t' if 'mutex' in fl['type'] else None)
        if t is None:
            continue
        if 'mutex' in str(fl['type']) or t == 'pthread_mutex_t':
            t = 'pthread_mutex_t'
        out.append((ren.get((record, fl['name']), fl['name']), t))
    return out
