#!/usr/bin/env python3
"""Regenerates MANIFEST.json from tools/claims.json (one entry per claimed
property) and properties.jsonl (everything else goes to not_applicable)."""
import json, os
here = os.path.dirname(os.path.dirname(os.path.abspath(__file__)))
claims = json.load(open(os.path.join(here, 'tools', 'claims.json')))
ids = [json.loads(l)['id'] for l in open(os.path.join(here, 'properties.jsonl'))]
m = {
    "version": 1,
    "setup_cmd": "./setup.sh",
    "hooks": {"guard": "IVYKIS_VERIF",
              "enable": "none needed: the checks parse /repo's sources with the build's own flags; no hook code exists in /repo",
              "baseline_off_cmd": "./baseline_off.sh", "source_commits": [], "add_only": True},
    "engines": [{"name": "ivyfacts+ivy", "path": "tools/ivyfacts.cc, ivy/",
                 "serves_properties": sorted(claims['checks'].keys()),
                 "kind_free_text": "libTooling (clang 14) fact extractor emitting per-function CFGs with typed access paths; "
                                   "Python analyses over the facts: normal form (flag partitioning, copy propagation, list idioms, "
                                   "inlining with poll-method expansion), role-based anchors and calling contexts, must-pass-through, "
                                   "locksets, disjunctive counter-delta analysis, branch-atom must analysis, finite-domain abstract "
                                   "evaluation, and per-module path-sensitive abstract execution of the facts over typestate/heap domains"}],
    "checks": [],
    "notes": "All checks are static: nothing in a registered command executes ivykis code. Exit 0 = all obligations "
             "discharged; 1 + VIOLATION line = an obligation failed that known_findings.json does not list; 2 = analysis "
             "broken (anchor vanished / unit does not parse / instance floor not met).",
    "not_applicable": [],
}
for pid in ids:
    c = claims['checks'].get(pid)
    if c:
        m['checks'].append({
            "property_id": pid,
            "quick_cmd": "./check %s --tier quick" % pid,
            "thorough_cmd": "./check %s --tier thorough" % pid,
            "evidence_file": "/verif/evidence/%s.json" % pid,
            "replay_cmd_template": "./check %s --replay {path}" % pid,
            "engine": "ivyfacts+ivy",
            "level_claimed": {"category": "other", "text": c['text'], "design_ref": "DESIGN.md §3 %s" % pid},
            "level_note": c['note'],
            "technique": c['technique'],
        })
    else:
        m['not_applicable'].append({"property_id": pid, "reason": claims['not_applicable'].get(
            pid, "check not built yet (work in progress; DESIGN.md §3 lists the planned static clauses)")})
json.dump(m, open(os.path.join(here, 'MANIFEST.json'), 'w'), indent=1)
print('MANIFEST.json: %d checks, %d not applicable' % (len(m['checks']), len(m['not_applicable'])))
