#!/bin/sh
# usage: mkscratch.sh <dir>  -- scratch git worktree of /repo (outside /repo and /verif) with the
# generated build files copied in, so that `make` and `make -C test check` work there.
set -e
d="$1"
git -C /repo worktree add --detach "$d" HEAD >/dev/null 2>&1
rsync -a --exclude .git --exclude '*.o' --exclude '*.lo' --exclude '*.la' --exclude '.libs' --exclude '*.log' --exclude '*.trs' /repo/ "$d"/
cd "$d"
# regenerate build files for the new location
./config.status >/dev/null 2>&1 || true
make -s >/dev/null 2>&1
echo "scratch worktree ready: $d"
