"""Core of the ivykis static checker: facts loading, expression helpers,
CFG utilities, generic dataflow, inliner.

Nothing in here knows a property.  Rules live in ivy/rules_*.py.
"""
import copy
import json
import os
import re
import subprocess
import sys
import hashlib
from concurrent.futures import ThreadPoolExecutor

VERIF = os.path.dirname(os.path.dirname(os.path.abspath(__file__)))
REPO = os.environ.get('IVY_REPO', '/repo')
EXTRACTOR = os.path.join(VERIF, 'build', 'ivyfacts')
CLANG_RES = '/usr/lib/llvm-14/lib/clang/14.0.6/include'


class AnalysisBroken(Exception):
    """The analysis could not be carried out (exit 2): never a pass, never a
    violation."""


# --------------------------------------------------------------------------
# compilation database
# --------------------------------------------------------------------------

# automake conditional -> config.h symbol that configure.ac derives it from
AM_COND = {
    'HAVE_POSIX': None,            # host system posix: always on this platform
    'HAVE_WIN32': False,
    'HAVE_DEV_POLL': 'HAVE_SYS_DEVPOLL_H',
    'HAVE_EPOLL': 'HAVE_EPOLL_CREATE',
    'HAVE_KQUEUE': 'HAVE_KQUEUE',
    'HAVE_PORT': 'HAVE_PORT_CREATE',
    'HAVE_INOTIFY': 'HAVE_INOTIFY_INIT',
    'HAVE_VERSIONING': None,
}


def config_defines(repo, config_dir=None):
    path = os.path.join(config_dir or repo, 'config.h')
    if not os.path.exists(path):
        raise AnalysisBroken('config.h missing: tree is not configured')
    defs = set()
    for line in open(path, errors='replace'):
        m = re.match(r'^#define\s+(\w+)', line)
        if m:
            defs.add(m.group(1))
    return defs


def _am_conditionals(repo, config_dir=None):
    """Truth of the automake conditionals of src/Makefile.am, derived from
    config.h the way configure.ac derives them (the generated Makefile has them
    substituted away)."""
    defs = config_defines(repo, config_dir)
    conds = {}
    for c, sym in AM_COND.items():
        if sym is None:
            conds[c] = True
        elif sym is False:
            conds[c] = False
        else:
            conds[c] = sym in defs
    return conds


def source_units(repo=None):
    """The SRC list of src/Makefile.am under the conditionals configure chose."""
    repo = repo or REPO
    conds = _am_conditionals(repo)
    unknown = set()
    am = os.path.join(repo, 'src', 'Makefile.am')
    text = open(am).read().replace('\\\n', ' ')
    stack = []
    units = []
    for line in text.split('\n'):
        s = line.strip()
        m = re.match(r'^if\s+(!?)(\w+)', s)
        if m:
            if m.group(2) not in conds:
                raise AnalysisBroken('unknown automake conditional %s in src/Makefile.am' % m.group(2))
            v = conds[m.group(2)]
            if m.group(1):
                v = not v
            stack.append(v)
            continue
        if s == 'else':
            stack[-1] = not stack[-1]
            continue
        if s == 'endif':
            stack.pop()
            continue
        if not all(stack):
            continue
        m = re.match(r'^SRC\s*\+?=\s*(.*)$', s)
        if m:
            units += [w for w in m.group(1).split() if w.endswith('.c')]
    if len(units) < 10:
        raise AnalysisBroken('SRC list of src/Makefile.am not understood')
    return units


def compile_flags(repo=None, config_dir=None):
    repo = repo or REPO
    fl = ['-DHAVE_CONFIG_H', '-D_GNU_SOURCE']
    if config_dir:
        fl += ['-I' + config_dir]
    fl += ['-I.', '-I..', '-I./include', '-Wall', '-std=gnu17', '-UNDEBUG',
           '-I' + CLANG_RES]
    return fl


def extract(repo=None, outdir=None, config_dir=None, jobs=16):
    """Run the extractor over every unit; returns {unit: facts}."""
    repo = repo or REPO
    if not os.path.exists(EXTRACTOR):
        raise AnalysisBroken('extractor not built: run ./setup.sh')
    for need in ('config.h', 'src/include/iv.h'):
        if not os.path.exists(os.path.join(repo, need)):
            raise AnalysisBroken('%s missing: tree is not configured' % need)
    units = source_units(repo)
    flags = compile_flags(repo, config_dir)
    src = os.path.join(repo, 'src')

    def one(u):
        p = subprocess.run([EXTRACTOR, '--root=' + repo, u, '--'] + flags,
                           cwd=src, capture_output=True, text=True)
        if p.returncode != 0 or not p.stdout.strip():
            raise AnalysisBroken('unit %s does not parse:\n%s' % (u, p.stderr[-2000:]))
        if 'error:' in p.stderr:
            raise AnalysisBroken('unit %s has errors:\n%s' % (u, p.stderr[-2000:]))
        return u, json.loads(p.stdout)

    with ThreadPoolExecutor(max_workers=jobs) as ex:
        res = dict(ex.map(one, units))
    return res


# --------------------------------------------------------------------------
# expression helpers
# --------------------------------------------------------------------------

def strip(e):
    """Drop loads, casts, stmtexpr wrappers: the value-carrying core."""
    while isinstance(e, dict) and e.get('k') in ('load', 'cast', 'stmtexpr') and 'e' in e:
        e = e['e']
    return e


def strip_load(e):
    while isinstance(e, dict) and e.get('k') in ('load',) and 'e' in e:
        e = e['e']
    return e


def canon(e):
    """Canonical string of an expression (casts and loads dropped)."""
    if e is None:
        return '?'
    k = e.get('k')
    if k == 'var':
        return e['name']
    if k in ('load', 'cast', 'stmtexpr', 'compound'):
        return canon(e.get('e'))
    if k == 'member':
        b = canon(e['base'])
        if e['arrow']:
            if b.startswith('&'):
                # (&X)->f is X.f
                inner = b[1:]
                if inner.startswith('*'):
                    return '(%s).%s' % (inner, e['field'])
                return '%s.%s' % (inner, e['field'])
            return '%s->%s' % (b, e['field'])
        if b.startswith('*'):
            return '(%s).%s' % (b, e['field'])
        return '%s.%s' % (b, e['field'])
    if k == 'deref':
        return '*' + canon(e['e'])
    if k == 'addr':
        return '&' + canon(e['e'])
    if k == 'index':
        return '%s[%s]' % (canon(e['base']), canon(e['idx']))
    if k == 'int':
        return str(e['v'])
    if k == 'null':
        return 'NULL'
    if k == 'str':
        return json.dumps(e['v'])
    if k == 'call':
        f = e.get('callee') or ('(' + canon(e.get('fnexpr')) + ')')
        return '%s(%s)' % (f, ', '.join(canon(a) for a in e['args']))
    if k == 'bin':
        return '(%s %s %s)' % (canon(e['l']), e['op'], canon(e['r']))
    if k == 'assign':
        return '(%s %s %s)' % (canon(e['l']), e['op'], canon(e['r']))
    if k == 'un':
        return '%s%s' % (e['op'], canon(e['e']))
    if k == 'incdec':
        return ('%s%s' if e['prefix'] else '%s%s') % ((e['op'], canon(e['e'])) if e['prefix'] else (canon(e['e']), e['op']))
    if k == 'cond':
        return '(%s ? %s : %s)' % (canon(e['c']), canon(e['a']), canon(e['b']))
    if k == 'container_of':
        return 'container_of(%s, %s, %s)' % (canon(e['e']), e['record'], e['member'])
    if k == 'sizeof':
        return 'sizeof(...)'
    if k == 'init':
        return '{...}'
    return '<%s>' % k


def walk(e):
    """All sub-expressions, pre-order."""
    if isinstance(e, dict):
        if 'k' in e:
            yield e
        for key, v in e.items():
            if key in ('sizeof',):
                continue
            if isinstance(v, (dict, list)):
                yield from walk(v)
    elif isinstance(e, list):
        for x in e:
            yield from walk(x)


def root_var(e):
    """The variable an access path is rooted at, or None (call results etc.)."""
    e = strip(e)
    while isinstance(e, dict):
        k = e.get('k')
        if k == 'var':
            return e
        if k == 'member':
            e = strip(e['base'])
        elif k in ('deref', 'addr'):
            e = strip(e['e'])
        elif k == 'index':
            e = strip(e['base'])
        elif k == 'container_of':
            e = strip(e['e'])
        elif k == 'bin' and e['op'] in ('+', '-'):
            e = strip(e['l'])
        else:
            return None
    return None


def members(e):
    """(record, field) of every member step in an expression."""
    for x in walk(e):
        if x.get('k') == 'member':
            yield (x.get('record'), x['field'])


def last_member(e):
    e = strip(e)
    if isinstance(e, dict) and e.get('k') == 'member':
        return (e.get('record'), e['field'])
    return None


def field_chain(e):
    """For x->a.b.c returns (base_expr_of_x, [(rec,a),(rec,b),(rec,c)]) following
    only '.' steps after the first '->' (i.e. the object and the path inside it)."""
    e = strip(e)
    chain = []
    while isinstance(e, dict) and e.get('k') == 'member':
        chain.append((e.get('record'), e['field']))
        if e['arrow']:
            return strip(e['base']), list(reversed(chain))
        e = strip(e['base'])
    return e, list(reversed(chain))


def is_int(e, v=None):
    e = strip(e)
    return isinstance(e, dict) and e.get('k') == 'int' and (v is None or e['v'] == v)


def is_null(e):
    e = strip(e)
    return isinstance(e, dict) and (e.get('k') == 'null' or (e.get('k') == 'int' and e['v'] == 0))


def calls_in(e):
    for x in walk(e):
        if x.get('k') == 'call':
            yield x


def simplify(e):
    """(&X)->f => X.f ; *(&X) => X  (arises when `&obj->field` is substituted
    for a pointer parameter)."""
    if isinstance(e, list):
        return [simplify(x) for x in e]
    if not isinstance(e, dict):
        return e
    out = {k: (simplify(v) if isinstance(v, (dict, list)) else v) for k, v in e.items()}
    k = out.get('k')
    if k == 'bin' and out.get('op') in ('==', '!='):
        r_ = _open_coded_list_empty(out)
        if r_ is not None:
            return r_
    if k == 'member' and out.get('arrow'):
        b = out['base']
        while isinstance(b, dict) and b.get('k') in ('load', 'cast') and 'e' in b and b.get('k') == 'load':
            b = b['e']
        if isinstance(b, dict) and b.get('k') == 'addr':
            out['arrow'] = False
            out['base'] = b['e']
    elif k == 'deref':
        b = out['e']
        if isinstance(b, dict) and b.get('k') == 'addr':
            return b['e']
    return out


def _open_coded_list_empty(b):
    """`X.next == &X` / `p->next == p` (either operand order) is iv_list_empty(&X)."""
    for l, r in ((b['l'], b['r']), (b['r'], b['l'])):
        m = l
        while isinstance(m, dict) and m.get('k') in ('load', 'cast'):
            m = m['e']
        if not (isinstance(m, dict) and m.get('k') == 'member' and m.get('record') == 'iv_list_head' and m['field'] in ('next', 'prev')):
            continue
        head = m['base'] if m['arrow'] else {'k': 'addr', 'e': m['base']}
        hc = canon(head)
        if canon(r) == hc:
            call = {'k': 'call', 'callee': 'iv_list_empty', 'args': [head], 'type': 'int', 'loc': b.get('loc', '')}
            return call if b['op'] == '==' else {'k': 'un', 'op': '!', 'e': call}
    return None


def subst(e, fn):
    """Rebuild an expression bottom-up; fn(node) may return a replacement."""
    if isinstance(e, list):
        return [subst(x, fn) for x in e]
    if not isinstance(e, dict):
        return e
    r = fn(e)
    if r is not None:
        return r
    out = {}
    for k, v in e.items():
        if isinstance(v, (dict, list)):
            out[k] = subst(v, fn)
        else:
            out[k] = v
    return out


# --------------------------------------------------------------------------
# condition normalisation
# --------------------------------------------------------------------------

NEG = {'==': '!=', '!=': '==', '<': '>=', '>=': '<', '>': '<=', '<=': '>'}
SWAP = {'==': '==', '!=': '!=', '<': '>', '>': '<', '<=': '>=', '>=': '<='}


def norm_cond(c, pol=True):
    """atoms of _norm_cond1 plus, for operands whose read of a caching local was
    replaced by copy propagation, the same atom spelled with that local"""
    out = []
    for (op, lc, rc, l, r) in _norm_cond1(c, pol):
        out.append((op, lc, rc, l, r))
        if op == 'const':
            continue
        ln = names_of(l) if isinstance(l, dict) else {lc}
        rn = names_of(r) if isinstance(r, dict) else {rc}
        for a in ln:
            for b in rn:
                a2 = lc if a == canon(l) else a
                b2 = rc if (not isinstance(r, dict) or b == canon(r)) else b
                if (a2, b2) != (lc, rc):
                    out.append((op, a2, b2, l, r))
    return out


def _norm_cond1(c, pol=True):
    """Normalise a branch condition taken with polarity `pol` to a list of
    atoms (op, lhs_canon, rhs_canon, lhs_expr, rhs_expr) that all hold, or []
    when nothing simple can be said.  `x` true => ('!=', x, '0'); `!x` true =>
    ('==', x, '0'); comparison with NULL/0 normalised to '0'."""
    c = strip(c)
    if not isinstance(c, dict):
        return []
    k = c.get('k')
    if k == 'un' and c['op'] == '!':
        return _norm_cond1(c['e'], not pol)
    if k == 'bin' and c['op'] in NEG:
        op = c['op'] if pol else NEG[c['op']]
        l, r = c['l'], c['r']
        lc, rc = canon(l), canon(r)
        if is_null(l) or (is_int(l) and not is_int(r)):
            l, r, lc, rc = r, l, rc, lc
            op = SWAP[op]
        if is_null(r):
            rc = '0'
        # (!!x) / (x != 0) != 0 style wrappers
        if rc == '0' and op in ('!=', '=='):
            inner = strip(l)
            if isinstance(inner, dict) and (
                    (inner.get('k') == 'un' and inner['op'] == '!') or
                    (inner.get('k') == 'bin' and inner['op'] in NEG) or
                    (inner.get('k') == 'bin' and inner['op'] in ('&&', '||'))):
                return _norm_cond1(inner, op == '!=')
        return [(op, lc, rc, l, r)]
    if k == 'bin' and c['op'] == '&&':
        if pol:
            return _norm_cond1(c['l'], True) + _norm_cond1(c['r'], True)
        return []
    if k == 'bin' and c['op'] == '||':
        if not pol:
            return _norm_cond1(c['l'], False) + _norm_cond1(c['r'], False)
        return []
    if k == 'int':
        return [('const', str(bool(c['v']) == pol), '', c, c)]
    # plain truth test of a value
    return [('!=' if pol else '==', canon(c), '0', c, {'k': 'int', 'v': 0})]


# --------------------------------------------------------------------------
# program model
# --------------------------------------------------------------------------

class Block:
    __slots__ = ('id', 'events', 'succ', 'term', 'noreturn', 'labels')

    def __init__(self, id, events, succ, term, noreturn=False):
        self.id = id
        self.events = events
        self.succ = succ
        self.term = term
        self.noreturn = noreturn

    def cond(self):
        return self.term.get('cond') if self.term else None


class Func:
    def __init__(self, d, unit, copyprop=True):
        self.name = d['name']
        self.unit = unit
        self._d = d
        self._copyprop = copyprop
        self._pristine = None
        self.file = d['file']
        self.loc = d['loc']
        self.endloc = d.get('endloc')
        self.static = d['static']
        self.noreturn = d.get('noreturn', False)
        self.constructor = d.get('constructor', False)
        self.params = d['params']
        self.ret = d['ret']
        self.blocks = {}
        self.entry = d.get('entry')
        self.exit = d.get('exit')
        self.inlined_from = None
        for b in d.get('blocks', []):
            evs = _normalise_events(simplify(b['events']))
            self.blocks[b['id']] = Block(b['id'], evs, [s for s in b['succ']],
                                         simplify(b.get('term')), b.get('noreturn', False))
        self._finish()

    def _finish(self):
        # a block containing a noreturn call never continues
        for b in self.blocks.values():
            for e in b.events:
                if e['ev'] == 'call' and e.get('noreturn'):
                    b.noreturn = True
            if b.noreturn:
                b.succ = []
            elif b.term and len(b.succ) == 2 and b.term.get('cls') != 'SwitchStmt':
                c = strip(b.term.get('cond')) if b.term.get('cond') else None
                if isinstance(c, dict) and c.get('k') == 'int':
                    b.succ = [b.succ[0] if c['v'] else b.succ[1]]
        self._resolve_joined_conditions()
        self._merge_linear()
        self._preds = None
        for b in self.blocks.values():
            for i, e in enumerate(b.events):
                e['_b'] = b.id
                e['_i'] = i
        self.flags = []
        if self.blocks and getattr(self, '_copyprop', True) and os.environ.get('IVY_NO_FLAGS') != '1':
            self.flags = partition_flags(self)
        if self.blocks and getattr(self, '_copyprop', True) and os.environ.get('IVY_NO_COPYPROP') != '1':
            try:
                self.copyprop = copy_propagate(self)
            except AnalysisBroken:
                self.copyprop = 0

    def _merge_linear(self):
        """Merge straight-line block chains (a `do { } while (0)` macro body, an empty
        join) so that block-local idioms are recognised whatever statement structure
        separates their parts; then fuse list idioms again."""
        if not self.blocks:
            return
        merged_any = False
        npred = {b: 0 for b in self.blocks}
        for b in self.blocks.values():
            for s_ in b.succ:
                if s_ is not None and s_ in npred:
                    npred[s_] += 1
        for aid in sorted(self.blocks):
            a = self.blocks.get(aid)
            if a is None or a.id == self.exit:
                continue
            while not a.noreturn and len(a.succ) == 1:
                t = a.succ[0]
                if t is None or t == a.id or t == self.exit or t == self.entry or npred.get(t) != 1 or t not in self.blocks:
                    break
                bt = self.blocks[t]
                a.events = a.events + bt.events
                a.succ = list(bt.succ)
                a.term = bt.term
                a.noreturn = bt.noreturn
                del self.blocks[t]
                merged_any = True
        if merged_any:
            for b in self.blocks.values():
                b.events = _fuse_list_idioms(b.events)

    def pristine(self):
        """the same function without copy propagation (for rules about what the
        source itself says of a local: NULL-CONTRADICTION)"""
        if getattr(self, '_d', None) is None:
            return self
        if self._pristine is None:
            self._pristine = Func(self._d, self.unit, copyprop=False)
            self._pristine.q = getattr(self, 'q', self.name)
        return self._pristine

    def _resolve_joined_conditions(self):
        """clang joins the evaluation of a nested short-circuit condition
        (`(A && B) || (C && D)`) in one empty block whose terminator carries the
        whole expression.  Which predecessor edge was taken already decides its
        value (short-circuit exits) or reduces it to the last operand (fall-through
        from the rightmost leaf).  Re-route / specialise those edges so that every
        conditional edge in the graph carries a simple condition."""
        def leaves_path(expr, target):
            # path of (node, side) from root to the first sub-expression whose canon is target
            e = strip(expr)
            if canon(e) == target:
                return []
            if isinstance(e, dict) and e.get('k') == 'bin' and e['op'] in ('&&', '||'):
                for side in ('l', 'r'):
                    sub = leaves_path(e[side], target)
                    if sub is not None:
                        return [(e, side)] + sub
            if isinstance(e, dict) and e.get('k') == 'un' and e['op'] == '!':
                sub = leaves_path(e['e'], target)
                if sub is not None:
                    return [(e, 'e')] + sub
            return None

        def rightmost(expr):
            e = strip(expr)
            while isinstance(e, dict) and e.get('k') == 'bin' and e['op'] in ('&&', '||'):
                e = strip(e['r'])
            return e

        def whole_value(expr, sub_canon, v):
            path = leaves_path(expr, sub_canon)
            if path is None:
                return None
            for (node, side) in reversed(path):
                if node.get('k') == 'un':
                    v = not v
                    continue
                if node['op'] == '&&':
                    if side == 'l':
                        if v:
                            return None      # right operand still to be evaluated
                        v = False
                    else:
                        v = v                # left was true
                else:
                    if side == 'l':
                        if not v:
                            return None
                        v = True
                    else:
                        v = v                # left was false
            return v

        nid = max(self.blocks) + 1 if self.blocks else 0
        preds = {b: [] for b in self.blocks}
        for b in self.blocks.values():
            for si, s_ in enumerate(b.succ):
                if s_ is not None:
                    preds[s_].append((b.id, si))
        for t in list(self.blocks.values()):
            if not t.term or len(t.succ) != 2 or t.term.get('cls') == 'SwitchStmt':
                continue
            c = strip(t.term.get('cond')) if t.term.get('cond') is not None else None
            if not (isinstance(c, dict) and c.get('k') == 'bin' and c['op'] in ('&&', '||')):
                continue
            if any(e['ev'] != 'load' for e in t.events):
                continue
            for (p, si) in preds.get(t.id, []):
                pb = self.blocks[p]
                if pb.term and pb.term.get('cond') is not None and len(pb.succ) == 2 and pb.term.get('cls') != 'SwitchStmt':
                    v = whole_value(c, canon(strip(pb.term['cond'])), si == 0)
                    if v is not None:
                        pb.succ[si] = t.succ[0] if v else t.succ[1]
                elif len(pb.succ) == 1 and not pb.term:
                    leaf = rightmost(c)
                    nb = Block(nid, [], list(t.succ), dict(t.term, cond=leaf), False)
                    self.blocks[nid] = nb
                    pb.succ[0] = nid
                    nid += 1

    # -- basic graph helpers ------------------------------------------------
    def preds(self):
        if self._preds is None:
            p = {b: [] for b in self.blocks}
            for b in self.blocks.values():
                for s in b.succ:
                    if s is not None:
                        p[s].append(b.id)
            self._preds = p
        return self._preds

    def events(self):
        for b in self.blocks.values():
            for e in b.events:
                yield e

    def reachable_blocks(self, start=None):
        start = self.entry if start is None else start
        seen = set()
        st = [start]
        while st:
            x = st.pop()
            if x in seen or x is None:
                continue
            seen.add(x)
            st.extend(self.blocks[x].succ)
        return seen

    def rpo(self):
        seen = set()
        order = []

        def dfs(b):
            stack = [(b, iter(self.blocks[b].succ))]
            seen.add(b)
            while stack:
                n, it = stack[-1]
                adv = False
                for s in it:
                    if s is not None and s not in seen:
                        seen.add(s)
                        stack.append((s, iter(self.blocks[s].succ)))
                        adv = True
                        break
                if not adv:
                    order.append(n)
                    stack.pop()
        dfs(self.entry)
        order.reverse()
        return order

    def dominators(self):
        """Block-level dominator sets."""
        order = self.rpo()
        preds = self.preds()
        allb = set(order)
        dom = {b: set(allb) for b in order}
        dom[self.entry] = {self.entry}
        changed = True
        while changed:
            changed = False
            for b in order:
                if b == self.entry:
                    continue
                ps = [p for p in preds[b] if p in dom]
                new = set(allb)
                for p in ps:
                    new &= dom[p]
                new |= {b}
                if new != dom[b]:
                    dom[b] = new
                    changed = True
        return dom

    def qual(self):
        return self.name

    def relloc(self):
        return relpath(self.loc)


def names_of(e):
    """canonical spellings under which the value of e is known: its own, and the
    local it was cached in before copy propagation replaced the read"""
    out = {canon(e)}
    x = e
    while isinstance(x, dict):
        if '_was' in x:
            out.add(x['_was'])
        if x.get('k') in ('load', 'cast', 'paren') and isinstance(x.get('e'), dict):
            x = x['e']
        else:
            break
    return out


def same_value(a, b):
    return bool(names_of(a) & names_of(b))


def _pure_path(e):
    """expression without calls / side effects (may read memory)"""
    for x in walk(e):
        if x.get('k') in ('call', 'assign', 'incdec', 'stmtexpr', 'other', 'deep', 'va_arg', 'init', 'compound'):
            return False
    return True


def _keys_read(e):
    keys = set()
    for x in walk(e):
        k = x.get('k')
        if k == 'member':
            keys.add((x.get('record'), x['field']))
        elif k == 'var':
            keys.add(('var', x['name']))
        elif k in ('deref', 'index'):
            keys.add(('mem', '*'))
    return keys


def copy_propagate(fn, max_expr=40):
    """Replace reads of a local that is a still-valid copy of a pure expression
    (`idx = fd->u.index; ... pfds[idx]`) by that expression, so that rules see
    the same access paths whether or not a value was cached in a local.  A copy
    is valid at a use iff on every path from the copy to the use neither the
    local nor anything the expression reads (type-based for memory) was written
    and no user callback ran (for expressions that read memory)."""
    addr_taken = set()
    for e in fn.events():
        for x in walk(e):
            if x.get('k') == 'addr':
                v = strip(x['e'])
                if isinstance(v, dict) and v.get('k') == 'var':
                    addr_taken.add(v['name'])
    cands = set()
    for e in fn.events():
        if e['ev'] == 'store' and e.get('op') == '=' and 'rhs' in e:
            l = strip(e['lhs'])
            if l.get('k') == 'var' and l.get('vk') == 'local' and l['name'] not in addr_taken:
                cands.add(l['name'])
        elif e['ev'] == 'decl' and 'init' in e and e['name'] not in addr_taken:
            cands.add(e['name'])
    if not cands:
        return 0

    def defn(e):
        if e['ev'] == 'store' and e.get('op') == '=' and 'rhs' in e:
            l = strip(e['lhs'])
            if l.get('k') == 'var' and l['name'] in cands:
                return l['name'], e['rhs']
        if e['ev'] == 'decl' and 'init' in e and e['name'] in cands:
            return e['name'], e['init']
        return None

    def usable(rhs, name):
        r = strip_load(rhs)
        if not isinstance(r, dict):
            return False
        if r.get('k') in ('int', 'null', 'str'):
            return False          # constants are handled by the atom analysis
        if not _pure_path(rhs):
            return False
        # only cached memory reads along a plain access path: p->f, a.b.c, p->a[i], *p
        def path(x):
            x = strip_load(x)
            while isinstance(x, dict) and x.get('k') in ('cast', 'load'):
                x = strip_load(x['e'])
            if not isinstance(x, dict):
                return False
            k = x.get('k')
            if k == 'var':
                return True
            if k == 'member':
                return path(x['base'])
            if k == 'index':
                return path(x['base']) and (strip_load(x['idx']).get('k') in ('int', 'var') or path(x['idx']))
            if k == 'deref':
                return path(x['e'])
            return False
        inner = r
        while isinstance(inner, dict) and inner.get('k') in ('cast', 'load'):
            inner = strip_load(inner['e'])
        if not isinstance(inner, dict) or inner.get('k') == 'var' or not path(rhs):
            return False
        if ('var', name) in _keys_read(rhs):
            return False
        n = sum(1 for _ in walk(rhs))
        return n <= max_expr

    def transfer(e, S):
        ev = e['ev']
        kills = set()
        if ev == 'store':
            for st in lvalue_steps(e['lhs']):
                kills.add(st)
            l = strip(e['lhs'])
            if l.get('k') == 'var':
                kills.add(('var', l['name']))
            if l.get('k') in ('deref', 'index') and not lvalue_steps(e['lhs']):
                kills.add(('mem', '*'))
        elif ev == 'decl':
            kills.add(('var', e['name']))
        elif ev == 'call':
            if 'fnexpr' in e:
                S = frozenset(x for x in S if all(k[0] == 'var' for k in x[2]))
            for a in e.get('args', []):
                a = strip(a)
                if isinstance(a, dict) and a.get('k') == 'addr':
                    v = strip(a['e'])
                    if isinstance(v, dict) and v.get('k') == 'var':
                        kills.add(('var', v['name']))
            nm = e.get('callee')
            if nm and nm not in PURE_CALLS:
                # a call into unknown code may write memory: copies of memory reads die (conservative),
                # except through primitives known not to write user-visible fields
                S = frozenset(x for x in S if all(k[0] == 'var' for k in x[2]))
        if kills:
            S = frozenset(x for x in S if not (x[2] & kills) and ('var', x[0]) not in kills)
        d = defn(e)
        if d and usable(d[1], d[0]):
            S = frozenset(x for x in S if x[0] != d[0]) | {(d[0], json.dumps(d[1], sort_keys=True), frozenset(_keys_read(d[1])))}
        return S

    _, ev_in = forward(fn, frozenset(), transfer, lambda a, b: a & b)
    n = [0]

    def rewrite(x, S):
        avail = {v: ex for (v, ex, _) in S}
        if not avail:
            return x
        def r(nd):
            if nd.get('k') == 'load':
                inner = nd.get('e')
                if isinstance(inner, dict) and inner.get('k') == 'var' and inner['name'] in avail and inner.get('vk') == 'local':
                    n[0] += 1
                    out = json.loads(avail[inner['name']])
                    out['_was'] = inner['name']
                    return out
            return None
        return subst(x, r)

    for b, blk in fn.blocks.items():
        for i, e in enumerate(blk.events):
            S = ev_in.get((b, i))
            if not S:
                continue
            if e['ev'] == 'load':
                v = strip_load(e['e'])
                if isinstance(v, dict) and v.get('k') == 'var' and any(v['name'] == x[0] for x in S):
                    ex = [x[1] for x in S if x[0] == v['name']][0]
                    e['e'] = strip_load(json.loads(ex))
                    e['e']['_was'] = v['name']
                    n[0] += 1
                else:
                    e['e'] = rewrite(e['e'], S)
                continue
            for key in ('rhs', 'args', 'fnexpr', 'value', 'init'):
                if key in e:
                    e[key] = rewrite(e[key], S)
            if e['ev'] == 'store':
                # loads nested in the lvalue (base pointers), not the stored-to variable itself
                l = e['lhs']
                if strip(l).get('k') != 'var':
                    e['lhs'] = rewrite(l, S)
        S = ev_in.get((b, len(blk.events)))
        if S and blk.term and blk.term.get('cond') is not None:
            blk.term = dict(blk.term, cond=rewrite(blk.term['cond'], S))
    return n[0]


# calls that cannot write user-visible object fields (so copies of memory reads survive them)
PURE_CALLS = {'iv_list_empty', 'iv_get_state', 'pthr_self', 'pthreads_available', 'is_mt_app', 'getpid', '__errno_location',
              'iv_tls_user_ptr', '__iv_tls_user_ptr', 'iv_get_thread_id', 'timespec_gt', 'timer_ptr_gt', 'strcmp', 'strerror',
              'iv_avl_tree_empty', 'iv_avl_tree_min', 'iv_avl_tree_max', 'iv_avl_tree_next', 'iv_avl_tree_prev', 'height', 'balance',
              'iv_fatal', 'abs', 'fprintf', 'perror', 'snprintf'}
# lock/unlock are deliberately NOT pure: they are memory barriers with respect to other threads, so a
# local that caches a shared field across them is not the same as re-reading the field (and rewriting
# the read of the local into a read of the field would invent an unsynchronised access)



# --------------------------------------------------------------------------
# flag partitioning (jump threading over boolean/constant locals)
# --------------------------------------------------------------------------

_BOOL_OPS = ('==', '!=', '<', '>', '<=', '>=', '&&', '||')


def _is_boolean_expr(e):
    e = strip(e)
    return isinstance(e, dict) and ((e.get('k') == 'bin' and e.get('op') in _BOOL_OPS) or (e.get('k') == 'un' and e.get('op') == '!'))


def fold(e):
    """Constant folding of an expression tree in which some reads were replaced by constants."""
    if isinstance(e, list):
        return [fold(x) for x in e]
    if not isinstance(e, dict):
        return e
    out = {k: (fold(v) if isinstance(v, (dict, list)) else v) for k, v in e.items()}
    k = out.get('k')

    def ival(x):
        x = strip(x)
        if isinstance(x, dict) and x.get('k') == 'int':
            return x['v']
        if isinstance(x, dict) and x.get('k') == 'null':
            return 0
        return None
    if k in ('load', 'paren') and isinstance(out.get('e'), dict) and out['e'].get('k') == 'int':
        return out['e']
    if k == 'cast' and isinstance(out.get('e'), dict) and out['e'].get('k') == 'int' and '*' not in str(out.get('to', '')):
        return out['e']
    if k == 'un' and out.get('op') in ('!', '-', '~'):
        v = ival(out['e'])
        if v is not None and strip(out['e']).get('k') == 'int':
            return {'k': 'int', 'v': int(not v) if out['op'] == '!' else (-v if out['op'] == '-' else ~v)}
    if k == 'bin':
        a, b = ival(out['l']), ival(out['r'])
        op = out['op']
        la = a is not None and strip(out['l']).get('k') == 'int'
        lb = b is not None and strip(out['r']).get('k') == 'int'
        if la and lb and op in ('+', '-', '*', '&', '|', '^', '<<', '>>', '==', '!=', '<', '>', '<=', '>=', '&&', '||'):
            if op == '&&':
                return {'k': 'int', 'v': int(bool(a) and bool(b))}
            if op == '||':
                return {'k': 'int', 'v': int(bool(a) or bool(b))}
            return {'k': 'int', 'v': int(eval('%d %s %d' % (a, op, b)))}
        if op == '&&':
            if la:
                return {'k': 'int', 'v': 0} if not a else _truth(out['r'])
            if lb and b:
                return _truth(out['l'])
        if op == '||':
            if la:
                return {'k': 'int', 'v': 1} if a else _truth(out['r'])
            if lb and not b:
                return _truth(out['l'])
    if k == 'cond':
        c = ival(out['c'])
        if c is not None and strip(out['c']).get('k') == 'int':
            return out['a'] if c else out['b']
    return out


def _truth(e):
    return e if _is_boolean_expr(e) else {'k': 'bin', 'op': '!=', 'l': e, 'r': {'k': 'int', 'v': 0}, 'type': 'int'}


def _flag_vars(fn):
    addr_taken, stores, bad = set(), {}, set()
    for e in fn.events():
        for x in walk(e):
            if x.get('k') == 'addr':
                v = strip(x['e'])
                if isinstance(v, dict) and v.get('k') == 'var':
                    addr_taken.add(v['name'])
        if e['ev'] == 'store':
            l = strip(e['lhs'])
            if l.get('k') == 'var' and l.get('vk') == 'local':
                r = strip(e.get('rhs')) if 'rhs' in e else None
                if e.get('op') == '=' and isinstance(r, dict) and (r.get('k') == 'int' or _is_boolean_expr(r)):
                    stores.setdefault(l['name'], []).append(e)
                else:
                    bad.add(l['name'])
    tested = set()
    for b in fn.blocks.values():
        c = b.term.get('cond') if b.term else None
        if c is not None and len(b.succ) >= 2:
            for x in walk(c):
                if x.get('k') == 'var':
                    tested.add(x['name'])
    for e in fn.events():
        for x in walk(e):
            if x.get('k') == 'cond':
                for y in walk(x['c']):
                    if y.get('k') == 'var':
                        tested.add(y['name'])
    return sorted(n for n in stores if n not in bad and n not in addr_taken and n in tested)


def partition_flags(fn, max_flags=8, max_blocks=1200):
    """Trace partitioning on flag locals: a local that is only ever assigned
    integer constants or boolean expressions and is tested in a branch is
    eliminated from the control flow by splitting every block per known value of
    the flag (jump threading).  `armed = 0; if (c) armed = 1; ...; if (armed) f();`
    thereby becomes the nested form `if (c) { ...; f(); } else { ... }`, which is
    what the path rules reason about.  Purely a CFG refinement: every path of
    the result is a path of the source with the same events."""
    done = []
    tried = set()
    for _round in range(6):
        progress = False
        for name in _flag_vars(fn):
            if name in tried or len(done) >= max_flags:
                continue
            tried.add(name)
            if _partition_one(fn, name, max_blocks):
                done.append(name)
                progress = True
        # partitioning one flag turns copies of it (`c = $ret2`) into constant stores: c may be a flag now
        if not progress:
            break
    return done


def _partition_one(fn, name, max_blocks):
    def is_flag_read(x):
        # the flag is never address-taken and plain-variable store targets are not passed through sub():
        # every occurrence of the variable is a read
        if isinstance(x, dict) and x.get('k') == 'var' and x['name'] == name:
            return True
        return isinstance(x, dict) and x.get('k') == 'load' and isinstance(x.get('e'), dict) \
            and x['e'].get('k') == 'var' and x['e']['name'] == name

    def sub(x, v):
        if v is None:
            return x
        return fold(subst(x, lambda nd: {'k': 'int', 'v': v} if is_flag_read(nd) else None))

    # liveness of the flag: where it is dead its value is forgotten, so that only
    # the region between its assignments and its last test is split
    def reads_flag(x):
        return any(y.get('k') == 'var' and y['name'] == name for y in walk(x))

    def is_def(e):
        return e['ev'] == 'store' and strip(e['lhs']).get('k') == 'var' and strip(e['lhs'])['name'] == name

    # per event: 'd' = defines the flag without reading it, 'r' = reads it, '' = neither
    kind = {}
    termreads = {}
    for b, blk in fn.blocks.items():
        termreads[b] = bool(blk.term and blk.term.get('cond') is not None and reads_flag(blk.term['cond']))
        for e in blk.events:
            if is_def(e):
                kind[id(e)] = 'r' if reads_flag(e.get('rhs', {})) else 'd'
            elif any(reads_flag(x) for k_, x in e.items() if isinstance(x, (dict, list))):
                kind[id(e)] = 'r'
            else:
                kind[id(e)] = ''

    def back(blk, lv, i0=0):
        for e in reversed(blk.events[i0:]):
            k_ = kind[id(e)]
            if k_ == 'd':
                lv = False
            elif k_ == 'r':
                lv = True
        return lv

    live_in = {b: False for b in fn.blocks}
    changed = True
    while changed:
        changed = False
        for b, blk in fn.blocks.items():
            lv = termreads[b] or any(live_in.get(s, False) for s in blk.succ if s is not None)
            lv = back(blk, lv)
            if lv != live_in[b]:
                live_in[b] = lv
                changed = True

    _live_cache = {}

    def live_at(b, i):
        if (b, i) not in _live_cache:
            blk = fn.blocks[b]
            lv = termreads[b] or any(live_in.get(s, False) for s in blk.succ if s is not None)
            _live_cache[(b, i)] = back(blk, lv, i)
        return _live_cache[(b, i)]

    newblocks = {}
    ids = {}
    work = []

    def node(b, i, v, pre=None):
        if v is not None and pre is None and not live_at(b, i):
            v = None
        key = (b, i, v) if pre is None else (b, i, v, id(pre))
        if b == fn.exit:
            key = (b, 0, None)
        if key not in ids:
            ids[key] = len(ids)
            work.append((key, b, i, v, pre))
        return ids[key]

    entry = node(fn.entry, 0, None)
    while work:
        key, b, i0, v, pre = work.pop()
        if len(ids) > max_blocks:
            return False
        blk = fn.blocks[b]
        nb = Block(ids[key], [], [], None, blk.noreturn)
        newblocks[nb.id] = nb
        if pre is not None:
            nb.events.append(pre)
        split = False
        for i in range(i0, len(blk.events)):
            e = blk.events[i]
            if e['ev'] == 'load' and v is not None and is_flag_read({'k': 'load', 'e': strip_load(e['e'])}):
                continue
            if e['ev'] == 'store' and strip(e['lhs']).get('k') == 'var' and strip(e['lhs'])['name'] == name:
                r = strip(sub(e['rhs'], v))
                if isinstance(r, dict) and r.get('k') == 'int':
                    v = r['v']
                    nb.events.append(dict(e, rhs={'k': 'int', 'v': v}))
                    continue
                # boolean expression: branch on it, continue with the flag known
                cond = sub(e['rhs'], v)
                nb.term = {'cls': 'FlagSplit', 'cond': cond, 'loc': e.get('loc', '')}
                nb.succ = [node(b, i + 1, 1, dict(e, rhs={'k': 'int', 'v': 1})),
                           node(b, i + 1, 0, dict(e, rhs={'k': 'int', 'v': 0}))]
                split = True
                break
            e2 = {}
            for k_, x in e.items():
                e2[k_] = sub(x, v) if (isinstance(x, (dict, list)) and k_ not in ('lhs',)) else x
            if e['ev'] == 'store' and v is not None:
                e2['lhs'] = sub(e['lhs'], v) if strip(e['lhs']).get('k') != 'var' else e['lhs']
            nb.events.append(e2)
        if split:
            continue
        term = dict(blk.term) if blk.term else None
        succ = list(blk.succ)
        if term and term.get('cond') is not None:
            term['cond'] = sub(term['cond'], v)
            c = strip(term['cond'])
            if isinstance(c, dict) and c.get('k') == 'int' and len(succ) >= 2:
                if term.get('cls') == 'SwitchStmt':
                    cases = term.get('cases', [])
                    pick = [s for s, cv in zip(succ, cases) if cv == c['v']] or [s for s, cv in zip(succ, cases) if cv == 'default']
                    if pick:
                        succ = [pick[0]]
                        term = dict(term, cls='Pruned')
                        term.pop('cond', None)
                elif len(succ) == 2:
                    succ = [succ[0] if c['v'] else succ[1]]
                    term = dict(term, cls='Pruned', pruned=('false' if c['v'] else 'true'))
                    term.pop('cond', None)
        nb.term = term
        nb.succ = [None if s is None else node(s, 0, v) for s in succ]
    fn.blocks = newblocks
    fn.entry = entry
    fn.exit = ids[(fn.exit, 0, None)] if (fn.exit, 0, None) in ids else fn.exit
    if fn.exit not in fn.blocks:
        nid = max(fn.blocks) + 1
        fn.blocks[nid] = Block(nid, [], [], None)
        fn.exit = nid
    fn._preds = None
    for b in fn.blocks.values():
        for i, e in enumerate(b.events):
            e['_b'] = b.id
            e['_i'] = i
    return True


def relpath(loc):
    if loc and loc.startswith(REPO + '/'):
        return loc[len(REPO) + 1:]
    return loc


def _normalise_events(events):
    """Drop container_of temporaries; fuse INIT_IV_LIST_HEAD's two stores into
    one synthetic call event so that rules see list initialisation as one
    operation whatever the macro expands to."""
    out = []
    for e in events:
        if e['ev'] == 'load':
            v = strip_load(e['e'])
            if v.get('k') == 'var' and v['name'] == '__ptr':
                continue
        if e['ev'] == 'decl' and 'init' in e and not e.get('static') and 'bound' not in e and 'vla_size' not in e \
                and isinstance(e['init'], dict) and e['init'].get('k') not in ('init', 'compound', 'str'):
            # `T x = E;` is `T x; x = E;`
            d = {k: v for k, v in e.items() if k != 'init'}
            out.append(d)
            lhs = {'k': 'var', 'name': e['name'], 'vk': 'local', 'type': e.get('type', '')}
            if 'record' in e:
                lhs['record'] = e['record']
                lhs['ptr'] = e.get('ptr', False)
            out.append({'ev': 'store', 'op': '=', 'lhs': lhs, 'rhs': e['init'], 'loc': e['loc'], 'used': False, 'from_decl': True})
            continue
        out.append(e)
    res = []
    i = 0
    while i < len(out):
        e = out[i]
        if e['ev'] == 'store' and e.get('op') == '=' and last_member(e['lhs']) == ('iv_list_head', 'next'):
            lhs = strip(e['lhs'])
            base = lhs['base']
            bc = canon(base) if lhs['arrow'] else '&' + canon(base)
            if canon(e['rhs']) == bc:
                # look ahead for the ->prev partner (loads may sit in between)
                j = i + 1
                while j < len(out) and out[j]['ev'] == 'load':
                    j += 1
                if j < len(out) and out[j]['ev'] == 'store' and out[j].get('op') == '=' \
                        and last_member(out[j]['lhs']) == ('iv_list_head', 'prev') \
                        and canon(out[j]['rhs']) == bc:
                    arg = base if lhs['arrow'] else {'k': 'addr', 'e': base}
                    res.append({'ev': 'call', 'callee': 'INIT_IV_LIST_HEAD', 'args': [arg],
                                'loc': e['loc'], 'used': False, 'synthetic': True})
                    i = j + 1
                    continue
        res.append(e)
        i += 1
    return _fuse_list_idioms(res)


def _fuse_list_idioms(evs):
    """iv_list_del(x); INIT_IV_LIST_HEAD(x)  ==  iv_list_del_init(x)
    INIT_IV_LIST_HEAD(n); iv_list_splice[_tail]_init(o, n)  ==  __iv_list_steal_elements(o, n)
    (adjacent in one block, only reads in between)."""
    def callee(e):
        return e.get('callee') if e['ev'] == 'call' else None
    evs = _fuse_open_coded_links(evs)
    out = []
    i = 0
    while i < len(evs):
        e = evs[i]
        c = callee(e)
        if c in ('iv_list_del', 'INIT_IV_LIST_HEAD') and e.get('args'):
            j = i + 1
            while j < len(evs) and evs[j]['ev'] == 'load':
                j += 1
            if j < len(evs):
                n = evs[j]
                if c == 'iv_list_del' and callee(n) == 'INIT_IV_LIST_HEAD' and canon(n['args'][0]) == canon(e['args'][0]):
                    out.append(dict(e, callee='iv_list_del_init', fused=True))
                    i = j + 1
                    continue
                if c == 'INIT_IV_LIST_HEAD' and callee(n) in ('iv_list_splice_init', 'iv_list_splice_tail_init') \
                        and len(n.get('args', [])) == 2 and canon(n['args'][1]) == canon(e['args'][0]):
                    out.extend(evs[i + 1:j])
                    out.append(dict(n, callee='__iv_list_steal_elements', fused=True))
                    i = j + 1
                    continue
        out.append(e)
        i += 1
    return out


def _fuse_open_coded_links(evs):
    """The bodies of iv_list_add / iv_list_add_tail / iv_list_del written out at the use site (four stores to
    iv_list_head.next/prev, only reads in between, in an order that is equivalent to the helper's) become the
    helper's call event; the first two stores of iv_list_del followed by INIT_IV_LIST_HEAD are iv_list_del_init."""
    def lstore(e):
        if e['ev'] != 'store' or e.get('op') != '=' or 'rhs' not in e:
            return None
        l = strip(e['lhs'])
        if not (isinstance(l, dict) and l.get('k') == 'member' and l.get('record') == 'iv_list_head' and l['field'] in ('next', 'prev')):
            return None
        base = l['base'] if l['arrow'] else {'k': 'addr', 'e': l['base']}
        return (canon(simplify(base)), l['field'], canon(e['rhs']), base, e['rhs'])

    def fld(ptr, f):
        return canon(simplify({'k': 'member', 'base': ptr, 'field': f, 'arrow': True, 'record': 'iv_list_head'}))

    def is_null(x):
        return canon(x) in ('NULL', '0')

    out = []
    i = 0
    n = len(evs)
    while i < n:
        s0 = lstore(evs[i])
        if s0 is None:
            out.append(evs[i])
            i += 1
            continue
        # collect up to 4 list stores separated only by loads
        idx, j = [], i
        while j < n and len(idx) < 4:
            if lstore(evs[j]) is not None:
                idx.append(j)
            elif evs[j]['ev'] != 'load':
                break
            j += 1
        sts = [lstore(evs[k]) for k in idx]
        made = None
        if len(sts) == 4:
            pos = {(b, f, r): k for k, (b, f, r, _, _) in enumerate(sts)}
            for (b, f, r, bx, rx) in sts:
                # add_tail(N, H): N->next = H
                if f == 'next':
                    N, H = b, r
                    want = {(N, 'next', H): 0, (N, 'prev', fld(rx, 'prev')): 1, (fld(rx, 'prev'), 'next', N): 2, (H, 'prev', N): 3}
                    if set(want) == set(pos) and N != H and pos[(fld(rx, 'prev'), 'next', N)] < pos[(H, 'prev', N)] \
                            and pos[(N, 'prev', fld(rx, 'prev'))] < pos[(H, 'prev', N)]:
                        made = ('iv_list_add_tail', [bx, rx])
                        break
                # add(N, H): N->prev = H
                if f == 'prev':
                    N, H = b, r
                    want = {(N, 'prev', H), (N, 'next', fld(rx, 'next')), (fld(rx, 'next'), 'prev', N), (H, 'next', N)}
                    if want == set(pos) and N != H and pos[(fld(rx, 'next'), 'prev', N)] < pos[(H, 'next', N)] \
                            and pos[(N, 'next', fld(rx, 'next'))] < pos[(H, 'next', N)]:
                        made = ('iv_list_add', [bx, rx])
                        break
            if made is None:
                # del(N): N->prev->next = N->next; N->next->prev = N->prev; N->prev = NULL; N->next = NULL
                for (b, f, r, bx, rx) in sts:
                    if is_null(rx) and f == 'prev':
                        N = b
                        a1, a2 = (fld(bx, 'prev'), 'next', fld(bx, 'next')), (fld(bx, 'next'), 'prev', fld(bx, 'prev'))
                        nulls = [k for k, (b2, f2, r2, _, rx2) in enumerate(sts) if b2 == N and is_null(rx2)]
                        if a1 in pos and a2 in pos and len(nulls) == 2 and max(pos[a1], pos[a2]) < min(nulls):
                            made = ('iv_list_del', [bx])
                            break
        if made is not None:
            out.extend(e for k, e in enumerate(evs[i:idx[-1] + 1]) if (i + k) not in idx)
            out.append({'ev': 'call', 'callee': made[0], 'args': made[1], 'loc': evs[i]['loc'], 'used': False,
                        'synthetic': True, 'fused': True})
            i = idx[-1] + 1
            continue
        if len(sts) >= 2:
            # del_init(N): the two unlink stores, then INIT_IV_LIST_HEAD(N)
            (b1, f1, r1, bx1, rx1), (b2, f2, r2, bx2, rx2) = sts[0], sts[1]
            k = idx[1] + 1
            while k < n and evs[k]['ev'] == 'load':
                k += 1
            if k < n and evs[k]['ev'] == 'call' and evs[k].get('callee') == 'INIT_IV_LIST_HEAD' and evs[k].get('args'):
                Nx = evs[k]['args'][0]
                a1 = (fld(Nx, 'prev'), 'next', fld(Nx, 'next'))
                a2 = (fld(Nx, 'next'), 'prev', fld(Nx, 'prev'))
                if {(b1, f1, r1), (b2, f2, r2)} == {a1, a2}:
                    out.extend(e for kk, e in enumerate(evs[i:k]) if (i + kk) not in idx[:2])
                    out.append({'ev': 'call', 'callee': 'iv_list_del_init', 'args': [Nx], 'loc': evs[i]['loc'], 'used': False,
                                'synthetic': True, 'fused': True})
                    i = k + 1
                    continue
        out.append(evs[i])
        i += 1
    return out


def _pointee_record(p):
    y = strip(p)
    if isinstance(y, dict):
        if y.get('k') == 'var' and y.get('ptr'):
            return y.get('record')
        if y.get('k') == 'member' and y.get('tptr'):
            return y.get('trecord')
        if y.get('k') == 'addr':
            z = strip(y['e'])
            if isinstance(z, dict) and z.get('k') == 'member' and not z.get('tptr'):
                return z.get('trecord') or z.get('frecord')
            if isinstance(z, dict) and z.get('k') == 'var' and not z.get('ptr'):
                return z.get('record')
    return None


def as_container_of(x, records):
    """`(T *)((char *)P - C)` where C is the byte offset of the one member m of T that has the type P points to
    (offsetof(T, m) is folded to C by the front end): the node iv_container_of(P, T, m) builds, else None.
    Decided from the record layout, not from the spelling."""
    if not (isinstance(x, dict) and x.get('k') == 'cast' and x.get('record') in records
            and str(x.get('to', '')).rstrip().endswith('*')):
        return None
    b = strip(x['e'])
    if not (isinstance(b, dict) and b.get('k') == 'bin' and b.get('op') == '-'):
        return None
    cr = strip(b['r'])
    if not (isinstance(cr, dict) and cr.get('k') == 'int' and cr['v'] >= 0):
        return None
    c = cr['v']
    P = b['l']
    while isinstance(P, dict) and P.get('k') == 'cast' and 'e' in P:
        P = P['e']
    if not isinstance(P, dict) or strip(P).get('k') == 'int':
        return None
    prec = _pointee_record(P)
    if prec is None:
        return None
    flds = [fl for fl in records[x['record']].get('fields', []) if fl.get('offset') == c and fl.get('record') == prec and not fl.get('ptr')]
    if len(flds) != 1:
        return None
    return {'k': 'container_of', 'record': x['record'], 'member': flds[0]['name'], 'e': P}


def lift_container_of(fn, records):
    """Rewrite every written-out iv_container_of in fn (events and branch conditions) into the node the macro gives."""
    def r_(nd):
        if nd.get('k') == 'cast' and nd.get('record'):
            c = as_container_of(nd, records)
            if c is not None:
                return dict(c, e=subst(c['e'], r_))
        return None

    def has(v):
        return any(y.get('k') == 'cast' and y.get('record') and isinstance(strip(y.get('e')), dict)
                   and strip(y['e']).get('k') == 'bin' for y in walk(v))
    n = 0
    for b, blk in fn.blocks.items():
        for e in blk.events:
            for k_ in ('lhs', 'rhs', 'e', 'args', 'fnexpr', 'value'):
                if k_ in e and isinstance(e[k_], (dict, list)) and has(e[k_]):
                    e[k_] = subst(e[k_], r_)
                    n += 1
        if blk.term and blk.term.get('cond') is not None and has(blk.term['cond']):
            blk.term = dict(blk.term, cond=subst(blk.term['cond'], r_))
            n += 1
    return n


class Program:
    def __init__(self, unit_facts):
        self.units = {}
        self.funcs = {}          # qualified name -> Func
        self.by_unit = {}        # unit -> {name -> Func}
        self.globals = {}        # name (or unit:name for statics) -> dict
        self.records = {}
        self.raw = unit_facts
        hdr_seen = {}
        for unit, d in sorted(unit_facts.items()):
            self.by_unit[unit] = {}
            for fd in d['functions']:
                f = Func(fd, unit)
                in_header = not f.file.endswith('.c')
                if in_header:
                    key = f.name
                    if key in hdr_seen:
                        self.by_unit[unit][f.name] = hdr_seen[key]
                        continue
                    hdr_seen[key] = f
                    f.unit = os.path.basename(f.file)
                    f.q = f.name
                elif f.static:
                    f.q = '%s:%s' % (unit, f.name)
                else:
                    f.q = f.name
                self.by_unit[unit][f.name] = f
                if f.q in self.funcs:
                    raise AnalysisBroken('duplicate function %s' % f.q)
                self.funcs[f.q] = f
            for g in d['globals']:
                if g.get('extern_decl'):
                    key = g['name']
                    self.globals.setdefault(key, g)
                    continue
                key = ('%s:%s' % (unit, g['name'])) if g['static'] else g['name']
                g['unit'] = unit
                self.globals[key] = g
            for r in d['records']:
                old = self.records.get(r['name'])
                if old is None or ('fields' in r and 'fields' not in old):
                    self.records[r['name']] = r
        self._callers = None
        if os.environ.get('IVY_NO_LIFT') != '1':
            for f in self.funcs.values():
                try:
                    lift_container_of(f, self.records)
                except Exception:
                    pass

    # -- resolution ---------------------------------------------------------
    def resolve(self, unit, name):
        """Function a direct call to `name` made in `unit` refers to."""
        f = self.by_unit.get(unit, {}).get(name)
        if f is not None:
            return f
        f = self.funcs.get(name)
        if f is not None and not (f.static and f.file.endswith('.c')):
            return f
        return None

    def fn(self, q):
        f = self.funcs.get(q)
        if f is None:
            # allow bare names for unique statics
            c = [x for x in self.funcs.values() if x.name == q]
            if len(c) == 1:
                return c[0]
            raise AnalysisBroken('anchor function %s not found (%d candidates)' % (q, len(c)))
        return f

    def has_fn(self, q):
        try:
            self.fn(q)
            return True
        except AnalysisBroken:
            return False

    def unit_of(self, f):
        """Unit in whose context calls made by f resolve."""
        if f.file.endswith('.c'):
            return os.path.basename(f.file)
        return None

    def global_for(self, unit, name):
        g = self.globals.get('%s:%s' % (unit, name))
        if g is None:
            g = self.globals.get(name)
        return g

    def global_key(self, unit, name):
        if ('%s:%s' % (unit, name)) in self.globals:
            return '%s:%s' % (unit, name)
        return name

    # -- method tables ------------------------------------------------------
    def method_tables(self):
        """{table_var: {slot: function name or None}} for every defined constant
        of type struct iv_fd_poll_method."""
        out = {}
        for key, g in self.globals.items():
            if g.get('record') == 'iv_fd_poll_method' and not g.get('ptr') \
                    and not g.get('extern_decl') and g.get('init', {}).get('k') == 'init':
                slots = {}
                for fld, v in g['init'].get('fields', {}).items():
                    v = strip(v)
                    if isinstance(v, dict) and v.get('k') == 'var' and v.get('vk') == 'func':
                        slots[fld] = (g['unit'], v['name'])
                    elif isinstance(v, dict) and v.get('k') == 'addr' and strip(v['e']).get('vk') == 'func':
                        slots[fld] = (g['unit'], strip(v['e'])['name'])
                    elif isinstance(v, dict) and v.get('k') == 'str':
                        slots[fld] = ('str', v['v'])
                    else:
                        slots[fld] = None
                rec = self.records.get('iv_fd_poll_method', {})
                for fl in rec.get('fields', []):
                    slots.setdefault(fl['name'], None)
                out[g['name']] = slots
        return out

    def slot_targets(self, slot, table=None):
        res = []
        for t, slots in sorted(self.method_tables().items()):
            if table is not None and t != table:
                continue
            v = slots.get(slot)
            if v and v[0] != 'str':
                f = self.resolve(v[0], v[1])
                if f is not None and f not in res:
                    res.append(f)
        return res

    # -- whole-program queries ---------------------------------------------
    def all_funcs(self):
        return list(self.funcs.values())

    def callers_of(self, name):
        out = []
        for f in self.funcs.values():
            for e in f.events():
                if e['ev'] == 'call' and e.get('callee') == name:
                    out.append((f, e))
        return out

    def writers_of(self, record, field):
        """(func, event) of every store whose final lvalue step is record.field
        (including stores to sub-fields of it and ++/--/op=)."""
        out = []
        for f in self.funcs.values():
            for e in f.events():
                if e['ev'] == 'store':
                    if (record, field) in list(lvalue_steps(e['lhs'])):
                        out.append((f, e))
        return out

    def global_writers(self, name):
        out = []
        for f in self.funcs.values():
            for e in f.events():
                if e['ev'] == 'store':
                    r = lvalue_root(e['lhs'])
                    if r is not None and r.get('vk') in ('global', 'staticlocal') and r['name'] == name:
                        out.append((f, e))
        return out


def lvalue_steps(lhs):
    """(record, field) steps of the stored-to location itself: for a->b.c = x
    yields (A,b),(B,c); for a->p->q = x yields only (P,q) (a->p is read)."""
    e = strip(lhs)
    steps = []
    while isinstance(e, dict):
        k = e.get('k')
        if k == 'member':
            steps.append((e.get('record'), e['field']))
            if e['arrow']:
                break
            e = strip(e['base'])
        elif k == 'index':
            b = strip_load(e['base'])
            # array member: the element is part of the containing object
            if isinstance(b, dict) and b.get('k') in ('member', 'var') and 'bound' in e:
                e = b
            else:
                break
        else:
            break
    return steps


def lvalue_root(lhs):
    """Variable that *is* (part of) the stored-to object: `g = x`, `g.f = x`,
    `g[i] = x`; not `g->f = x` (that stores to what g points to)."""
    e = strip(lhs)
    while isinstance(e, dict):
        k = e.get('k')
        if k == 'var':
            return e
        if k == 'member' and not e['arrow']:
            e = strip(e['base'])
        elif k == 'index' and 'bound' in e:
            e = strip_load(e['base'])
        else:
            return None
    return None


# --------------------------------------------------------------------------
# generic forward dataflow
# --------------------------------------------------------------------------

def forward(fn, init, transfer, join, edge=None, start=None, top=None):
    """Forward dataflow at event granularity.
       transfer(event, state) -> state
       join(a, b) -> state ; states must support ==
       edge(block, succ_index, state) -> state or None (edge infeasible)
       Returns (in_states{bid}, event_in{(bid,i)}) after the fixpoint; blocks
       never reached are absent."""
    start = fn.entry if start is None else start
    instate = {start: init}
    work = [start]
    iters = 0
    while work:
        iters += 1
        if iters > 200000:
            raise AnalysisBroken('dataflow does not converge in %s' % fn.name)
        b = work.pop()
        st = instate[b]
        blk = fn.blocks[b]
        for e in blk.events:
            st = transfer(e, st)
        for si, s in enumerate(blk.succ):
            if s is None:
                continue
            if edge:
                st2 = edge(blk, si, st)
                if st2 is None:
                    continue
            else:
                st2 = st
            if s not in instate:
                instate[s] = st2
                work.append(s)
            else:
                j = join(instate[s], st2)
                if j != instate[s]:
                    instate[s] = j
                    work.append(s)
    ev_in = {}
    for b, st in instate.items():
        for i, e in enumerate(fn.blocks[b].events):
            ev_in[(b, i)] = st
            st = transfer(e, st)
        ev_in[(b, len(fn.blocks[b].events))] = st
    return instate, ev_in


def must_pass(fn, pred, start_event=None, kill=None):
    """Forward must-analysis: for every program point, True iff every path from
    the start (function entry, or just after start_event) to it executed an
    event matching pred (and none matching kill since).  Returns event_in map
    {(bid,i): bool}; points not reachable from the start are absent."""
    if start_event is None:
        start_b, init = fn.entry, False
        def tr(e, s):
            if kill and kill(e):
                return False
            return True if pred(e) else s
        _, ev_in = forward(fn, init, tr, lambda a, b: a and b)
        return ev_in
    # start after a particular event: run from that block with a flag that is
    # armed only once the start event was crossed
    sb, si = start_event['_b'], start_event['_i']
    # state: None = not yet started (before the start event on this path),
    #        False/True = started, pred seen?
    def tr(e, s):
        if e is start_event:
            return False
        if s is None:
            return None
        if kill and kill(e):
            return False
        return True if pred(e) else s
    def jn(a, b):
        if a is None:
            return b
        if b is None:
            return a
        return a and b
    _, ev_in = forward(fn, None, tr, jn, start=sb)
    return {k: v for k, v in ev_in.items() if v is not None}


def edge_facts(blk, si):
    """Atoms known to hold on successor edge si of a block (if/while/&&/||)."""
    if not blk.term or len(blk.succ) != 2 or blk.term.get('cls') == 'SwitchStmt':
        return []
    c = blk.term.get('cond')
    if c is None:
        return []
    return norm_cond(c, si == 0)


# --------------------------------------------------------------------------
# inliner
# --------------------------------------------------------------------------

# Functions that are operations in their own right for the rules: never inlined.
PRIMITIVES = {
    'iv_list_add', 'iv_list_add_tail', 'iv_list_del', 'iv_list_del_init', 'iv_list_empty',
    'iv_list_splice', 'iv_list_splice_init', 'iv_list_splice_tail', 'iv_list_splice_tail_init',
    '__iv_list_splice', '__iv_list_steal_elements', 'INIT_IV_LIST_HEAD',
    '___mutex_init', '___mutex_destroy', '___mutex_lock', '___mutex_unlock',
    'spin_init', 'spin_lock', 'spin_unlock', 'spin_lock_sigmask', 'spin_unlock_sigmask',
    'fallback_spin_init', 'fallback_spin_lock', 'fallback_spin_unlock',
    'pthreads_available', 'pthread_spinlocks_available', 'pthr_atfork', 'pthr_create', 'pthr_detach',
    'pthr_getspecific', 'pthr_join', 'pthr_key_create', 'pthr_once', 'pthr_self',
    'pthr_setspecific', 'pthr_sigmask', 'iv_get_state', 'is_mt_app',
    'iv_avl_tree_insert', 'iv_avl_tree_delete', 'iv_avl_tree_next', 'iv_avl_tree_prev',
    'iv_avl_tree_min', 'iv_avl_tree_max', 'iv_avl_tree_empty', 'iv_avl_tree_next_safe',
    'iv_fatal', 'iv_tls_user_ptr', '__iv_tls_user_ptr', 'iv_get_thread_id',
}


class Inliner:
    def __init__(self, prog, depth=8, primitives=None, method_table=None,
                 expand_methods=False, stop=None, max_blocks=20000, prune=False):
        self.prog = prog
        self.depth = depth
        self.prims = PRIMITIVES if primitives is None else primitives
        self.method_table = method_table
        self.expand_methods = expand_methods or (method_table is not None)
        self.stop = stop or (lambda f: False)
        self.max_blocks = max_blocks
        self.prune = prune
        self.counter = 0

    def inline(self, f):
        g = copy.copy(f)
        g.blocks = {}
        g.inlined_from = f
        self.nextid = 0
        self.out = g
        self.instances = 0
        entry, exits = self._emit(f, {}, [], set([f.q]), 0, None)
        # single exit block
        ex = self._newblock([], [], None)
        for b in exits:
            self.out.blocks[b].succ = [ex]
        g.entry = entry
        g.exit = ex
        g._preds = None
        for b in g.blocks.values():
            for i, e in enumerate(b.events):
                e['_b'] = b.id
                e['_i'] = i
        # the same normalisations as for source functions, now across the inlined call boundaries:
        # boolean helper results ($retN assigned constants, then tested) and cached values
        if os.environ.get('IVY_NO_FLAGS') != '1':
            g.flags = partition_flags(g)
        if os.environ.get('IVY_NO_COPYPROP') != '1':
            try:
                copy_propagate(g)
            except AnalysisBroken:
                pass
        if self.prune:
            from .analyses import prune_infeasible
            g.pruned_edges = prune_infeasible(g)
        return g

    def _newblock(self, events, succ, term, noreturn=False):
        if self.nextid > self.max_blocks:
            raise AnalysisBroken('inlining of %s exceeds %d blocks' % (self.out.name, self.max_blocks))
        b = Block(self.nextid, events, succ, term, noreturn)
        self.out.blocks[b.id] = b
        self.nextid += 1
        return b.id

    def _targets(self, caller, e, known_table=None):
        """Repo functions a call event may enter, or None when it is not to be
        inlined (external, primitive, user callback)."""
        if known_table is not None and 'callee' not in e:
            # `method = &TABLE; ... method->slot(...)` in one block: the call is to that table's slot
            slot = method_slot(e)
            if slot is not None:
                ts = self.prog.slot_targets(slot, known_table)
                if ts and len(ts) == 1 and ts[0].blocks and not self.stop(ts[0]):
                    return ts
        if 'callee' in e:
            if e['callee'] in self.prims:
                return None
            unit = self.prog.unit_of(caller)
            t = self.prog.resolve(unit, e['callee']) if unit else self.prog.funcs.get(e['callee'])
            if t is None or not t.blocks:
                return None
            if self.stop(t):
                return None
            return [t]
        if self.expand_methods:
            slot = method_slot(e)
            if slot is not None:
                ts = self.prog.slot_targets(slot, self.method_table)
                return ts if ts else None
        return None

    def _fold_slot_test(self, cond):
        """For `method->slot != NULL` style conditions under a fixed table:
        index of the successor that is taken (0 true / 1 false), else None."""
        atoms = norm_cond(cond, True)
        if len(atoms) != 1:
            return None
        op, lc, rc, l, r = atoms[0]
        lm = last_member(l)
        if not lm or lm[0] != 'iv_fd_poll_method' or rc != '0' or op not in ('==', '!='):
            return None
        slots = self.prog.method_tables().get(self.method_table, {})
        present = bool(slots.get(lm[1]))
        truth = present if op == '!=' else not present
        return 0 if truth else 1

    def _emit(self, f, ren, chain, active, depth, retvar):
        """Copy f's CFG into the output with variable renaming `ren`; returns
        (entry block id, [exit block ids]).  Return statements store into retvar."""
        idmap = {}
        pending = []   # (new block id, old succ list)
        exits = []

        def rn(x):
            if not ren:
                return copy.deepcopy(x)
            def r(n):
                if n.get('k') == 'var' and n.get('vk') in ('local', 'param') and n['name'] in ren:
                    rep = ren[n['name']]
                    if isinstance(rep, str):
                        m = dict(n)
                        m['name'] = rep
                        m['vk'] = 'local'        # a renamed callee parameter is a local of the inlined function
                        return m
                    return copy.deepcopy(rep)
                return None
            out = simplify(subst(x, r))
            # the local a copy-propagated read was cached in is renamed together with the locals
            for nd in walk(out):
                w = nd.get('_was')
                if w is not None and isinstance(ren.get(w), str):
                    nd['_was'] = ren[w]
            return out

        # first pass: allocate ids for f's blocks lazily
        def bid(old):
            if old not in idmap:
                idmap[old] = self._newblock([], [], None)
            return idmap[old]

        for old in sorted(f.blocks):
            blk = f.blocks[old]
            cur = bid(old)
            cur_events = self.out.blocks[cur].events
            evs = blk.events
            term = rn(blk.term) if blk.term else None
            # replacements of call expressions by return temporaries, applied to
            # the remaining events of this source block and its terminator
            repl = {}

            def apply_repl(x):
                if not repl:
                    return x
                def r(n):
                    if n.get('k') == 'call' and (n.get('callee'), n.get('loc')) in repl:
                        return {'k': 'load', 'e': dict(repl[(n.get('callee'), n.get('loc'))])}
                    return None
                return subst(x, r)

            known_table = None
            tables = None
            for e in evs:
                if e['ev'] == 'store' and e.get('op') == '=' and 'rhs' in e:
                    l_, r_ = strip(e['lhs']), strip(e['rhs'])
                    if l_.get('k') == 'var' and l_.get('vk') in ('global', 'staticlocal'):
                        known_table = None
                        if isinstance(r_, dict) and r_.get('k') == 'addr' and strip(r_['e']).get('k') == 'var':
                            if tables is None:
                                tables = self.prog.method_tables()
                            if strip(r_['e'])['name'] in tables:
                                known_table = strip(r_['e'])['name']
                elif e['ev'] == 'call' and not (known_table is not None and 'callee' not in e and method_slot(e) is not None):
                    known_table = None
                e2 = rn({k: v for k, v in e.items() if k not in ('_b', '_i')})
                e2 = apply_repl(e2)
                e2['chain'] = chain
                e2['fn'] = f.q
                if e2['ev'] == 'decl' and ren and e2['name'] in ren and isinstance(ren[e2['name']], str):
                    e2['name'] = ren[e2['name']]
                if e2['ev'] == 'ret' and retvar is not None:
                    if 'value' in e2:
                        cur_events.append({'ev': 'store', 'op': '=', 'lhs': dict(retvar),
                                           'rhs': e2['value'], 'loc': e2['loc'], 'chain': chain,
                                           'fn': f.q, 'is_ret': True})
                    cur_events.append(e2)
                    continue
                if e2['ev'] != 'call':
                    cur_events.append(e2)
                    continue
                tg = None
                if depth < self.depth:
                    tg = self._targets(f, e, known_table)
                    known_table = None
                    if tg:
                        tg = [t for t in tg if t.q not in active]
                if not tg:
                    cur_events.append(e2)
                    continue
                # ---- inline -------------------------------------------------
                self.instances += 1
                inst = self.instances
                rv = None
                if tg[0].ret != 'void':
                    rv = {'k': 'var', 'name': '$ret%d' % inst, 'vk': 'local', 'type': tg[0].ret}
                cur_events.append(dict(e2, ev='enter', targets=[t.q for t in tg], inst=inst))
                conts = []
                sub_entries = []
                for t in tg:
                    ren2 = {}
                    pre = []
                    written = _written_params(t)
                    for pi, p in enumerate(t.params):
                        if pi >= len(e2['args']):
                            break
                        a = e2['args'][pi]
                        if p['name'] not in written and _stable_arg(a):
                            ren2[p['name']] = a
                        else:
                            nm = '%s@%d' % (p['name'], inst)
                            ren2[p['name']] = nm
                            pv = {'k': 'var', 'name': nm, 'vk': 'local', 'type': p['type']}
                            if 'record' in p:
                                pv['record'] = p['record']
                                pv['ptr'] = p.get('ptr')
                            pre.append({'ev': 'store', 'op': '=', 'lhs': pv, 'rhs': a,
                                        'loc': e2['loc'], 'chain': chain, 'fn': f.q, 'is_param': True})
                    for ln in _locals_of(t):
                        if ln not in ren2:
                            ren2[ln] = '%s@%d' % (ln, inst)
                    ch2 = chain + [(f.q, e2['loc'], t.q)]
                    sentry, sexits = self._emit(t, ren2, ch2, active | {t.q}, depth + 1, rv)
                    if pre:
                        pb = self._newblock(pre, [sentry], None)
                        sub_entries.append(pb)
                    else:
                        sub_entries.append(sentry)
                    conts += sexits
                # finish current block: jump to callee entries
                nxt = self._newblock([], [], None)
                self.out.blocks[cur].succ = sub_entries
                if len(sub_entries) > 1:
                    self.out.blocks[cur].term = {'cls': 'MethodDispatch', 'loc': e2['loc']}
                for x in conts:
                    self.out.blocks[x].succ = [nxt]
                cur = nxt
                cur_events = self.out.blocks[cur].events
                cur_events.append({'ev': 'leave', 'inst': inst, 'loc': e2['loc'], 'chain': chain,
                                   'fn': f.q, 'targets': [t.q for t in tg],
                                   'retvar': rv['name'] if rv else None,
                                   'rettype': tg[0].ret,
                                   'ret_unused': not e.get('used')})
                if rv is not None and 'callee' in e:
                    repl[(e.get('callee'), e.get('loc'))] = rv
                elif rv is not None:
                    repl[(None, e.get('loc'))] = rv
            # terminator and successors
            b = self.out.blocks[cur]
            b.term = apply_repl(term) if term else None
            b.noreturn = blk.noreturn
            if blk.noreturn:
                b.succ = []
            elif old == f.exit:
                exits.append(cur)
            else:
                succ = list(blk.succ)
                if self.method_table is not None and b.term and len(succ) == 2 and b.term.get('cond') is not None:
                    keep = self._fold_slot_test(b.term['cond'])
                    if keep is not None:
                        succ = [succ[keep]]
                b.succ = [bid(s) if s is not None else None for s in succ]
                # a block whose only successor is f's exit is a return edge
        # exit block of f
        return idmap[f.entry], exits


def _written_params(f):
    w = set()
    names = {p['name'] for p in f.params}
    for e in f.events():
        if e['ev'] == 'store':
            l = strip(e['lhs'])
            if l.get('k') == 'var' and l['name'] in names:
                w.add(l['name'])
        # address taken
        for x in walk(e):
            if x.get('k') == 'addr':
                v = strip(x['e'])
                if v.get('k') == 'var' and v['name'] in names:
                    w.add(v['name'])
    return w


def _locals_of(f):
    s = set()
    for e in f.events():
        if e['ev'] == 'decl':
            s.add(e['name'])
    for p in f.params:
        s.add(p['name'])
    return s


def _stable_arg(a):
    """Argument expressions that can be substituted for the parameter: built
    from constants, loads of variables, address-of paths; no calls, no loads
    through pointers other than the root variable."""
    for x in walk(a):
        k = x.get('k')
        if k in ('call', 'assign', 'incdec', 'stmtexpr', 'cond', 'other', 'deep', 'va_arg'):
            return False
    # loads through memory (x->f as a value) may change while the callee runs
    def value_reads(e, under_addr):
        k = e.get('k')
        if k == 'load':
            inner = strip_load(e['e'])
            if inner.get('k') == 'var':
                return False
            return True
        if k == 'addr':
            return addr_reads(e['e'])
        for key, v in e.items():
            if isinstance(v, dict) and value_reads(v, False):
                return True
            if isinstance(v, list):
                for y in v:
                    if isinstance(y, dict) and value_reads(y, False):
                        return True
        return False

    def addr_reads(e):
        # &a->b.c : reads only `a`
        e2 = e
        while isinstance(e2, dict) and e2.get('k') in ('member', 'index', 'cast'):
            if e2.get('k') == 'member':
                if e2['arrow']:
                    return value_reads(e2['base'], False)
                e2 = e2['base']
            elif e2.get('k') == 'index':
                if value_reads(e2['idx'], False):
                    return True
                e2 = e2['base']
            else:
                e2 = e2['e']
        if isinstance(e2, dict) and e2.get('k') == 'var':
            return False
        if isinstance(e2, dict) and e2.get('k') == 'deref':
            return value_reads(e2['e'], False)
        return True
    return not value_reads(a, False)


def method_slot(e):
    """If a call event is `method->slot(...)`, the slot name."""
    fe = e.get('fnexpr')
    if fe is None:
        return None
    m = strip(fe)
    if isinstance(m, dict) and m.get('k') == 'member' and m.get('record') == 'iv_fd_poll_method':
        return m['field']
    return None


def indirect_field(e):
    """(record, field) of the function-pointer member an indirect call goes
    through, or None."""
    fe = e.get('fnexpr')
    if fe is None:
        return None
    m = strip(fe)
    if isinstance(m, dict) and m.get('k') == 'member':
        return (m.get('record'), m['field'])
    return None


def evloc(e):
    """Human-readable location of an event incl. the inlining chain."""
    s = relpath(e.get('loc', '?'))
    ch = e.get('chain') or []
    if ch:
        s += ' [via ' + ' > '.join('%s@%s' % (c[2], relpath(c[1]).split('/')[-1]) for c in ch) + ']'
    return s


def load_program(repo=None, config_dir=None):
    return Program(extract(repo, config_dir=config_dir))
