"""C18 — memory/descriptor hygiene.

Decided statically: ownership / pairing / bounds clauses (see DESIGN §3 C18).
Not decided: global memory safety and leak-freedom over histories.

Formulation notes (hardening round): obligations are attached to *sites* (a subscript, a kernel/libc
write, a release call, a call of a subtree-freeing function) and to *roles* (the public iv_init/iv_deinit,
the function handed to pthr_key_create, poll-method slots, functions that free a radix node handed to
them, the list iv_tls_user_register appends to), never to the names of static helpers or locals.  A
site obligation is evaluated in the function itself, then with its helpers inlined, then in every
public/handler root that reaches it (h18.site_verdict); proofs are value ranges and branch atoms
(h18.View.range), not expression texts.
"""
import re

from ..core import (AnalysisBroken, Inliner, canon, strip, strip_load, last_member, must_pass, norm_cond, walk,
                    forward, lvalue_steps, lvalue_root, names_of, subst, PRIMITIVES, _open_coded_list_empty, root_var)
from .. import generic, roles
from ..analyses import (is_call, atoms_imply, path_to, exits_of, delta_analysis, is_fail, locksets, held, list_empty_test,
                        callback_kind)
from .c11 import null_rule
from . import h18
from .h18 import view_of, path_key, var_name, INF, fn_value_sources

ANCHOR_FILES = ('iv_main_posix.c', 'iv_fd.c', 'iv_fd_epoll.c', 'iv_fd_poll.c', 'iv_timer.c', 'iv_tls.c',
                'iv_event_raw_posix.c', 'iv_fd_pump.c', 'iv_thread_posix.c', 'iv_event.c', 'iv_popen.c',
                'iv_work.c', 'iv_task.c')

# acquiring primitives (libc / kernel); repository functions that hand such a value on are found by role (acquirers)
ACQUIRE = {'malloc': 'mem', 'calloc': 'mem', 'epoll_create': 'fd', 'epoll_create1': 'fd',
           'timerfd_create': 'fd', 'eventfd': 'fd', 'inotify_init': 'fd', 'inotify_init1': 'fd'}
SYSCALL_ACQUIRE = {213: 'fd', 291: 'fd', 284: 'fd', 290: 'fd', 283: 'fd'}   # x86-64: epoll_create, epoll_create1, eventfd, eventfd2, timerfd_create
RELEASE = {'mem': ('free',), 'fd': ('close',)}

# per-thread module initialisers (internal API, external linkage) and their tear-down partner
MODULE_PAIRS = {
    'iv_fd_init': ('iv_fd_deinit', None),
    'iv_timer_init': ('iv_timer_deinit', None),
    'iv_event_init': ('iv_event_deinit', None),
    'iv_tls_thread_init': ('iv_tls_thread_deinit', None),
    'iv_task_init': (None, 'initialises an empty list head; acquires nothing'),
}

SLOT_ASSUMPTION = ('slot count: one slot per registered descriptor with a handler; registration is fatal for fd >= IV_FD_POLL_MAXFD, '
                   'and distinct registered descriptors have distinct numbers, so the slot counter stays below the capacity of the '
                   'slot arrays (stated assumption, DESIGN R-C18b)')


def is_fd_index(x):
    x = strip(x)
    if isinstance(x, dict) and x.get('k') == 'member' and x['field'] == 'index':
        b = strip(x['base'])
        return isinstance(b, dict) and b.get('k') == 'member' and (b.get('record'), b['field']) == ('iv_fd_', 'u')
    return False


def _has_was(x):
    while isinstance(x, dict):
        if '_was' in x:
            return True
        if x.get('k') in ('load', 'cast', 'paren') and isinstance(x.get('e'), dict):
            x = x['e']
        else:
            return False
    return False


def subscripts(e):
    """index nodes evaluated by the event itself (load path / store lvalue).  Nested loads are events of
    their own; a sub-path that copy propagation substituted for the read of a local is not an access."""
    roots = []
    if e['ev'] == 'load':
        roots.append(e['e'])
    elif e['ev'] == 'store':
        roots.append(e['lhs'])
    out = []
    for r in roots:
        x = r
        while isinstance(x, dict):
            if _has_was(x):
                break
            x = strip_load(x)
            k = x.get('k')
            if k == 'index':
                out.append(x)
                b = x['base']
                x = b if (not _has_was(b) and strip_load(b).get('k') in ('member', 'index')) else None
            elif k == 'member':
                x = x['base'] if not x['arrow'] else None
            elif k in ('cast',):
                x = x['e']
            else:
                break
    return out


def run(ctx):
    prog = ctx.prog
    h18.unshadow(prog)
    ctx.rule('R-C18a.method', 'per poll method: every resource (memory, descriptor) stored into the method state is '
                              'released by deinit; init failure paths release what they acquired', floor=5)
    ctx.rule('R-C18a.module', 'every per-thread module initialiser run by iv_init has its de-initialiser run on every path of every '
                              'thread tear-down (iv_deinit and the TLS key destructor); the state block is freed, not used afterwards, '
                              'and the TLS slot is cleared before that', floor=12)
    ctx.rule('R-C18a.refcnt', 'shared kick descriptor: reference count balanced on every path incl. failure paths; '
                              'every change of the count is made under one common mutex', floor=3)
    ctx.rule('R-C18b', 'INDEX-GUARD: every subscript of a slot array by a descriptor\'s slot index is on a path that implies '
                       'index != -1 (or the index is the value the slot counter had before its increment)', floor=3)
    ctx.rule('R-C18d', 'registered descriptors are made close-on-exec and non-blocking on every success path', floor=4)
    ctx.rule('R-C18e', 'public/private twin structs agree on the user-visible prefix (names, types, offsets) and the '
                       'private struct fits in the public one', floor=3)
    ctx.rule('R-C18f', 'no pointer to a dead frame: an address of a local stored into heap/TLS state is cleared on every exit', floor=2)
    ctx.rule('R-C18g', 'NULL-CONTRADICTION in the anchored files', floor=8)
    ctx.rule('R-C18h', 'INIT-COMPLETE: every private field a library function may read is written by registration or the INIT function', floor=30)

    ctx.section(fd_modes)
    ctx.section(twins)
    ctx.section(dead_frames)
    ctx.section(lambda c: null_rule(c, 'R-C18g', ANCHOR_FILES))
    ctx.section(lambda c: h18.init_complete(c, 'R-C18h', kinds={k['rec'] for k in generic.OBJECT_KINDS} - {'iv_inotify', 'iv_inotify_watch'}))
    ctx.section(method_resources, prog)
    ctx.section(module_pairs, prog)
    ctx.section(refcount, prog)
    ctx.rule('R-C18c', 'ARRAY-BOUND: every subscript with a non-constant index carries a proof in its calling context: the value range of '
                       'the index (range tests, masks, ?: of constants, loop bounds) lies inside the constant bound; or the index is '
                       'below the occupied/kernel-returned count of that very array; or it is a guarded per-descriptor slot index', floor=14)
    ctx.rule('R-C18c.k', 'kernel/libc writes are bounded by the object they target: read lengths, (v)snprintf sizes, sscanf widths, the '
                         'epoll batch capacity and the poll slot count never exceed the destination, however the length is spelled', floor=10)
    ctx.rule('R-C18i', 'per-thread module state that owns library-allocated records has a tear-down hook visiting them; thread init and '
                       'tear-down walk the same registration list', floor=6)
    ctx.rule('R-C18a.radix', 'timer radix tree tear-down frees exactly the library\'s own nodes: a subtree handed to the recursive release is '
                             'given its true level (one below the node it hangs off), the recursion descends only above the leaves and at every level above them, '
                             'and tear-down removes levels until the depth is zero', floor=4)
    ctx.rule('R-C18j', 'OWNED-BLOCK: a library-acquired block whose address is kept in a private field of a user-visible object is owned '
                       'by that object alone: whenever the field is overwritten, the block it held was released (free) or handed to a '
                       'cache list on every path in every calling context, or was known to be absent (NULL), or is still held by a local '
                       'that is released/handed over before the return -- the only pointer to it is never dropped; the call that ends '
                       'the object\'s life leaves no block attached; no entry point returns with a block both attached and released', floor=4)
    ctx.rule('R-C18j.fd', 'a block whose member array received descriptors from pipe()/pipe2() is passed to free only after every one of '
                          'them was closed, on every path in its calling context, unless the path tests the mode under which the '
                          'descriptors are acquired as off, or the block was allocated in this very activation', floor=1)
    ctx.rule('R-C18k', 'LOCAL-BLOCK: a block the library allocates into a local (malloc/calloc) has an owner on every path from the '
                       'allocation to a return of every function it is visible in (helpers inlined): it was passed to free, stored '
                       'into memory outside the block and outside the frame (or linked into a list/tree by a member), handed to code '
                       'not in sight that may keep it, returned, or tested to be NULL -- the last local holding it is never '
                       'overwritten, re-allocated into, or left behind at a return while the block is still owned by nobody else', floor=5)
    ctx.rule('R-C18l', 'LIVE-MARKER: where the address of a local is published in a field of a user-visible object (the word through '
                       'which the frame learns that the object was unregistered), the object is touched after user code ran only where '
                       'that local was found non-NULL since, and every exported entry point that ends the registration of that kind of '
                       'object stores NULL through the field on every path (or finds the field NULL)', floor=2)
    ctx.rule('R-C18m', 'EMBEDDED-UNREGISTERED: a block is passed to free only with every loop object embedded in it (timer, task, event, '
                       'wait interest, descriptor ... a member of a kind with an exported register/unregister pair) unregistered: on every '
                       'path to the free, in every entry point that reaches it, the member was unregistered since its last registration, or '
                       'the block is fresh and the member was never successfully registered, or the activation is the one-shot member\'s own '
                       'handler, or the path finds false a fact that holds at every registration of the member and is undone only with the '
                       'member unregistered', floor=12)
    ctx.section(radix)
    ctx.section(embedded_members)
    ctx.section(local_blocks)
    ctx.section(live_markers)
    ctx.section(array_bounds)
    ctx.section(kernel_writes)
    ctx.section(tls_hooks)
    ctx.section(owned_blocks)
    ctx.section(owned_descriptors)


# --------------------------------------------------------------------------
# R-C18d: descriptor modes
# --------------------------------------------------------------------------

# (mode, F_GETxx, F_SETxx, flag bit) -- Linux values, the macros are folded by the front end
FD_MODES = (('close-on-exec', 1, 2, 1), ('non-blocking', 3, 4, 0o4000))
REGISTERED_FD = (('iv_fd_', 'fd'), ('iv_fd', 'fd'))


def _intval(x):
    x = strip(x)
    return x['v'] if isinstance(x, dict) and x.get('k') == 'int' else None


def fd_modes(ctx):
    """On every path of registration that ends in success the descriptor number stored in the iv_fd has its flag
    set: either fcntl(fd->fd, F_SETxx, v) ran with the bit or-ed into v, or the path crossed the edge on which the
    flags fetched by fcntl(fd->fd, F_GETxx) already have the bit.  Everything between the public entry point and the
    fcntl calls is inlined: nothing depends on the names of the helpers, on how many there are, on whether one
    helper serves both modes (command and bit are then parameters that became the caller's constants, or are read
    from a const table, possibly in a loop over that table, which is followed iteration by iteration), or on whether
    the two public entry points share one body.  The facts are carried along the paths (h18.path_must):
      ('fetched', n, mode)  local n holds, unmodified, what fcntl(fd->fd, F_GETxx) returned
      ('ored', n, mode)     local n has the mode's bit or-ed in
      ('set', mode)         the descriptor has the mode
    and success is decided per path (the returned value is 0 / provably non-zero on that path)."""
    prog = ctx.prog
    for r in ('iv_fd_register', 'iv_fd_register_try'):
        f = prog.fn(r)
        g = Inliner(prog, expand_methods=True).inline(f)
        V = view_of(prog, g)

        def is_regfd(x):
            return last_member(V.resolve(x)) in REGISTERED_FD

        # loop indices over const tables: kept apart by path_must, so that each iteration reads one table entry
        tidx = set()
        for e in g.events():
            for x in walk(e):
                if x.get('k') == 'index' and V._const_global(strip_load(x['base'])) is not None and var_name(x['idx']):
                    tidx.add(var_name(x['idx']))

        def cint(x, e, env):
            return V.const_int(x, (e['_b'], e['_i']) if isinstance(e, dict) else e, env)

        def has_bit(x, bit, e, env):
            n = cint(x, e, env)
            return n is not None and bool(n & bit)

        def ors_bit(x, bit, e, env, fact, mode):
            """value x has the bit: a constant with it, `y | c` with it, a local known to have it"""
            x0 = strip(x)
            if has_bit(x0, bit, e, env):
                return True
            if isinstance(x0, dict) and x0.get('k') == 'bin' and x0['op'] == '|':
                return any(ors_bit(s_, bit, e, env, fact, mode) for s_ in (x0['l'], x0['r']))
            n = var_name(x0)
            return n is not None and ('ored', n, mode) in fact

        def tr(e, fact, env):
            if e['ev'] == 'store' and strip(e['lhs']).get('k') == 'var':
                n = var_name(e['lhs'])
                keep = frozenset(a for a in fact if not (a[0] in ('fetched', 'ored') and a[1] == n))
                add = set()
                for (mode, getc, setc, bit) in FD_MODES:
                    if e['op'] == '|=' and has_bit(e.get('rhs'), bit, e, env):
                        add.add(('ored', n, mode))
                        add |= {a for a in fact if a[0] == 'ored' and a[1] == n}
                    elif e['op'] == '=' and 'rhs' in e:
                        r0 = strip(e['rhs'])
                        if isinstance(r0, dict) and r0.get('k') == 'call' and r0.get('callee') == 'fcntl' and len(r0['args']) >= 2 \
                                and cint(r0['args'][1], e, env) == getc and is_regfd(r0['args'][0]):
                            add.add(('fetched', n, mode))
                        elif ors_bit(r0, bit, e, env, fact, mode):
                            add.add(('ored', n, mode))
                return keep | add
            if e['ev'] == 'call' and is_call(e, 'fcntl') and len(e['args']) >= 3 and is_regfd(e['args'][0]):
                for (mode, getc, setc, bit) in FD_MODES:
                    if cint(e['args'][1], e, env) == setc and ors_bit(e['args'][2], bit, e, env, fact, mode):
                        fact = fact | {('set', mode)}
                        sites.setdefault(mode, set()).add(e['loc'])
            return fact

        def edge(blk, si, atoms, fact, env):
            pt = (blk.id, len(blk.events))
            for (op, lc, rc, l, r_) in atoms:
                l0 = strip(l) if isinstance(l, dict) else None
                if op == '!=' and rc == '0' and isinstance(l0, dict) and l0.get('k') == 'bin' and l0['op'] == '&':
                    for (a, b_) in ((l0['l'], l0['r']), (l0['r'], l0['l'])):
                        n = var_name(a)
                        for (mode, getc, setc, bit) in FD_MODES:
                            if n and ('fetched', n, mode) in fact and has_bit(b_, bit, pt, env):
                                fact = fact | {('set', mode)}
            return fact
        sites = {}
        rets = h18.path_must(g, frozenset(), tr, lambda a, b: a & b, edge, extra=tidx, with_env=True)
        good = [(e, fact) for (e, fact, cls) in rets if cls != 'fail']
        if not good:
            raise AnalysisBroken('%s: no success exit' % r)
        for (mode, getc, setc, bit) in FD_MODES:
            ok = all(('set', mode) in fact for (e, fact) in good)
            ctx.ob('R-C18d', '%s:%s' % (r, mode), ok, loc=f.loc,
                   detail='fcntl(fd->fd, %s, flags | %#o) or the already-set edge on every path that ends in success (%d setting sites)'
                          % ('F_SETFD' if setc == 2 else 'F_SETFL', bit, len(sites.get(mode, ()))), fn=f.q)


# --------------------------------------------------------------------------
# R-C18e
# --------------------------------------------------------------------------

def twins(ctx):
    prog = ctx.prog
    for pub, priv in (('iv_fd', 'iv_fd_'), ('iv_task', 'iv_task_'), ('iv_timer', 'iv_timer_')):
        rp, rq = prog.records.get(pub), prog.records.get(priv)
        if not rp or not rq or 'fields' not in rp or 'fields' not in rq:
            raise AnalysisBroken('twin records %s/%s not found' % (pub, priv))
        user = [x for x in rp['fields'] if x['name'] != 'pad']
        bad = []
        for i, x in enumerate(user):
            if i >= len(rq['fields']):
                bad.append('%s missing in %s' % (x['name'], priv))
                continue
            y = rq['fields'][i]
            if (x['name'], x['type'], x['offset']) != (y['name'], y['type'], y['offset']):
                bad.append('%s %s@%d vs %s %s@%d' % (x['type'], x['name'], x['offset'], y['type'], y['name'], y['offset']))
        if rq['size'] > rp['size']:
            bad.append('sizeof(%s)=%d > sizeof(%s)=%d' % (priv, rq['size'], pub, rp['size']))
        ctx.ob('R-C18e', '%s/%s' % (pub, priv), not bad, loc=rq['loc'],
               detail='; '.join(bad) or '%d user fields agree; %d <= %d bytes' % (len(user), rq['size'], rp['size']))


# --------------------------------------------------------------------------
# R-C18f (also used by C06: keep signature and instance naming)
# --------------------------------------------------------------------------

LIST_LINKS = (('iv_list_head', 'next'), ('iv_list_head', 'prev'))


def _frame_stores(f, chained=False):
    """stores of the address of a local into memory that outlives the frame: (event, the local's variable node)"""
    out = []
    # a local that is assigned exactly once, the address of another local (`current = &batch`), designates that frame
    # object wherever it is read: storing it publishes the frame address just the same
    defs = {}
    for e in f.events():
        if e['ev'] == 'store' and strip(e['lhs']).get('k') == 'var' and strip(e['lhs']).get('vk') == 'local':
            defs.setdefault(strip(e['lhs'])['name'], []).append(e)
    for e in list(f.events()):
        if e['ev'] != 'store' or e.get('op') != '=' or (e.get('chain') and not chained):
            continue
        r = strip(e['rhs'])
        r1 = strip(strip_load(r)) if isinstance(r, dict) else r
        if isinstance(r1, dict) and r1.get('k') == 'var' and r1.get('vk') == 'local' and strip(e['lhs']).get('k') != 'var':
            ds = defs.get(r1['name'], [])
            if len(ds) == 1 and ds[0].get('op') == '=' and 'rhs' in ds[0]:
                r0 = strip(ds[0]['rhs'])
                if isinstance(r0, dict) and r0.get('k') == 'addr':
                    r = r0
        if not (isinstance(r, dict) and r.get('k') == 'addr'):
            continue
        v = strip(r['e'])
        if not (isinstance(v, dict) and v.get('k') == 'var' and v.get('vk') in ('local', 'param')):
            continue   # a parameter lives in the frame exactly like a declared local: `this->term = &this`
        l = strip(e['lhs'])
        if not (isinstance(l, dict) and l.get('k') == 'member'):
            continue
        root = lvalue_root(e['lhs'])
        if root is not None and root.get('vk') in ('local', 'param'):
            continue   # a field of another local
        out.append((e, v))
    return out


def _is_list_head_var(v):
    return (v.get('record') == 'iv_list_head' and not v.get('ptr')) or str(v.get('type', '')).replace('const ', '').strip() == 'struct iv_list_head'


def _addr_of_local(x, name):
    x = strip(x)
    if isinstance(x, dict) and x.get('k') == 'addr':
        v = strip(x['e'])
        return isinstance(v, dict) and v.get('k') == 'var' and v['name'] == name
    return False


def _copy_aliases(f):
    """{local: variable node it is a copy of}: pointer locals with exactly one definition in f, a plain copy (casts
    stripped) of another variable that has no definition in f (a parameter) or exactly one (followed in turn)"""
    defs = {}
    for x in f.events():
        if x['ev'] == 'store' and isinstance(strip(x['lhs']), dict) and strip(x['lhs']).get('k') == 'var':
            defs.setdefault(strip(x['lhs'])['name'], []).append(x)
    params = {p_['name'] for p_ in f.params if p_.get('name')}
    out = {}

    def src(n, seen):
        ds = defs.get(n, [])
        if len(ds) != 1 or ds[0].get('op') != '=' or 'rhs' not in ds[0] or n in seen:
            return None
        r = strip(strip_load(strip(ds[0]['rhs'])))
        if not (isinstance(r, dict) and r.get('k') == 'var' and r.get('vk') in ('local', 'param') and r.get('name') != n):
            return None
        if not defs.get(r['name']):
            return r if (r['name'] in params or r.get('vk') == 'param') else None
        return src(r['name'], seen | {n}) or (r if len(defs[r['name']]) == 1 else None)
    for n in defs:
        t = src(n, frozenset())
        if t is not None:
            out[n] = t
    return out


def _frame_cleared(f, e, vname=None):
    """the location e stored a frame address into holds a non-stack value again at every return of f, or the return is
    reached over an edge on which the published local itself reads NULL although this function never stores NULL into
    it: the holder wrote through the published pointer when it went away (the `*this->term = NULL` protocol)"""
    l = strip(e['lhs'])
    # `(*&v)->f` (written by a helper that was handed &v, helper inlined) is `v->f`; a pointer local that this function
    # assigns exactly once, a copy of another pointer variable that is itself never re-assigned (`live = self`),
    # designates that variable's object wherever it may be dereferenced (it is either that value or was nulled by the
    # holder through the published address, and then it is not dereferenced)
    al = _copy_aliases(f)

    def _an(x):
        return canon(subst(h18.deref_norm(None, x), lambda n: al.get(n['name']) if n.get('k') == 'var' and n.get('name') in al else None))
    lc = _an(e['lhs'])
    self_nulled = vname is None or any(
        x['ev'] == 'store' and strip(x['lhs']).get('k') == 'var' and var_name(x['lhs']) == vname and 'rhs' in x
        and canon(x['rhs']) in ('NULL', '0') for x in f.events())

    def tr(x, s):
        if x is e:
            return False
        if s is None:
            return None
        if x['ev'] == 'store' and _an(x['lhs']) == lc:
            rr = strip(x.get('rhs')) if 'rhs' in x else None
            return not (isinstance(rr, dict) and rr.get('k') == 'addr')
        return s

    def edge(blk, si, s):
        if s is False and not self_nulled and blk.term and blk.term.get('cond') is not None and len(blk.succ) == 2:
            for (op, a, b, _, _) in norm_cond(blk.term['cond'], si == 0):
                if op == '==' and a == vname and b == '0':
                    return True      # the holder object itself is gone (unregistered)
        return s

    def jn(a, b):
        if a is None:
            return b
        if b is None:
            return a
        return a and b
    _, ev_in = forward(f, None, tr, jn, edge=edge, start=e['_b'])
    pts = [(pb, pi) for (pb, pi, _) in exits_of(f)] + [(f.exit, 0)]
    return not [p for p in pts if ev_in.get(p) is False]


def _implies_empty(x, pol, lname):
    """condition x having truth value `pol` implies that the list headed by the local `lname` is empty
    (iv_list_empty(&L), L.next == &L, L.prev == &L under negations, !!, comparisons with 0, conjunctions)"""
    def conv(n):
        if n.get('k') == 'bin' and n.get('op') in ('==', '!='):
            return _open_coded_list_empty(n)
        if n.get('k') == 'cond' and _intval(n.get('a')) is not None and _intval(n.get('b')) is not None:
            # `c ? 1 : 0` is c, `c ? 0 : 1` is !c
            ta, tb = bool(_intval(n['a'])), bool(_intval(n['b']))
            if ta != tb:
                c = subst(n['c'], conv)
                return c if ta else {'k': 'un', 'op': '!', 'e': c}
        return None
    for a in norm_cond(subst(x, conv), pol):
        if a[0] != 'const' and list_empty_test(a) == 'empty' and _addr_of_local(strip(a[3])['args'][0], lname):
            return True
    return False


def _list_drained(f, e, lname):
    """e links the on-stack list head `lname` into heap nodes (X->next/prev = &L).  The frame address is gone from the
    heap when the list is empty again: on every path from e to a return, the last thing known about L is that it is
    empty -- an edge on which iv_list_empty(&L) / L.next == &L holds, or on which a flag holds that was assigned that
    test -- and L was not linked again since (no store of &L, no call that is handed &L other than an emptiness test
    or an unlink of a node).  Code that runs user callbacks cannot add to L unless L's address is published in
    non-link memory (then a callback forgets what is known)."""
    published = any(x['ev'] == 'store' and 'rhs' in x and _addr_of_local(x['rhs'], lname) and last_member(x['lhs']) not in LIST_LINKS
                    for x in f.events())

    def relinks(x):
        if x['ev'] == 'store' and 'rhs' in x and _addr_of_local(x['rhs'], lname):
            return True
        if x['ev'] in ('call', 'enter') and any(_addr_of_local(a, lname) for a in x.get('args', [])):
            return x.get('callee') not in ('iv_list_empty',)
        return False

    def tr(x, S):
        if x is e:
            return frozenset()
        if S is None:
            return None
        if relinks(x):
            return frozenset()
        if x['ev'] == 'store' and strip(x['lhs']).get('k') == 'var':
            n = var_name(x['lhs'])
            S = frozenset(a for a in S if not (isinstance(a, tuple) and a[1] == n))
            if x.get('op') == '=' and 'rhs' in x:
                for pol in (True, False):
                    if _implies_empty(x['rhs'], pol, lname):
                        S = S | {('F', n, 1 if pol else -1)}
            return S
        if x['ev'] == 'call' and 'fnexpr' in x and published and (callback_kind(x) or ('?',))[0] != 'method':
            return frozenset()
        return S

    def edge(blk, si, S):
        if S is None or not blk.term or blk.term.get('cond') is None or len(blk.succ) != 2:
            return S
        c = blk.term['cond']
        if _implies_empty(c, si == 0, lname):
            return S | {'E'}
        for (op, lc, rc, l, r) in norm_cond(c, si == 0):
            if rc == '0' and op in ('!=', '=='):
                for a in S:
                    if isinstance(a, tuple) and a[1] == lc and ((a[2] == 1) == (op == '!=')):
                        return S | {'E'}
        return S

    def jn(a, b):
        if a is None:
            return b
        if b is None:
            return a
        return a & b
    _, ev_in = forward(f, None, tr, jn, edge=edge, start=e['_b'])
    pts = [(pb, pi) for (pb, pi, _) in exits_of(f)] + [(f.exit, 0)]
    return not [p for p in pts if ev_in.get(p) is not None and 'E' not in ev_in[p]]


def dead_frames(ctx):
    """Sites: every store of `&local` into memory that is not itself a local, in the function that owns the local --
    written there, or in a helper that was handed the address (the helper is inlined; the site keeps the owner's
    name).  Obligation per site: a published pointer is overwritten with a non-stack value on every path to return
    (or the holder is gone); an on-stack list head that was linked into heap nodes is empty again (_list_drained)."""
    prog = ctx.prog
    for f in sorted(prog.all_funcs(), key=lambda f: f.q):
        done = {}
        own = {d['name'] for d in f.events() if d['ev'] == 'decl'} | {p_['name'] for p_ in f.params if p_.get('name')}
        sites = [(f, e, v) for (e, v) in _frame_stores(f)]
        hands_on = any(e['ev'] == 'call' and e.get('callee') and e['callee'] not in PRIMITIVES
                       and any(_addr_of_local(a, n) for a in e.get('args', []) for n in own)
                       and (prog.resolve(prog.unit_of(f), e['callee']) is not None and prog.resolve(prog.unit_of(f), e['callee']).blocks)
                       for e in f.events()) if own else False
        if hands_on:
            try:
                g0 = roles.inlined(prog, f)
                sites += [(g0, e, v) for (e, v) in _frame_stores(g0, chained=True) if e.get('chain') and v['name'] in own]
            except AnalysisBroken:
                pass
        for (h, e, v) in sites:
            lc = canon(h18.deref_norm(None, e['lhs']))
            link = last_member(e['lhs']) in LIST_LINKS and _is_list_head_var(v)
            check = (lambda fn_, ev_: _list_drained(fn_, ev_, v['name'])) if link else (lambda fn_, ev_: _frame_cleared(fn_, ev_, v['name']))
            ok = check(h, e)
            if not ok and h is f:
                # the clearing store may live in a helper: same obligation with the helpers' effects visible
                try:
                    g = roles.inlined(prog, f)
                    twins_ = [x for (x, _) in _frame_stores(g) if x.get('loc') == e.get('loc')]
                    ok = bool(twins_) and all(check(g, x) for x in twins_)
                except AnalysisBroken:
                    ok = False
            k = (lc, e['loc'])
            done[k] = done.get(k, True) and ok
            done.setdefault(('v', k), (v['name'], link))
        for k, ok in done.items():
            if k[0] == 'v':
                continue
            vn, link = done[('v', k)]
            ctx.ob('R-C18f', '%s:%s' % (f.name, k[0]), ok, loc=k[1],
                   detail=('%s = &%s links an on-stack list head into heap nodes: the list is empty again (and was not linked since) on '
                           'every path to return' % (k[0], vn)) if link else
                          ('%s = &%s (a local) is overwritten with a non-stack value on every path to return' % (k[0], vn)), fn=f.q)


# --------------------------------------------------------------------------
# R-C18l: liveness markers (frame address published in a user-visible object)
# --------------------------------------------------------------------------

def _user_code_call(V, x):
    """an indirect call that may run application code (a handler / hook of a user-visible object, or a function value of
    unknown origin); poll-method slots and tree comparators are library code"""
    if x['ev'] != 'call' or 'fnexpr' not in x:
        return False
    k = callback_kind(x)
    if k and k[0] == 'method':
        return False
    if k and k[0] == 'hook' and k[1] == 'comparator':
        return False
    if k and k[0] in ('param', 'unknown'):
        try:
            src = fn_value_sources(V, x['fnexpr'], (x['_b'], x['_i']))
        except AnalysisBroken:
            src = None
        if src and None not in src and all(s_[0] in ('iv_fd_poll_method', 'iv_avl_tree') for s_ in src):
            return False
    return True


def _marker_retested(prog, g, e, vname, holders):
    """first use, after user code ran, of a pointer to the object the marker lives in (the variables `holders`) on a path on
    which the published local `vname` was not found non-NULL since; None when there is none"""
    V = view_of(prog, g)
    names = set(holders)

    def uses(x):
        for key in ('lhs', 'rhs', 'args', 'e', 'fnexpr', 'value'):
            if key not in x:
                continue
            if key == 'args' and x['ev'] == 'enter':
                continue          # an inlined helper: what it does with the pointer is in sight
            for y in walk(x[key]):
                if y.get('k') == 'member' and y.get('arrow') and var_name(y['base']) in names and strip(y['base']).get('k') == 'var':
                    return True
                if y.get('k') == 'deref' and strip(y['e']).get('k') == 'var' and var_name(y['e']) in names:
                    return True
            if key == 'args' and x['ev'] == 'call':
                for a in x['args']:
                    a0 = strip(a)
                    if isinstance(a0, dict) and a0.get('k') == 'var' and a0['name'] in names:
                        return True
        return False

    def tr(x, s):
        if x is e:
            return False
        if s is None:
            return None
        if _user_code_call(V, x):
            return True
        if x['ev'] == 'store' and strip(x['lhs']).get('k') == 'var' and var_name(x['lhs']) == vname and 'rhs' in x \
                and x.get('op') == '=' and not (canon(x['rhs']) in ('NULL', '0')):
            return False          # a fresh value was assigned to the published local by this function
        return s

    def edge(blk, si, s):
        if s and blk.term and blk.term.get('cond') is not None and len(blk.succ) == 2:
            for (op, a, b, _, _) in norm_cond(blk.term['cond'], si == 0):
                if op == '!=' and a == vname and b == '0':
                    return False
        return s

    def jn(a, b):
        if a is None:
            return b
        if b is None:
            return a
        return a or b
    _, ev_in = forward(g, None, tr, jn, edge=edge, start=e['_b'])
    for x in g.events():
        if x is not e and ev_in.get((x['_b'], x['_i'])) is True and x['ev'] in ('load', 'store', 'call', 'ret') and uses(x):
            return x
    return None


def _clears_marker(prog, fu, rec, fld):
    """(ok, loc, why): on every path to a return of the end-of-registration entry fu, NULL was stored *through* the marker
    field rec.fld of the object handed in (the word the publisher watches), or the path crossed an edge on which the
    field reads NULL (nobody is watching)"""
    try:
        g = roles.inlined(prog, fu)
    except AnalysisBroken:
        g = fu
    V = view_of(prog, g)
    obj = {p_['name'] for p_ in fu.params if p_.get('record') == rec and p_.get('ptr')}
    if not obj:
        return (False, fu.loc, 'takes no struct %s *' % rec)

    def is_marker(x):
        x = V.resolve(x)
        return isinstance(x, dict) and last_member(x) == (rec, fld)

    def through(lhs):
        l = strip(h18.deref_norm(V, lhs)) if isinstance(lhs, dict) else lhs
        if not isinstance(l, dict):
            return False
        if l.get('k') == 'deref':
            return is_marker(l['e'])
        if l.get('k') == 'index':
            i0 = strip(l['idx'])
            return is_marker(l['base']) and isinstance(i0, dict) and i0.get('k') == 'int' and i0['v'] == 0
        return False
    clr = [x for x in g.events() if x['ev'] == 'store' and through(x['lhs']) and x.get('op') == '=' and 'rhs' in x
           and canon(x['rhs']) in ('NULL', '0')]
    tl = {n for n, ds in V.defs.items() if len(ds) == 1 and 'rhs' in ds[0] and ds[0].get('op') == '=' and last_member(ds[0]['rhs']) == (rec, fld)}

    def tr(x, s):
        return True if any(x is c for c in clr) else s

    def edge(blk, si, s):
        if blk.term and blk.term.get('cond') is not None and len(blk.succ) == 2:
            for (op, a, b, l, r) in norm_cond(blk.term['cond'], si == 0):
                if op == '==' and b == '0' and ((isinstance(l, dict) and last_member(l) == (rec, fld)) or a in tl):
                    return True
        return s
    _, ev_in = forward(g, False, tr, lambda a, b: a and b, edge=edge)
    pts = [(pb, pi) for (pb, pi, _) in exits_of(g)] + [(g.exit, 0)]
    bad = [pt for pt in pts if ev_in.get(pt) is False]
    if not clr:
        return (False, fu.loc, 'never stores NULL through %s.%s' % (rec, fld))
    return (not bad, clr[0]['loc'], 'a return is reached without the store through %s.%s and without finding the field NULL' % (rec, fld) if bad else '')


def _end_entries(prog, rec):
    """exported functions that end the registration of an object of kind rec: the partner `..unregister..` of each of
    the kind's registration entry points (exported API names), taking a pointer to the record"""
    out = []
    for K in generic.OBJECT_KINDS:
        if K['rec'] != rec:
            continue
        for r in K['reg']:
            if 'register' not in r:
                continue
            n = r.replace('register', 'unregister')
            if prog.has_fn(n):
                t = prog.fn(n)
                if not t.static and t not in out and any(p_.get('record') == rec and p_.get('ptr') for p_ in t.params):
                    out.append(t)
    return out


def live_markers(ctx):
    """Sites: the R-C18f sites whose holder is a field of a user-visible object kind (`obj->f = &v`): while user code
    runs the application may unregister and release `obj`, and the frame learns of it only through a write to `v` made
    through `obj->f`.  Two obligations, both necessary for 'only memory of currently registered objects is touched':
    the publisher touches `obj` after user code ran only where `v` was found non-NULL since; every exported entry point
    that ends the registration of that kind stores NULL through the field on every path (or finds it NULL)."""
    prog = ctx.prog
    kinds = {K['rec'] for K in generic.OBJECT_KINDS}
    fields = set()
    for f in sorted(prog.all_funcs(), key=lambda f: f.q):
        own = {d['name'] for d in f.events() if d['ev'] == 'decl'} | {p_['name'] for p_ in f.params if p_.get('name')}
        if not own:
            continue
        if not any(True for _ in _frame_stores(f)) and not any(
                e['ev'] == 'call' and e.get('callee') and any(_addr_of_local(a, n) for a in e.get('args', []) for n in own) for e in f.events()):
            continue
        try:
            g = roles.inlined(prog, f)
        except AnalysisBroken:
            g = f
        byloc = {}
        for (e, v) in _frame_stores(g, chained=True):
            lm = last_member(e['lhs'])
            if v['name'] not in own or not lm or lm[0] not in kinds or lm in LIST_LINKS:
                continue
            root = lvalue_root(e['lhs'])
            holders = {v['name']} if (v.get('ptr') and v.get('record') == lm[0]) else set()
            if root is not None and root.get('k') == 'var' and root.get('vk') in ('local', 'param'):
                holders.add(root['name'])
            bad = _marker_retested(prog, g, e, v['name'], holders)
            k = (lm, e['loc'], v['name'])
            if bad is not None or k not in byloc:
                byloc[k] = bad if bad is not None else byloc.get(k, True)
        for (lm, loc, vn), bad in sorted(byloc.items(), key=lambda kv: str(kv[0])):
            fields.add(lm)
            ctx.ob('R-C18l', '%s:retest:%s.%s' % (f.name, lm[0], lm[1]), bad is True, loc=loc,
                   detail=('the struct %s is touched at %s after user code ran, on a path on which `%s` (published through %s.%s) was '
                           'not found non-NULL since' % (lm[0], bad.get('loc'), vn, lm[0], lm[1])) if bad is not True else
                          'after user code ran the struct %s is touched only where `%s` (published through %s.%s) was found non-NULL since'
                          % (lm[0], vn, lm[0], lm[1]),
                   path=path_to(g, bad) if bad is not True else None, fn=f.q)
    for (rec, fld) in sorted(fields):
        ends = _end_entries(prog, rec)
        if not ends:
            raise AnalysisBroken('no exported unregister entry point of kind %s (marker field %s)' % (rec, fld))
        for fu in ends:
            ok, loc, why = _clears_marker(prog, fu, rec, fld)
            ctx.ob('R-C18l', '%s:clears:%s.%s' % (fu.name, rec, fld), ok, loc=loc,
                   detail='%s stores NULL through %s.%s on every path (or finds the field NULL)%s' % (fu.name, rec, fld, (': ' + why) if why else ''),
                   fn=fu.q)


# --------------------------------------------------------------------------
# R-C18a.method
# --------------------------------------------------------------------------

def acquirers(prog):
    """{function q: resource kind} of the repository functions that hand a freshly acquired resource to their
    caller (return value derives from an acquiring primitive, transitively)."""
    if getattr(prog, '_c18_acq', None) is not None:
        return prog._c18_acq
    acq = {}

    def kind_of(expr, unit, tainted):
        for x in walk(expr):
            if x.get('k') == 'call':
                nm = x.get('callee')
                if nm in ACQUIRE:
                    return ACQUIRE[nm]
                if nm == 'syscall' and x.get('args') and _intval(x['args'][0]) in SYSCALL_ACQUIRE:
                    return SYSCALL_ACQUIRE[_intval(x['args'][0])]
                t = prog.resolve(unit, nm) if (unit and nm) else None
                if t is not None and t.q in acq:
                    return acq[t.q]
        n = var_name(expr)
        return tainted.get(n) if n else None

    prog._c18_kind_of = kind_of
    changed = True
    while changed:
        changed = False
        for f in prog.all_funcs():
            if f.q in acq or not f.blocks or f.ret == 'void':
                continue
            unit = prog.unit_of(f)
            tainted = _tainted(f, lambda x, t: kind_of(x, unit, t))
            for e in f.events():
                if e['ev'] == 'ret' and 'value' in e:
                    k = kind_of(e['value'], unit, tainted)
                    if k:
                        acq[f.q] = k
                        changed = True
                        break
    prog._c18_acq = acq
    return acq


def _tainted(g, kind):
    """flow-insensitive: locals that are ever assigned an acquired value"""
    tainted = {}
    changed = True
    while changed:
        changed = False
        for e in g.events():
            if e['ev'] != 'store' or e.get('op') != '=' or 'rhs' not in e:
                continue
            l = strip(e['lhs'])
            if l.get('k') != 'var':
                l = h18.plain_lhs(e['lhs'])          # `*&v = x`: the inlined form of a result handed back through an out-parameter
            if l is not None and l.get('k') == 'var':
                nm, k = l['name'], kind(e['rhs'], tainted)
                if k and tainted.get(nm) != k:
                    tainted[nm] = k
                    changed = True
    return tainted


def method_resources(ctx, prog):
    tables = prog.method_tables()
    acq = acquirers(prog)
    done = set()
    for t, slots in sorted(tables.items()):
        if not slots.get('init') or not slots.get('deinit'):
            ctx.ob('R-C18a.method', '%s:init/deinit' % t, False, loc=prog.globals[t]['loc'], detail='init and deinit slots are mandatory')
            continue
        fns = []
        for slot, v in slots.items():
            if v and v[0] != 'str':
                f = prog.resolve(v[0], v[1])
                if f is not None:
                    fns.append(f)
        resources = {}   # structural key of the state field -> (kind, store event, fn, spelling)
        inl = Inliner(prog, stop=lambda t_: t_.q in acq)
        for f in fns:
            g = inl.inline(f)
            unit = prog.unit_of(f)
            kind = lambda x, tn, unit=unit: prog._c18_kind_of(x, unit, tn)
            tainted = _tainted(g, kind)
            vg = view_of(prog, g)
            for e in g.events():
                if e['ev'] == 'store' and e.get('op') == '=' and strip(e['lhs']).get('k') != 'var' and 'rhs' in e:
                    k = kind(e['rhs'], tainted)
                    lhs = h18.deref_norm(vg, e['lhs'])      # `*out = fd` with out = &st->...: a store to the state field
                    st_ = lvalue_steps(lhs)
                    pk = path_key(lhs)
                    if k and st_ and st_[-1][0] == 'iv_state' and pk:
                        resources.setdefault(pk, (k, e, f, canon(lhs)))
        if not resources:
            raise AnalysisBroken('method %s: no acquired resource found in its state' % t)
        fde = prog.resolve(*slots['deinit'])
        gde = inl.inline(fde)
        vde = view_of(prog, gde)
        for pk, (kind_, se, sf, lc) in sorted(resources.items(), key=lambda kv: kv[1][3]):
            def released(e, pk=pk, kind_=kind_):
                return e['ev'] == 'call' and is_call(e, RELEASE[kind_]) and e['args'] and \
                    path_key(vde.resolve(h18.deref_norm(vde, e['args'][0]))) == pk

            def edge(blk, si, s, pk=pk):
                if blk.term and blk.term.get('cond') is not None and len(blk.succ) == 2:
                    for (op, a, b, l, r) in norm_cond(blk.term['cond'], si == 0):
                        if isinstance(l, dict) and path_key(vde.resolve(h18.deref_norm(vde, l))) == pk and \
                                ((op == '==' and b in ('-1', '0')) or (op == '<' and b == '0')):
                            return True     # nothing was acquired
                return s
            _, ev_in = forward(gde, False, lambda e, s: True if released(e) else s, lambda a, b: a and b, edge=edge)
            ok = bool(ev_in.get((gde.exit, 0)))
            ctx.ob('R-C18a.method', '%s:%s released by deinit' % (t.replace('iv_fd_poll_method_', ''), lc), ok, loc=se['loc'],
                   detail='%s acquired in %s is passed to %s by the deinit slot on every path (or tested as never acquired)'
                          % (lc, sf.name, '/'.join(RELEASE[kind_])), fn=fde.q)
        # init failure paths: nothing acquired so far is still held at a failing return
        fi = prog.resolve(*slots['init'])
        if fi.q in done:
            continue
        done.add(fi.q)
        gi = inl.inline(fi)
        vi = view_of(prog, gi)
        unit = prog.unit_of(fi)
        kind = lambda x, tn: prog._c18_kind_of(x, unit, tn)
        spell = {}

        def keyof(x):
            n = var_name(x) if strip(x).get('k') == 'var' else None
            if n is None:
                # `*&v` (a result handed back through an out-parameter, helper inlined) is the variable v itself
                p = h18.plain_lhs(strip_load(x)) if isinstance(strip_load(x), dict) else None
                n = var_name(p) if p is not None else None
            if n:
                return ('var', n)
            return path_key(vi.resolve(h18.deref_norm(vi, x)))

        # fact: set of (acquisition site, kind, holders): the holders are the locals / state fields that hold that very
        # value now.  A copy adds a holder (the block is then known under both spellings: releasing through either one
        # releases it, a failed-acquisition test on either one says there is nothing to release); overwriting a local
        # removes it; a resource without any holder left is still a resource that was not released.
        def tr(e, S):
            if e['ev'] == 'store' and e.get('op') == '=' and 'rhs' in e:
                k = keyof(e['lhs'])
                if k is None:
                    return S
                r0 = strip(e['rhs'])
                rk = keyof(e['rhs']) if isinstance(r0, dict) and r0.get('k') in ('var', 'member', 'deref') else None
                kd = kind(e['rhs'], {})
                out = set()
                for (rid, kn, H) in S:
                    H2 = (H - {k}) if k[0] == 'var' else H
                    if not kd and rk is not None and rk in H:
                        H2 = H2 | {k}
                        spell[k] = canon(e['lhs'])
                    out.add((rid, kn, H2))
                if kd:
                    spell[k] = canon(e['lhs'])
                    rid_ = (e['loc'], k)          # one helper inlined twice acquires two resources at one source location
                    out = {x for x in out if x[0] != rid_}
                    out.add((rid_, kd, frozenset([k])))
                return frozenset(out)
            if e['ev'] == 'call' and e.get('args'):
                k = keyof(e['args'][0])
                if k is not None:
                    return frozenset(x for x in S if not (k in x[2] and is_call(e, RELEASE[x[1]])))
            return S

        def edge(blk, si, atoms, S):
            for (op, a, b, l, r) in atoms:
                if op == 'const' or not isinstance(l, dict):
                    continue
                if (op == '==' and b in ('0', '-1')) or (op == '<' and b == '0'):
                    ks = {keyof(l)} | {('var', n) for n in names_of(l)}
                    S = frozenset(x for x in S if not (x[2] & ks))
            return S
        rets = h18.path_states(gi, frozenset(), tr, edge)
        fails = {}
        for (e, S, rc) in rets:
            if e is not None and is_fail(rc):
                fails.setdefault(e['loc'], (e, set()))[1].update(
                    '/'.join(sorted(spell.get(h, str(h)) for h in x[2])) or 'the %s acquired at %s (no reference left)' % (x[1], x[0][0]) for x in S)
        if not fails:
            raise AnalysisBroken('%s: no failing return found' % fi.name)
        for loc, (e, heldset) in sorted(fails.items()):
            ctx.ob('R-C18a.method', '%s:failure return releases' % fi.name, not heldset, loc=loc,
                   detail='still held at this failing return: %s' % (sorted(heldset) or 'nothing'), fn=fi.q)


# --------------------------------------------------------------------------
# R-C18a.module
# --------------------------------------------------------------------------

def _state_exprs(g, partners):
    """spellings of the state block pointer in a tear-down: variables typed `struct iv_state *` and whatever
    is handed to the module de-initialisers as their state argument"""
    out = {x['name'] for e in g.events() for x in walk(e)
           if x.get('k') == 'var' and x.get('vk') in ('local', 'param') and x.get('record') == 'iv_state' and x.get('ptr')}
    for e in g.events():
        if e['ev'] == 'call' and e.get('callee') in partners and e.get('args'):
            out.add(canon(e['args'][0]))
    return out


def _must_unless_no_state(g, pred, sv, kill=None):
    """{point: every path to it executed pred (and no kill since) or crossed an edge on which the state pointer is NULL
    (nothing to tear down)}"""
    def tr(e, s):
        if kill and kill(e):
            return False
        return True if pred(e) else s

    def edge(blk, si, s):
        if s is not True and blk.term and blk.term.get('cond') is not None and len(blk.succ) == 2:
            for (op, a, b, _, _) in norm_cond(blk.term['cond'], si == 0):
                if op == '==' and b == '0' and a in sv:
                    return True
        return s
    _, ev_in = forward(g, False, tr, lambda a, b: a and b, edge=edge)
    return ev_in


def _table_callees(V, e, env=None, whole=False):
    """names of the functions an indirect call through a const table of function pointers can enter (`T[i](...)`, the
    index anywhere in its range at the call, or as the path being followed has it), or None.  `whole`: when the index
    cannot be bounded, every entry of the table (an upper bound of what can be entered, for callers that want one)"""
    fx = e.get('fnexpr')
    if not isinstance(fx, dict):
        return None
    x = strip_load(fx)
    if isinstance(x, dict) and x.get('k') == 'deref':
        x = x['e']
    vals = V.table_values(x, (e['_b'], e['_i']), env=env)
    if not vals and whole:
        x0 = strip(strip_load(x))
        if isinstance(x0, dict) and x0.get('k') == 'index':
            init = V._const_global(strip(strip_load(x0['base'])))
            if isinstance(init, dict) and isinstance(init.get('elems'), list):
                vals = list(init['elems'])
    if not vals:
        return None
    out = []
    for v in vals:
        v0 = strip(v)
        if isinstance(v0, dict) and v0.get('k') == 'addr':
            v0 = strip(v0['e'])
        if not (isinstance(v0, dict) and v0.get('k') == 'var' and v0.get('vk') == 'func'):
            return None
        out.append(v0['name'])
    return out


def _partners_run(prog, gT, partners, sv):
    """[set of the module de-initialisers run] per class of paths through the tear-down gT (h18.path_must).  A call
    through a const table of function pointers counts for the entry selected on the path being followed (a loop over
    the table is followed iteration by iteration).  'NOSTATE': the path crossed an edge on which the state pointer is
    NULL (nothing to tear down)."""
    V = view_of(prog, gT)
    tidx = set()
    for e in gT.events():
        for x in walk(e):
            if x.get('k') == 'index' and V._const_global(strip_load(x['base'])) is not None:
                tidx |= {y['name'] for y in walk(x['idx']) if y.get('k') == 'var' and y.get('vk') in ('local', 'param')}
    # plain counting locals (every definition a literal, a copy of such a local, or a step): a walk over a small table
    # that is bounded by a count-down / count-up is followed iteration by iteration
    cnt = None
    while cnt is None or grew:
        cnt = cnt if cnt is not None else set(tidx)
        grew = False
        for n, ds in V.defs.items():
            if n in cnt or n in V.escaped or n in V.root_params:
                continue
            lv = strip(ds[0]['lhs'])
            if lv.get('k') != 'var' or '*' in str(lv.get('type', '')):
                continue
            if all(d.get('op') in ('++', '--') or (d.get('op') == '=' and 'rhs' in d and isinstance(strip(d['rhs']), dict)
                   and (strip(d['rhs']).get('k') == 'int' or var_name(d['rhs']) in cnt)) for d in ds) \
                    and any(d.get('op') in ('++', '--') for d in ds):
                cnt.add(n)
                grew = True
    tidx = cnt

    def tr(e, fact, env):
        if e['ev'] != 'call':
            return fact
        if e.get('callee') in partners:
            return fact | {e['callee']}
        if 'fnexpr' in e:
            ns = _table_callees(V, e, env)
            if ns and len(set(ns)) == 1 and ns[0] in partners:
                return fact | {ns[0]}
        return fact

    def edge(blk, si, atoms, fact, env):
        for a in atoms:
            if a[0] == '==' and a[2] == '0' and a[1] in sv:
                return fact | {'NOSTATE'} | frozenset(partners)      # nothing to tear down on this path: all obligations met
        return fact
    return [fact for (e, fact, cls) in h18.path_must(gT, frozenset(), tr, lambda a, b: a & b, edge, extra=tidx, with_env=True)]


def module_pairs(ctx, prog):
    """Anchors: the public iv_init / iv_deinit, and the function(s) iv_init hands to pthr_key_create (the
    thread-exit tear-down).  Static glue between them (a shared tear-down helper, a key-allocation helper,
    the tear-down body duplicated in both) is inlined away."""
    fi = prog.fn('iv_init')
    partners = {p for (p, _) in MODULE_PAIRS.values() if p}
    stop = lambda t: t.name in partners or t.name in MODULE_PAIRS
    gi = Inliner(prog, stop=stop).inline(fi)
    # spellings of the freshly allocated state block: the variable the allocation is assigned to and every local it is
    # copied to afterwards (an allocation helper's result variable, its return temporary, the caller's variable)
    state = set()
    changed = True
    while changed:
        changed = False
        for e in gi.events():
            if e['ev'] != 'store' or e.get('op') != '=' or 'rhs' not in e or strip(e['lhs']).get('k') != 'var':
                continue
            n = var_name(e['lhs'])
            if not n or n in state:
                continue
            if any(c.get('callee') in ('calloc', 'malloc') for c in walk(e['rhs']) if c.get('k') == 'call') \
                    or var_name(e['rhs']) in state:
                state.add(n)
                changed = True
    if not state:
        raise AnalysisBroken('iv_init: allocation of the state block not found')
    # thread tear-down roots
    reg = [e for e in gi.events() if e['ev'] == 'call' and is_call(e, 'pthr_key_create')]
    dtors = []
    for e in reg:
        a = strip(e['args'][1]) if len(e['args']) > 1 else None
        if isinstance(a, dict) and a.get('k') == 'addr':
            a = strip(a['e'])
        t = None
        if isinstance(a, dict) and a.get('k') == 'var' and a.get('vk') == 'func':
            t = prog.resolve(prog.unit_of(fi), a['name'])
        ctx.ob('R-C18a.module', 'iv_init:destructor-registered', t is not None, loc=e['loc'],
               detail='the TLS key is created with a thread-exit destructor (%s)' % (t.name if t else canon(e['args'][1]) if len(e['args']) > 1 else '?'), fn=fi.q)
        if t is not None and t not in dtors:
            dtors.append(t)
    if not reg:
        ctx.ob('R-C18a.module', 'iv_init:destructor-registered', False, loc=fi.loc, detail='iv_init never creates the TLS key', fn=fi.q)
    teardowns = [('iv_deinit', prog.fn('iv_deinit'))] + [('thread-exit destructor', t) for t in dtors]
    # module initialisers: library functions with external linkage that iv_init hands the fresh state block to, called by
    # name or through a const table of function pointers (every entry the index can select)
    inits = []
    gi = h18.index_walks(prog, gi)
    Vi = view_of(prog, gi)
    for e in gi.events():
        if e['ev'] != 'call' or not e['args'] or var_name(e['args'][0]) not in state:
            continue
        names = [e['callee']] if 'callee' in e else (_table_callees(Vi, e, whole=True) or [])
        for nm in names:
            t = prog.resolve(prog.unit_of(fi), nm)
            if t is None or not t.blocks or t.static:
                continue
            if nm not in [n_ for (_, n_) in inits]:
                inits.append((e, nm))
    if not inits:
        raise AnalysisBroken('iv_init: no per-thread module initialiser found')
    views = [(role, T, h18.index_walks(prog, Inliner(prog, stop=stop).inline(T))) for (role, T) in teardowns]
    ran = {role: _partners_run(prog, gT, partners, _state_exprs(gT, partners)) for (role, T, gT) in views}
    for (e, nm) in inits:
        if nm not in MODULE_PAIRS:
            ctx.ob('R-C18a.module', 'iv_init:%s' % nm, False, loc=e['loc'],
                   detail='module initialiser without an entry in the init/deinit table (does it acquire per-thread resources?)', fn=fi.q)
            continue
        partner, reason = MODULE_PAIRS[nm]
        if partner is None:
            ctx.exempt('R-C18a.module', nm, reason)
            ctx.ob('R-C18a.module', 'iv_init:%s' % nm, True, loc=e['loc'], detail='no tear-down needed: ' + reason, fn=fi.q)
            continue
        for (role, T, gT) in views:
            ctx.ob('R-C18a.module', '%s:%s' % (role, nm), bool(ran[role]) and all(partner in fact or 'NOSTATE' in fact for fact in ran[role]),
                   loc=e['loc'], detail='%s is run by %s on every path' % (partner, role), fn=T.q)
    for (role, T, gT) in views:
        sv = _state_exprs(gT, partners)
        frees = [e for e in gT.events() if e['ev'] == 'call' and is_call(e, 'free') and e['args'] and canon(e['args'][0]) in sv]
        mp = _must_unless_no_state(gT, lambda x: any(x is fr for fr in frees), sv)
        used_after = []
        for fr in frees:
            after = must_pass(gT, lambda x: False, start_event=fr)
            for x in gT.events():
                if x is fr or (x['_b'], x['_i']) not in after or x['ev'] not in ('call', 'enter', 'store', 'load'):
                    continue
                if any(y.get('k') == 'var' and y.get('vk') != 'func' and y['name'] in sv for y in walk({k: v for k, v in x.items() if k in ('args', 'e', 'lhs', 'rhs', 'fnexpr')})):
                    used_after.append(x)
        ok = bool(frees) and bool(mp.get((gT.exit, 0))) and not used_after
        ctx.ob('R-C18a.module', '%s:state-block-freed-last' % role, ok, loc=(frees[0]['loc'] if frees else T.loc),
               detail='the state block is freed on every path and not used afterwards'
                      + (' (used at %s)' % used_after[0].get('loc') if used_after else ''), fn=T.q)
        def clears(x):
            return x['ev'] == 'call' and is_call(x, 'pthr_setspecific') and len(x['args']) > 1 and canon(x['args'][1]) in ('NULL', '0')
        def sets(x):
            return x['ev'] == 'call' and is_call(x, 'pthr_setspecific') and not clears(x)
        mp = must_pass(gT, clears, kill=sets)
        ctx.ob('R-C18a.module', '%s:slot-cleared-before-free' % role, bool(frees) and all(mp.get((fr['_b'], fr['_i'])) for fr in frees),
               loc=(frees[0]['loc'] if frees else T.loc), detail='the TLS slot is cleared before the state block is freed', fn=T.q)


# --------------------------------------------------------------------------
# R-C18a.refcnt
# --------------------------------------------------------------------------

def refcount(ctx, prog):
    tables = prog.method_tables()
    seen = set()
    for t, slots in sorted(tables.items()):
        on, off = slots.get('event_rx_on'), slots.get('event_rx_off')
        if not on or not off:
            continue
        fon, foff = prog.resolve(*on), prog.resolve(*off)
        if fon.q in seen:
            continue
        seen.add(fon.q)
        inl = Inliner(prog)
        gon, goff = inl.inline(fon), inl.inline(foff)
        # the shared count: the file-scope integer (a variable of its own or a member of a file-scope struct) that both
        # slots step by one
        def ckey(lhs):
            r = lvalue_root(lhs)
            if r is None or r.get('vk') not in ('global', 'staticlocal'):
                return None
            steps = lvalue_steps(lhs)
            if not steps:
                return ('global', r['name']) if strip(lhs).get('k') == 'var' else None
            return steps[0] if len(steps) == 1 else None

        def stepped(g):
            out = set()
            for e in g.events():
                if e['ev'] == 'store' and e['op'] in ('++', '--', '+=', '-='):
                    k = ckey(e['lhs'])
                    if k is not None:
                        out.add(k)
            return out
        ctrs = stepped(gon) & stepped(goff)
        if len(ctrs) != 1:
            raise AnalysisBroken('%s/%s: shared reference count not identified (%s)' % (fon.name, foff.name, sorted(ctrs)))
        ctr = ctrs.pop()
        cname = ctr[1]
        ron = delta_analysis(gon, [ctr])
        roff = delta_analysis(goff, [ctr])
        fails = [(e, d) for (e, d, rc, p) in ron.rets if is_fail(rc)]
        succ = {d for (e, d, rc, p) in ron.rets if not is_fail(rc)}
        offd = {d for (e, d, rc, p) in roff.rets} | {d for (d, _, _) in roff.exit_states}
        bad = [(e, d) for (e, d) in fails if any(d)]
        e0 = bad[0][0] if bad else (fails[0][0] if fails else None)
        ctx.ob('R-C18a.refcnt', '%s:failure-return' % fon.name, not bad, loc=e0['loc'] if e0 else fon.loc,
               detail='net reference count change on the failing return: %s' % sorted({d[0] for e, d in fails}),
               path=path_to(gon, e0) if bad else None, fn=fon.q)
        ctx.ob('R-C18a.refcnt', '%s/%s:balance' % (fon.name, foff.name), succ == {(1,)} and offd == {(-1,)}, loc=foff.loc,
               detail='enable %s, disable %s' % (sorted(succ), sorted(offd)), fn=foff.q)
        # every change of the count is made under one common lock
        sites = []
        for g in (gon, goff):
            ls = locksets(g)
            for e in g.events():
                if e['ev'] == 'store' and ckey(e['lhs']) == ctr:
                    sites.append((g, e, held(ls.get((e['_b'], e['_i'])))))
        cnt = {}
        for (_, _, hs) in sites:
            for l in hs:
                cnt[l] = cnt.get(l, 0) + 1
        lock = max(sorted(cnt), key=lambda l: cnt[l]) if cnt else None
        byloc = {}
        for (g, e, hs) in sites:
            k = (g.name, e['loc'])
            byloc[k] = byloc.get(k, True) and (lock is not None and lock in hs)
        for (gn, loc), ok in sorted(byloc.items()):
            ctx.ob('R-C18a.refcnt', '%s:count-under-mutex' % gn, ok, loc=loc,
                   detail='reference count changed with the common lock (%s) held' % lock, fn=gn)


# --------------------------------------------------------------------------
# R-C18b / R-C18c : subscripts
# --------------------------------------------------------------------------

def slot_counter(prog):
    """(record, field) of the slot counter of the poll arrays, by role: the integer field of the method state whose
    value becomes a descriptor's slot index (`fd->u.index = counter++`, `slot = counter; counter = slot + 1;
    fd->u.index = slot`, possibly through locals) and which the library itself steps."""
    if getattr(prog, '_c18_slotctr', None) is not None:
        return prog._c18_slotctr
    found = set()
    for f in prog.all_funcs():
        evs = list(f.events())
        stores = [e for e in evs if e['ev'] == 'store' and e.get('op') == '=' and 'rhs' in e and is_fd_index(e['lhs'])]
        if not stores:
            continue
        defs = {}
        for d in evs:
            if d['ev'] == 'store' and d.get('op') == '=' and 'rhs' in d and strip(d['lhs']).get('k') == 'var':
                defs.setdefault(var_name(d['lhs']), []).append(d['rhs'])

        def sources(x, depth=0):
            x = strip(x)
            if not isinstance(x, dict) or depth > 4:
                return
            if x.get('k') == 'incdec':
                yield from sources(x['e'], depth)
            elif x.get('k') == 'member':
                yield x
            elif x.get('k') == 'var' and x.get('vk') in ('local', 'param'):
                for r in defs.get(x['name'], []):
                    yield from sources(r, depth + 1)
        for e in stores:
            for m in sources(e['rhs']):
                lm = last_member(m)
                if lm and not is_fd_index(m) and lm[0] != 'iv_fd_' and (m.get('type') or 'int').replace('const ', '').strip() in ('int', 'unsigned int', 'unsigned'):
                    found.add(lm)
    # ... and which is stepped by the library (a counter, not a constant of the state)
    found = {lm for lm in found if any(e.get('op') in ('++', '--', '+=', '-=', '=') for (_, e) in prog.writers_of(*lm))}
    if len(found) != 1:
        raise AnalysisBroken('slot counter of the poll arrays not identified (%s)' % sorted(found))
    prog._c18_slotctr = found.pop()
    return prog._c18_slotctr


def _counter_valued(V, x, ctr, seen=(), pt=None):
    """x holds a (past) value of the slot counter (judged by the definitions that reach the point of use)"""
    x = strip(x)
    if last_member(x) == ctr:
        return True
    if V.is_plain_local(x) and x['name'] not in seen:
        ds = V.defs_at(x['name'], pt)
        return bool(ds) and all(d.get('op') == '=' and 'rhs' in d and
                                _counter_valued(V, d['rhs'], ctr, seen + (x['name'],), (d['_b'], d['_i'])) for d in ds)
    return False


def _after_decrement(V, ctr):
    """{point: on every path to it the slot counter was lowered and not raised/overwritten since}"""
    if ctr not in V._after_dec:
        def tr(e, s):
            if e['ev'] == 'store' and last_member(e['lhs']) == ctr:
                if e['op'] == '--' or (e['op'] == '-=' and (_intval(e.get('rhs')) or 0) > 0):
                    return True
                return False
            return s
        _, ev_in = forward(V.g, False, tr, lambda a, b: a and b)
        V._after_dec[ctr] = ev_in
    return V._after_dec[ctr]


def _idx_kinds(V, x, ctr, seen=(), pt=None):
    x = strip(x)
    if not isinstance(x, dict):
        return {'other'}
    if is_fd_index(x):
        return {'fdindex'}
    if x.get('k') == 'incdec' and x['op'] == '++' and not x.get('prefix') and last_member(x['e']) == ctr:
        return {'from++'}
    if last_member(x) == ctr:
        return {'counter'}
    if V.is_plain_local(x) and x['name'] not in seen:
        ds = V.defs_at(x['name'], pt)
        if not ds:
            return {'other'}
        out = set()
        for d in ds:
            if d.get('op') != '=' or 'rhs' not in d:
                return {'other'}
            out |= _idx_kinds(V, d['rhs'], ctr, seen + (x['name'],), (d['_b'], d['_i']))
        return out
    return {'other'}


def _upper_terms(V, idx, pt):
    names = V.spellings(idx)
    out = []
    for a in V.atoms(pt):
        if a[0] == '<' and a[1] in names:
            out.append(a[2])
        elif a[0] == '>' and a[2] in names:
            out.append(a[1])
    return [(u, V.expr_named(u)) for u in out if V.expr_named(u) is not None]


# kernel calls that fill an array and return how many elements they filled: name -> (array argument, capacity argument)
KERNEL_FILL = {'epoll_wait': (1, 2), 'epoll_pwait': (1, 2), 'epoll_pwait2': (1, 2)}


def _kernel_count(V, u, arr, seen=(), pt=None):
    """u is (a copy of) the result of a kernel call that filled the array `arr`, or a non-positive constant"""
    x = strip(u)
    if not isinstance(x, dict):
        return False
    if x.get('k') == 'int':
        return x['v'] <= 0
    if x.get('k') == 'un' and x['op'] == '-' and _intval(x['e']) is not None:
        return True
    if x.get('k') == 'call':
        spec = KERNEL_FILL.get(x.get('callee'))
        return bool(spec) and len(x['args']) > spec[0] and arr is not None and V.array_id(x['args'][spec[0]]) == arr
    if V.is_plain_local(x) and x['name'] not in seen:
        ds = V.defs_at(x['name'], pt)
        return bool(ds) and all(d.get('op') == '=' and 'rhs' in d and
                                _kernel_count(V, d['rhs'], arr, seen + (x['name'],), (d['_b'], d['_i'])) for d in ds)
    return False


def _ptr_type(x):
    t = str((x or {}).get('type') or '').replace('const ', '').replace('volatile ', '').strip()
    return t if t.endswith('*') else None


def _ptr_walk(V, idx, pt):
    """idx is the element distance `p - b` of a walking pointer from a base: every definition of the plain local p that
    reaches the point either sets it to the value of b or steps it upwards (so p - b >= 0), b is not changed, both have
    one pointer type (the distance counts elements), and an atom `p < E` holds with E = b + n.  Yields (n, point at which
    n was read): the index lies in [0, n)."""
    x = strip(strip_load(idx) if isinstance(idx, dict) else idx)
    if not (isinstance(x, dict) and x.get('k') == 'bin' and x.get('op') == '-'):
        return []
    p_, b_ = strip(strip_load(x['l'])), strip(strip_load(x['r']))
    if not (isinstance(p_, dict) and isinstance(b_, dict) and V.is_plain_local(p_)):
        return []
    if _ptr_type(p_) is None or _ptr_type(p_) != _ptr_type(b_ if b_.get('k') == 'var' else {'type': b_.get('type')}):
        return []
    ds = V.defs_at(p_['name'], pt)
    sets = 0
    for d in ds:
        op = d.get('op')
        if op == '=' and 'rhs' in d and _same_unchanged_value(V, d['rhs'], b_):
            sets += 1
        elif op == '++':
            pass
        elif op == '+=' and 'rhs' in d and V.range(d['rhs'], (d['_b'], d['_i']))[0] >= 0:
            pass
        else:
            return []
    if not sets:
        return []
    out = []
    for (u, ue) in _upper_terms(V, p_, pt):
        upt = pt
        y = strip(strip_load(ue))
        if isinstance(y, dict) and y.get('k') == 'var':
            d = V.sole_def(y)
            if d is None:
                continue
            y, upt = strip(strip_load(d['rhs'])), (d['_b'], d['_i'])
        if isinstance(y, dict) and y.get('k') == 'bin' and y.get('op') == '+':
            for (bb, nn) in ((y['l'], y['r']), (y['r'], y['l'])):
                b0 = strip(strip_load(bb))
                at_base = isinstance(b0, dict) and b0.get('k') == 'var' and b0.get('name') == p_['name'] and \
                    all(d.get('op') == '=' and 'rhs' in d and _same_unchanged_value(V, d['rhs'], b_) for d in V.defs_at(p_['name'], upt)) \
                    and bool(V.defs_at(p_['name'], upt))            # `stop = p + n` taken while p still stands at the base
                if (at_base or _same_unchanged_value(V, bb, b_)) and _ptr_type({'type': y.get('type')}) in (None, _ptr_type(p_)):
                    out.append((nn, upt, u))
    return out


def _fmt(v):
    return '-inf' if v == -INF else 'inf' if v == INF else str(int(v))


def _stride(V, x, depth=0):
    """m >= 1 such that every value of the integer expression x is a multiple of m (constant factors, shifts, sums;
    single-definition locals followed)"""
    x = strip(strip_load(strip(x))) if isinstance(x, dict) else x
    if not isinstance(x, dict) or depth > 6:
        return 1
    if x.get('k') == 'int':
        return abs(x['v']) if x['v'] else 0
    if x.get('k') == 'cast' and '*' not in str(x.get('to', '')):
        return 1      # a conversion may wrap
    if x.get('k') == 'var':
        d = V.sole_def(x)
        return _stride(V, d['rhs'], depth + 1) if d is not None else 1
    if x.get('k') == 'bin':
        a, b = _stride(V, x['l'], depth + 1), _stride(V, x['r'], depth + 1)
        if x['op'] == '*':
            return a * b
        if x['op'] in ('+', '-'):
            import math
            return math.gcd(a, b) or 0
        if x['op'] == '<<' and _intval(x['r']) is not None and 0 <= _intval(x['r']) < 31:
            return a << _intval(x['r'])
    return 1


def _offset_range(V, j, pt):
    """range of the element offset j; `E & (2^n - 1)` with E a multiple of 2^s (s < n) is a multiple of 2^s as well,
    so it is at most 2^n - 2^s"""
    lo, hi = V.range(j, pt)
    x = strip(strip_load(strip(j))) if isinstance(j, dict) else j
    if isinstance(x, dict) and x.get('k') == 'bin' and x['op'] == '&':
        for (m_, o_) in ((x['l'], x['r']), (x['r'], x['l'])):
            c = V.range(m_, pt)
            if c[0] == c[1] and c[0] > 0 and (c[0] & (c[0] + 1)) == 0:
                st = _stride(V, o_)
                if st == 0:
                    return (0, 0)
                low = st & -st           # the power of two dividing every value
                if 1 < low <= c[0]:
                    hi = min(hi, c[0] + 1 - low)
    return lo, hi


def _interior_pointer(V, base):
    """(constant bound of A, range of j, text of j) when the pointer value `base` is `&A[j]` / `A + j`, followed through
    single-definition locals, helper results and pointer casts; None otherwise"""
    x = base
    pt = None
    for _ in range(8):
        x = strip(strip_load(strip(x))) if isinstance(x, dict) else x
        if not isinstance(x, dict):
            return None
        if x.get('k') == 'cast':
            x = x['e']
            continue
        if x.get('k') == 'var':
            d = V.sole_def(x)
            if d is None:
                return None
            pt = (d['_b'], d['_i'])
            x = d['rhs']
            continue
        break
    if pt is None or not isinstance(x, dict):
        return None
    arr = j = None
    if x.get('k') == 'addr':
        t = strip(x['e'])
        if isinstance(t, dict) and t.get('k') == 'index':
            arr, j = t['base'], t['idx']
            b = t.get('bound')
    elif x.get('k') == 'bin' and x.get('op') == '+':
        arr, j = x['l'], x['r']
        b = None
    if arr is None:
        return None
    if b is None:
        cap = V.capacity(arr)
        b = cap[0] if cap is not None else None
    if b is None:
        return None
    return (b, _offset_range(V, j, pt), canon(j))


def prove_subscript(prog, V, site):
    e, ix = site
    pt = (e['_b'], e['_i'])
    idx = ix['idx']
    ic = canon(idx)
    A = V.atoms(pt)
    names = V.spellings(idx)
    facts = sorted('%s %s %s' % (a[1], a[0], a[2]) for a in A if a[1] in names or a[2] in names)
    bound = ix.get('bound')
    if bound is None:
        # the array is reached through a pointer that holds its address (`int *p = obj->arr; p[i]`)
        cap = V.capacity(ix['base'])
        if cap is not None and cap[0] is not None:
            bound = cap[0]
    lo, hi = V.range(idx, pt)
    if bound is None:
        # the base is a pointer *into* an array of constant bound (`p = &A[j]`, `A + j`, handed back by a helper): the
        # element accessed is A[j + index]
        ip = _interior_pointer(V, ix['base'])
        if ip is not None:
            ibound, (jlo, jhi), jtxt = ip
            if jlo + lo >= 0 and jhi + hi < ibound:
                return ('the base points at element %s (in [%s, %s]) of an array of constant bound %d and the index lies in [%s, %s]: '
                        'the element accessed is inside that array' % (jtxt, _fmt(jlo), _fmt(jhi), ibound, _fmt(lo), _fmt(hi)), '')
            return (None, 'the base points at element %s (in [%s, %s]) of an array of bound %d, index `%s` ranges over [%s, %s]; facts here: %s'
                    % (jtxt, _fmt(jlo), _fmt(jhi), ibound, ic, _fmt(lo), _fmt(hi), facts or 'none'))
    if bound is not None:
        if lo >= 0 and hi < bound:
            return ('value range of the index [%s, %s] lies inside the constant bound %d' % (_fmt(lo), _fmt(hi), bound), '')
        for (n_, npt, u) in _ptr_walk(V, idx, pt):
            if V.range(n_, npt)[1] <= bound:
                return ('element distance of a pointer walking upwards from the base and below %s = base + %s, with %s <= %d'
                        % (u, canon(n_), canon(n_), bound), '')
        return (None, 'index `%s` ranges over [%s, %s], array bound is %d; facts here: %s' % (ic, _fmt(lo), _fmt(hi), bound, facts or 'none'))
    arr = V.array_id(ix['base'])
    ctr = slot_counter(prog)
    if arr and arr[0] == 'field' and isinstance(arr[-1], tuple) and arr[-1][0] == ctr[0] and arr[-1][1] != ctr[1]:
        kinds = _idx_kinds(V, idx, ctr, (), pt)
        tag = 'INDEX-GUARD: ' if 'fdindex' in kinds else ''
        # relational proof: the index equals "counter at entry + k" on every path, and the slot counter itself held both a
        # value <= that and a value > that during this activation; the counter always lies in [0, capacity]
        offs, oval = _slot_offsets(prog, V, ctr)
        S = offs.get(pt, {})
        o = oval(idx, S)
        if o is not None and 'MAX' in S and 'MIN' in S and S['MIN'] <= o < S['MAX']:
            return (tag + 'the index is (slot counter at entry)%+d and the slot counter itself held the values entry%+d and entry%+d '
                    'during this activation, so the index is below a value of the counter and not below another; ' % (o, S['MIN'], S['MAX'])
                    + SLOT_ASSUMPTION, '')
        if 'other' not in kinds:
            fresh = any(a[0] == 'from++' and a[1] in names and a[2] in _counter_spellings(V, ctr) for a in A)
            if fresh:
                return (tag + 'the index is the value the slot counter had before its increment (the new slot); ' + SLOT_ASSUMPTION, '')
            ok = True
            why = []
            if 'fdindex' in kinds:
                g_ok = any(atoms_imply(A, '!=', n, '-1') or atoms_imply(A, '>=', n, '0') or atoms_imply(A, '>', n, '-1') for n in names)
                ok = ok and g_ok
                why.append('a descriptor\'s slot index with index != -1 established on every path' if g_ok else 'no fact implies index != -1')
            if 'counter' in kinds:
                ad = _after_decrement(V, ctr)
                x = strip(idx)
                if last_member(x) == ctr:
                    c_ok = bool(ad.get(pt))
                else:
                    ds = V.defs_at(var_name(x) or '', pt)
                    c_ok = bool(ds) and all(ad.get((d['_b'], d['_i'])) for d in ds if last_member(d.get('rhs')) == ctr)
                ok = ok and c_ok
                why.append('the slot counter after it was lowered (the last occupied slot); ' + SLOT_ASSUMPTION if c_ok
                           else 'the slot counter is used as an index without having been lowered first')
            if ok:
                return (tag + '; '.join(why), '')
            return (None, tag + '; '.join(why) + '; facts holding here: %s' % (facts or 'none about the index'))
        for (u, ue) in _upper_terms(V, idx, pt):
            if lo >= 0 and _counter_valued(V, ue, ctr, (), pt):
                return ('loop index in [0, %s) with %s the number of occupied slots' % (u, u), '')
        for (n_, npt, u) in _ptr_walk(V, idx, pt):
            if _counter_valued(V, n_, ctr, (), npt):
                return ('element distance of a pointer that walks upwards from the base and is below %s = base + %s, %s the number of '
                        'occupied slots: the index lies in [0, %s)' % (u, canon(n_), canon(n_), canon(n_)), '')
        return (None, 'index `%s` of a slot array is neither a guarded slot index, nor the slot counter, nor a loop index below it; facts here: %s'
                % (ic, facts or 'none'))
    for (u, ue) in _upper_terms(V, idx, pt):
        if lo >= 0 and _kernel_count(V, ue, arr, (), pt):
            return ('loop index in [0, %s) with %s the count the kernel returned for this very array' % (u, u), '')
    for (n_, npt, u) in _ptr_walk(V, idx, pt):
        if _kernel_count(V, n_, arr, (), npt):
            return ('element distance of a pointer walking upwards from the base and below %s = base + %s, the count the kernel '
                    'returned for this very array' % (u, canon(n_)), '')
    return (None, 'no constant bound, occupied-slot count or kernel-returned count bounds index `%s` (range [%s, %s]); facts here: %s'
            % (ic, _fmt(lo), _fmt(hi), facts or 'none'))


def _slot_offsets(prog, V, ctr):
    c = V.__dict__.get('_slot_offs')
    if c is None:
        c = V._slot_offs = h18.counter_offsets(
            V, lambda l: strip(l).get('k') == 'member' and last_member(l) == ctr, h18.transitive_writers(prog, ctr[0], ctr[1]))
    return c


def _counter_spellings(V, ctr):
    c = V.__dict__.get('_ctr_sp')
    if c is None:
        c = set()
        for e in V.g.events():
            for x in walk(e):
                if x.get('k') == 'member' and (x.get('record'), x['field']) == ctr:
                    c.add(canon(x))
        V._ctr_sp = c
    return c


def element_addresses(e):
    """index nodes of `&A[i]` computations an event makes (stored or passed on): the element is accessed
    through the resulting pointer, so forming it carries the same bound obligation"""
    srcs = []
    if e['ev'] == 'store' and 'rhs' in e:
        srcs.append(e['rhs'])
    elif e['ev'] in ('call', 'enter'):
        srcs += list(e.get('args', []))
    elif e['ev'] == 'ret' and 'value' in e:
        srcs.append(e['value'])
    out = []
    for s_ in srcs:
        for x in walk(s_):
            if x.get('k') == 'addr' and not _has_was(x):
                t = strip_load(x['e']) if isinstance(x.get('e'), dict) else None
                while isinstance(t, dict) and t.get('k') == 'member' and not t['arrow']:
                    t = strip_load(t['base'])
                if isinstance(t, dict) and t.get('k') == 'index' and not _has_was(t):
                    out.append(t)
    return out


def _collect_subscripts(V, events, context=False):
    """{(location, kind, position): [(event, index node)]}.  Subscripts whose index is a literal in the source are the
    compiler's business; in a calling context (context=True) a parameter may have been replaced by the caller's
    constant, and that copy of the site is kept and checked against the bound like any other."""
    out = {}
    for e in events:
        if e['ev'] in ('load', 'store'):
            for pos, ix in enumerate(subscripts(e)):
                if strip(ix['idx']).get('k') == 'int' and not context:
                    continue
                out.setdefault((e['loc'], e['ev'], pos), []).append((e, ix))
        if e['ev'] in ('store', 'call', 'enter', 'ret'):
            for pos, ix in enumerate(element_addresses(e)):
                if strip(ix['idx']).get('k') == 'int' and not context:
                    continue
                out.setdefault((e['loc'], '&' + e['ev'].replace('enter', 'call'), pos), []).append((e, ix))
    return out


def array_bounds(ctx):
    prog = ctx.prog
    n = 0
    for f in sorted(prog.all_funcs(), key=lambda f: f.q):
        if not f.blocks or not _collect_subscripts(None, f.events()):
            continue
        res = h18.site_verdict(prog, f, _collect_subscripts, lambda V, s: prove_subscript(prog, V, s))
        for key in sorted(res):
            (e, ix), proof, detail, kind = res[key]
            n += 1
            inst = '%s:%s' % (f.name, canon(ix))
            text = proof or detail
            if text.startswith('INDEX-GUARD: '):
                ctx.ob('R-C18b', inst, proof is not None, loc=e['loc'], detail=text[len('INDEX-GUARD: '):],
                       path=None if proof else path_to(f, e), fn=f.q)
            if proof and SLOT_ASSUMPTION in proof:
                ctx.exempt('R-C18c', inst, SLOT_ASSUMPTION)
            ctx.ob('R-C18c', inst, proof is not None, loc=e['loc'], detail='%s [%s]' % (text, kind),
                   path=None if proof else path_to(f, e), fn=f.q)
    if n < 12:
        raise AnalysisBroken('variable-index subscripts: %d found, 20 confirmed' % n)


# --------------------------------------------------------------------------
# R-C18c.k : kernel / libc writes
# --------------------------------------------------------------------------

# name -> (destination argument, length argument, unit of the length)
WRITERS = {'read': (1, 2, 'bytes'), 'recv': (1, 2, 'bytes'), 'snprintf': (0, 1, 'bytes'), 'vsnprintf': (0, 1, 'bytes'),
           'epoll_wait': (1, 2, 'elems'), 'epoll_pwait': (1, 2, 'elems'), 'epoll_pwait2': (1, 2, 'elems'),
           'poll': (0, 1, 'elems'), 'ppoll': (0, 1, 'elems')}


def _is_array_size_of(V, ln, dst):
    """ln is sizeof(A) / sizeof(A[0]) for the array variable A that dst designates"""
    x = V.resolve(ln)
    d = V.resolve(dst)
    if not (isinstance(x, dict) and x.get('k') == 'bin' and x['op'] == '/' and isinstance(d, dict) and d.get('k') == 'var'):
        return False
    l, r = strip(x['l']), strip(x['r'])
    la = l.get('arg', {}) if isinstance(l, dict) and l.get('k') == 'sizeof' else {}
    if not ('expr' in la and var_name(la['expr']) == d['name']):
        return False
    rs = r.get('sizeof') if isinstance(r, dict) and r.get('k') == 'int' else (r.get('arg') if isinstance(r, dict) and r.get('k') == 'sizeof' else None)
    if not isinstance(rs, dict) or 'expr' not in rs:
        return False
    el = strip(rs['expr'])
    return isinstance(el, dict) and el.get('k') in ('index', 'deref') and var_name(el.get('base') if el.get('k') == 'index' else el.get('e')) == d['name']


def _same_unchanged_value(V, a, b):
    """a and b denote one value: followed through single-assignment locals (a helper's parameter in a calling context, a
    caching local) they meet in the same single-assignment local, or in the same expression none of whose operands is
    written anywhere in the code in view"""
    def chain(x):
        out = []
        x = strip(strip_load(x) if isinstance(x, dict) else x)
        while isinstance(x, dict) and len(out) < 10:
            out.append(x)
            d = V.sole_def(x)
            if d is None:
                break
            x = strip(strip_load(d['rhs']))
        return out
    ca, cb = chain(a), chain(b)
    for x in ca:
        for y in cb:
            if canon(x) != canon(y):
                continue
            if V.sole_def(x) is not None:
                return True
            if not h18._pure_path(x):
                continue
            keys = h18._mem_keys(x)
            written = [s for s in V.g.events() if s['ev'] == 'store' and
                       (set(lvalue_steps(s['lhs'])) | ({('var', var_name(s['lhs']))} if strip(s['lhs']).get('k') == 'var' else set())
                        | ({('var', h18.plain_lhs(s['lhs'])['name'])} if h18.plain_lhs(s['lhs']) is not None else set())) & keys]
            if not written:
                return True
    return False


def prove_write(prog, V, e):
    nm = e.get('callee')
    pt = (e['_b'], e['_i'])
    if nm == 'sscanf':
        fmt = strip(e['args'][1])
        if fmt.get('k') != 'str':
            return (None, 'format is not a literal')
        convs = re.findall(r'%(\*?)(\d*)(?:hh|h|ll|l|z|j|t|L)?([a-zA-Z\[])', fmt['v'].replace('%%', ''))
        args = list(e['args'][2:])
        widths = []
        for (sup, w, c) in convs:
            if sup:
                continue
            a = args.pop(0) if args else None
            if c in ('s', '['):
                if not w:
                    return (None, 'unbounded string conversion')
                cap = V.capacity(a) if a is not None else None
                if not cap or cap[0] is None:
                    return (None, 'size of the destination of %%%ss is not known here' % w)
                widths.append((int(w), cap[0]))
                if int(w) + 1 > cap[0]:
                    return (None, 'conversion width %s plus terminator exceeds the destination array of %d' % (w, cap[0]))
        return ('string conversion widths %s fit their destination arrays' % [w for w, _ in widths], '')
    dsti, leni, unit = WRITERS[nm]
    if len(e['args']) <= max(dsti, leni):
        return (None, 'unexpected arguments')
    dst, ln = e['args'][dsti], e['args'][leni]
    d = V.resolve(dst)
    if isinstance(d, dict) and d.get('k') == 'bin':
        return ('offset form: bounded transfer is C17 R-C17d', '')
    lo, hi = V.range(ln, pt)
    cap = V.capacity(dst)
    if cap is None:
        arr = V.array_id(dst)
        ctr = slot_counter(prog)
        if unit == 'elems' and arr and arr[0] == 'field' and isinstance(arr[-1], tuple) and arr[-1][0] == ctr[0] and arr[-1][1] != ctr[1] \
                and _counter_valued(V, ln, ctr, (), pt):
            return ('the kernel is told the number of occupied slots of the slot array; ' + SLOT_ASSUMPTION, '')
        return (None, 'size of the destination `%s` is not known here' % canon(dst))
    nel, esz, sym = cap
    if nel is None:
        if unit == 'elems' and _is_array_size_of(V, ln, dst):
            return ('the kernel is given ARRAY_SIZE(%s) as the capacity of %s' % (canon(d), canon(d)), '')
        if unit == 'elems' and sym is not None and _same_unchanged_value(V, ln, sym):
            return ('the capacity given is the very value the array was sized with', '')
        return (None, 'capacity `%s` is not the element count of the variable-length array `%s`' % (canon(ln), canon(d)))
    if unit == 'bytes':
        if esz is None:
            return (None, 'element size of `%s` unknown' % canon(d))
        capv, what = nel * esz, '%d bytes' % (nel * esz)
    else:
        capv, what = nel, '%d elements' % nel
    if hi <= capv and lo >= 0:
        return ('length in [%s, %s] <= %s of %s' % (_fmt(lo), _fmt(hi), what, canon(d)), '')
    if unit == 'elems' and _is_array_size_of(V, ln, dst):
        return ('the kernel is given ARRAY_SIZE(%s)' % canon(d), '')
    return (None, 'length `%s` ranges over [%s, %s], destination %s holds %s' % (canon(ln), _fmt(lo), _fmt(hi), canon(d), what))


def _collect_writes(V, events, context=False):
    out = {}
    for e in events:
        if e['ev'] == 'call' and (e.get('callee') in WRITERS or e.get('callee') == 'sscanf'):
            out.setdefault((e['loc'], e['callee']), []).append(e)
    return out


def kernel_writes(ctx):
    prog = ctx.prog
    n = 0
    for f in sorted(prog.all_funcs(), key=lambda f: f.q):
        if not f.blocks or not any(e['ev'] == 'call' and (e.get('callee') in WRITERS or e.get('callee') == 'sscanf') for e in f.events()):
            continue
        res = h18.site_verdict(prog, f, _collect_writes, lambda V, s: prove_write(prog, V, s))
        for key in sorted(res):
            e, proof, detail, kind = res[key]
            if proof and proof.startswith('offset form'):
                continue          # checked by C17 R-C17d
            n += 1
            nm = e['callee']
            a = e['args'][WRITERS[nm][0]] if nm in WRITERS else None
            ctx.ob('R-C18c.k', '%s:%s%s' % (f.name, nm, '(%s)' % canon(a) if a is not None else ''), proof is not None, loc=e['loc'],
                   detail='%s [%s]' % (proof or detail, kind), fn=f.q)
    if n < 8:
        raise AnalysisBroken('sized kernel/libc writes: %d found' % n)


# --------------------------------------------------------------------------
# R-C18i
# --------------------------------------------------------------------------

def tls_hooks(ctx):
    """R-C18i: a per-thread module area into which library-allocated records are
    linked must have a deinit_thread hook that visits that field."""
    prog = ctx.prog
    malloced = set()
    acq = acquirers(prog)
    for f in prog.all_funcs():
        unit = prog.unit_of(f)
        for e in f.events():
            if e['ev'] == 'store' and 'rhs' in e:
                if prog._c18_kind_of(e['rhs'], unit, {}) == 'mem':
                    r = strip(e['lhs']).get('record')
                    if r:
                        malloced.add(r)
    users = {}
    for key, g in prog.globals.items():
        if g.get('record') == 'iv_tls_user' and not g.get('ptr') and g.get('init', {}).get('k') == 'init':
            flds = g['init'].get('fields', {})
            users[g['name']] = {k: (canon(v) if v is not None else None) for k, v in flds.items()}
            users[g['name']]['_loc'] = g['loc']
            users[g['name']]['_unit'] = g.get('unit')
            sz = flds.get('sizeof_state')
            users[g['name']]['_area'] = (sz.get('sizeof') or {}).get('record') if isinstance(sz, dict) else None
    if len(users) < 5:
        raise AnalysisBroken('iv_tls_user instances: %d found, 5 confirmed' % len(users))

    def hook(u, name):
        h = u.get(name)
        if h and h not in ('NULL', '0', '?'):
            return prog.resolve(u['_unit'], h) or (prog.fn(h) if prog.has_fn(h) else None)
        return None
    for name, u in sorted(users.items()):
        # area record: what sizeof_state measures; else the record the hooks convert their argument to
        area = u['_area']
        if area is None:
            for hn in ('init_thread', 'deinit_thread'):
                fh = hook(u, hn)
                if fh is None or not fh.params:
                    continue
                p0 = fh.params[0]['name']
                for e in fh.events():
                    if e['ev'] == 'store' and 'rhs' in e and var_name(e['rhs']) == p0 and strip(e['lhs']).get('record'):
                        area = strip(e['lhs'])['record']
        linked = []
        if area:
            for f in prog.all_funcs():
                for e in f.events():
                    if e['ev'] == 'call' and is_call(e, ('iv_list_add', 'iv_list_add_tail')) and len(e['args']) == 2:
                        a0 = strip(e['args'][0])
                        a1 = strip(e['args'][1])
                        lm1 = last_member(a1['e']) if isinstance(a1, dict) and a1.get('k') == 'addr' else None
                        lm0 = last_member(a0['e']) if isinstance(a0, dict) and a0.get('k') == 'addr' else None
                        if lm1 and lm1[0] == area and lm0 and lm0[0] in malloced:
                            linked.append((lm1[1], lm0[0], f, e))
                    elif e['ev'] == 'store' and e.get('op') == '=' and 'rhs' in e:
                        # open-coded insertion: X->list.next/prev = &area->fld
                        r = strip(e['rhs'])
                        lm1 = last_member(r['e']) if isinstance(r, dict) and r.get('k') == 'addr' else None
                        if lm1 and lm1[0] == area and last_member(e['lhs']) in (('iv_list_head', 'next'), ('iv_list_head', 'prev')):
                            own = [st_ for st_ in lvalue_steps(e['lhs']) if st_[0] in malloced]
                            if own:
                                linked.append((lm1[1], own[-1][0], f, e))
        fde = hook(u, 'deinit_thread')
        if not linked:
            ctx.ob('R-C18i', '%s:no-owned-memory' % name, True, loc=u['_loc'],
                   detail='no library-allocated record is linked into this module\'s per-thread area (%s)' % (area or 'no area record'))
            continue
        for fld in sorted({l[0] for l in linked}):
            l0 = [l for l in linked if l[0] == fld][0]
            ok = fde is not None
            if ok:
                g = Inliner(prog).inline(fde)
                ok = any(x.get('k') == 'member' and last_member(x) == (area, fld) for e in g.events() for x in walk(e))
            ctx.ob('R-C18i', '%s:%s.%s' % (name, area, fld), ok, loc=u['_loc'],
                   detail='%s records are linked into %s.%s (%s); the module must have a deinit_thread hook that visits that list: %s'
                          % (l0[1], area, fld, l0[2].name, fde.name if fde is not None else 'MISSING'))
    # the registration list, by role: the file-scope list head (a variable of its own or a member of a file-scope
    # object) that the public iv_tls_user_register mentions
    def list_heads(g, unit):
        out = set()
        conds = [b.term['cond'] for b in g.blocks.values() if b.term and b.term.get('cond') is not None]
        for src in (list(g.events()), conds):
            for y in src:
                for x in walk(y):
                    if x.get('k') == 'var' and x.get('vk') in ('global', 'staticlocal'):
                        gl = prog.global_for(unit, x['name'])
                        if gl is not None and gl.get('record') == 'iv_list_head' and not gl.get('ptr'):
                            out.add((x['name'],))
                    elif x.get('k') == 'member' and x.get('trecord') == 'iv_list_head' and not x.get('tptr'):
                        pk = path_key(x)
                        if pk and pk[0] is not None:
                            out.add(pk)
        return out
    freg = prog.fn('iv_tls_user_register')
    reg = Inliner(prog).inline(freg)
    lists = list_heads(reg, prog.unit_of(freg))
    if len(lists) != 1:
        raise AnalysisBroken('iv_tls_user_register: registration list not identified (%s)' % sorted(lists))
    lst = lists.pop()
    td = prog.fn('iv_tls_thread_deinit')
    ti = prog.fn('iv_tls_thread_init')

    def walks(f, hk):
        # the hook of this phase is called: an indirect call whose function value can only have been read from the
        # field `hk` of a registration record (directly, or through locals / a selection whose condition is a
        # constant in this calling context -- one walker shared by both phases with a `setup` parameter)
        g = Inliner(prog).inline(f)
        V = view_of(prog, g)
        calls = any(e['ev'] == 'call' and 'fnexpr' in e and fn_value_sources(V, e['fnexpr'], (e['_b'], e['_i'])) == {('iv_tls_user', hk)}
                    for e in g.events())
        return calls and lst in list_heads(g, prog.unit_of(f))
    ctx.ob('R-C18i', 'iv_tls_thread_deinit:visits-every-user', walks(td, 'deinit_thread') and walks(ti, 'init_thread'), loc=td.loc,
           detail='thread init and tear-down both walk the list registration appends to (%s)' % '.'.join(str(x) for x in lst), fn=td.q)


# --------------------------------------------------------------------------
# R-C18a.radix
# --------------------------------------------------------------------------

NODE = 'iv_timer_ratnode'
DEPTH = ('iv_state', 'rat_depth')
ROOTF = 'timer_root'


def _lin(x, ref, offs):
    """x == ref + c  ->  c   (ref: ('field', (rec, fld)) or ('var', name)); locals caching such a value are looked up in offs"""
    x0 = x
    x = strip(x)
    if not isinstance(x, dict):
        return None
    for n in (names_of(x0) | names_of(x)):
        if ('i', n) in offs:
            return offs[('i', n)]
    if ref[0] == 'field' and last_member(x) == ref[1]:
        return 0
    if ref[0] == 'var' and x.get('k') == 'var' and x['name'] == ref[1]:
        return 0
    if x.get('k') == 'incdec':
        # `--d` / `d--` as a value: the step itself is a store event of its own that precedes the embedding event,
        # so the operand already has its new value here; the postfix forms yield the value before the step
        c = _lin(x['e'], ref, offs)
        if c is None:
            return None
        if x.get('prefix'):
            return c
        return c - 1 if x['op'] == '++' else c + 1
    if x.get('k') == 'bin' and x['op'] in ('+', '-'):
        c = _intval(x['r'])
        l = _lin(x['l'], ref, offs)
        if c is not None and l is not None:
            return l + (c if x['op'] == '+' else -c)
        if x['op'] == '+' and _intval(x['l']) is not None:
            r = _lin(x['r'], ref, offs)
            if r is not None:
                return r + _intval(x['l'])
    return None


def _child_of(x):
    """x == V->child[i] / V.child[i] (a slot of a radix node)  ->  the node expression V"""
    x = strip(x)
    if isinstance(x, dict) and x.get('k') == 'index':
        m = strip(x['base'])
        if isinstance(m, dict) and m.get('k') == 'member' and m.get('record') == NODE:
            return m['base']
    return None


def level_offsets(g, ref, init, V=None):
    """Forward analysis of  level(node variable) - ref  and  value(int local) - ref, where ref is the tree
    depth (a state field) or the level parameter of a recursive release.  'ROOT' stands for the node the
    state's root pointer designates.  Returns {point: {key: offset}}."""
    def is_ref_store(e):
        if ref[0] == 'field':
            return last_member(e['lhs']) == ref[1] and strip(e['lhs']).get('k') == 'member'
        return strip(e['lhs']).get('k') == 'var' and var_name(e['lhs']) == ref[1]

    def node_off(x, S):
        """offset of the node a pointer value designates"""
        x0 = x
        x = strip(x)
        if not isinstance(x, dict):
            return None
        for n in (names_of(x0) | names_of(x)):
            if ('n', n) in S:
                return S[('n', n)]
        if x.get('k') == 'member' and x['field'] == ROOTF:
            return S.get('ROOT')
        p = _child_of(x)
        if p is not None:
            o = node_off(p, S)
            return None if o is None else o - 1
        return None

    def tr(e, Sf):
        if e['ev'] != 'store':
            return Sf
        if V is not None and any(x.get('k') == 'deref' or (x.get('k') == 'member' and x.get('arrow')) for x in walk(e['lhs'])):
            # the depth / the root reached through a pointer that holds the field's address
            e = dict(e, lhs=h18.deref_norm(V, e['lhs']))
        if V is not None and 'rhs' in e:
            e = dict(e, rhs=h18.deref_norm(V, e['rhs']))
        S = dict(Sf)
        if is_ref_store(e):
            d = None
            if e['op'] == '--':
                d = 1
            elif e['op'] == '++':
                d = -1
            elif e['op'] in ('-=', '+=') and _intval(e.get('rhs')) is not None:
                d = _intval(e['rhs']) * (1 if e['op'] == '-=' else -1)
            elif e['op'] == '=' and 'rhs' in e:
                c = _lin(e['rhs'], ref, {k: v for k, v in S.items()})
                d = -c if c is not None else None
            if d is None:
                return frozenset()
            return frozenset((k, v + (d if k != 'GONE' else 0)) for k, v in S.items())
        l = strip(e['lhs'])
        if l.get('k') == 'var':
            n = l['name']
            S.pop(('n', n), None)
            io = S.pop(('i', n), None)
            if io is not None and e['op'] in ('++', '--'):
                S[('i', n)] = io + (1 if e['op'] == '++' else -1)
            elif io is not None and e['op'] in ('+=', '-=') and _intval(e.get('rhs')) is not None:
                S[('i', n)] = io + _intval(e['rhs']) * (1 if e['op'] == '+=' else -1)
            if e['op'] == '=' and 'rhs' in e:
                o = node_off(e['rhs'], dict(Sf))
                if o is not None:
                    S[('n', n)] = o
                else:
                    c = _lin(e['rhs'], ref, dict(Sf))
                    if c is not None:
                        S[('i', n)] = c
            return frozenset(S.items())
        par = _child_of(l)
        if par is not None and var_name(par) and e['op'] == '=' and 'rhs' in e:
            # V->child[k] = N : V is one level above N
            o = node_off(e['rhs'], dict(Sf))
            if o is not None:
                S[('n', var_name(par))] = o + 1
                return frozenset(S.items())
            return Sf
        if l.get('k') == 'member' and l['field'] == ROOTF:
            S.pop('ROOT', None)
            S.pop('GONE', None)
            if e['op'] == '=' and 'rhs' in e:
                o = node_off(e['rhs'], dict(Sf))
                if o is not None:
                    S['ROOT'] = o
                elif canon(e['rhs']) in ('NULL', '0'):
                    S['GONE'] = 0
            return frozenset(S.items())
        return Sf
    _, ev_in = forward(g, frozenset(init.items()), tr, lambda a, b: a & b)
    return {k: dict(v) for k, v in ev_in.items()}, node_off


def radix(ctx):
    prog = ctx.prog
    # role: functions that free a radix node handed to them (subtree release)
    cands = {}
    for f in prog.all_funcs():
        nodes = [p['name'] for p in f.params if p.get('record') == NODE and p.get('ptr')]
        if not nodes or not f.blocks:
            continue
        if any(e['ev'] == 'call' and is_call(e, 'free') and e['args'] and var_name(e['args'][0]) in nodes for e in f.events()):
            ints = [p['name'] for p in f.params if p['type'].replace('const ', '').strip() in ('int', 'unsigned int', 'unsigned')]
            if not ints:
                raise AnalysisBroken('%s frees a radix node but has no level parameter' % f.name)
            cands[f.q] = (f, nodes[0], ints, [p['name'] for p in f.params])
    if not cands:
        raise AnalysisBroken('no function frees a radix node handed to it (subtree release not found)')
    fnames = {v[0].name for v in cands.values()}
    stop_at_release = lambda t: t.q in cands

    def self_calls(f, g):
        return [e for e in g.events() if e['ev'] == 'call' and e.get('callee') == f.name
                and prog.resolve(prog.unit_of(f), e['callee']) is f]

    # the level parameter, by role: the one integer parameter whose own value (plus a constant) the function hands on in
    # that position whenever it re-enters itself (directly or through helpers, which are inlined); other integer
    # parameters (a first-slot number, a flag) are not passed on that way
    freers = {}
    bodies = {}
    for q, (f, pn, ints, pnames) in sorted(cands.items()):
        g = Inliner(prog, stop=stop_at_release).inline(f)
        bodies[q] = g
        lvl = ints
        if len(ints) > 1:
            lvl = []
            for pl in ints:
                offs, _ = level_offsets(g, ('var', pl), {('n', pn): 0}, view_of(prog, g))
                rc_ = self_calls(f, g)
                if rc_ and all(_lin(e['args'][pnames.index(pl)], ('var', pl), offs.get((e['_b'], e['_i']), {})) is not None for e in rc_):
                    lvl.append(pl)
        if len(lvl) != 1:
            raise AnalysisBroken('%s frees a radix node but its level parameter is not identified (%s)' % (f.name, lvl))
        freers[q] = (f, pn, lvl[0], pnames)

    def freer_of(f, e):
        t = prog.resolve(prog.unit_of(f), e['callee']) if 'callee' in e else None
        return freers.get(t.q) if t is not None else None

    # contract inside each release function (its helpers inlined): level(node parameter) == level parameter
    for q, (f, pn, pl, pnames) in sorted(freers.items()):
        g = bodies[q]
        V = view_of(prog, g)
        offs, node_off = level_offsets(g, ('var', pl), {('n', pn): 0}, V)
        rec = [e for e in g.events() if e['ev'] == 'call' and e.get('callee') in fnames]
        okr, why = True, []
        sites_ = set()
        for e in rec:
            tgt = freer_of(f, e)
            if tgt is None:
                continue
            sites_.add(e['loc'])
            S = offs.get((e['_b'], e['_i']), {})
            ai, li = tgt[3].index(tgt[1]), tgt[3].index(tgt[2])
            x, lv = e['args'][ai], e['args'][li]
            par = _child_of(V.resolve(x)) if _child_of(x) is None else _child_of(x)
            o = node_off(par, S) if par is not None else None
            c = _lin(lv, ('var', pl), S)
            A = V.at(e)
            if o is None or c is None:
                okr = False
                why.append('descent at %s not understood' % e['loc'].split('/')[-1])
                continue
            if c != o - 1:
                okr = False
                why.append('child of a node at level %s%+d is handed on as level %s%+d' % (pl, o, pl, c))
            # only above the leaves: level of the parent node > 0
            if not (atoms_imply(A, '!=', pl, str(-o)) or atoms_imply(A, '>', pl, str(-o)) or atoms_imply(A, '>=', pl, str(1 - o))):
                okr = False
                why.append('descent not guarded by %s != %d' % (pl, -o))
        # ... and at every level above the leaves: the guard of the descent is not stronger than "the node is not a leaf".
        # Every comparison of the level parameter with a constant that holds at a descent site is evaluated at the inner
        # levels 1, 2, 3 and 40 of the parent; one that is false there skips the children of such a node, which are then
        # never freed.  Not judged when the function also frees child slots directly (a separate last-level loop).
        direct = any(e['ev'] == 'call' and is_call(e, 'free') and e['args'] and _child_of(V.resolve(e['args'][0])) is not None
                     for e in g.events())
        okw, whyw = True, []
        CMP = {'==': lambda a, b: a == b, '!=': lambda a, b: a != b, '<': lambda a, b: a < b, '<=': lambda a, b: a <= b,
               '>': lambda a, b: a > b, '>=': lambda a, b: a >= b}
        for e in rec:
            tgt = freer_of(f, e)
            if tgt is None or direct:
                continue
            S = offs.get((e['_b'], e['_i']), {})
            x = e['args'][tgt[3].index(tgt[1])]
            par = _child_of(V.resolve(x)) if _child_of(x) is None else _child_of(x)
            o = node_off(par, S) if par is not None else None
            if o is None:
                continue
            for a in V.at(e):
                if a[1] != pl or a[0] not in CMP:
                    continue
                try:
                    c0 = int(a[2])
                except (ValueError, TypeError):
                    continue
                for parent_level in (1, 2, 3, 40):
                    if not CMP[a[0]](parent_level - o, c0):
                        okw = False
                        whyw.append('descent at %s requires %s %s %s: the children of a node at level %d are not released'
                                    % (e['loc'].split('/')[-1], pl, a[0], a[2], parent_level))
                        break
        ctx.ob('R-C18a.radix', 'subtree-release:descends-at-every-inner-level', okw and (bool(sites_) or direct), loc=f.loc,
               detail='; '.join(whyw) or ('the guard of the recursion holds at every level above the leaves (evaluated at levels 1, 2, 3, 40)'
                                          if not direct else 'not judged: child slots are also freed directly'), fn=f.q)
        ctx.ob('R-C18a.radix', 'subtree-release:descends-only-above-leaves', okr and bool(sites_), loc=f.loc,
               detail='; '.join(why) or 'recursion into child[i] only where the level is non-zero and with level - 1 (%d sites)' % len(sites_), fn=f.q)
        own = must_pass(g, lambda e: e['ev'] == 'call' and is_call(e, 'free') and e['args'] and var_name(V.resolve(e['args'][0])) == pn)
        ctx.ob('R-C18a.radix', 'subtree-release:frees-the-node', bool(own.get((g.exit, 0))), loc=f.loc,
               detail='the node itself is freed on every path', fn=f.q)
    # callers of the release: the level they pass is the true level of the subtree.  Modular argument over the
    # timer module's entry points (nearest non-static / address-taken functions above the sites): assuming the
    # tree invariant "the root pointer designates a node at level rat_depth" at their entry, every release site
    # passes the true level and the invariant holds again at their exit.
    rts = {r.q for r in roles.roots(prog)}

    def nearest_roots(fs):
        out, seen, work = {}, set(), list(fs)
        while work:
            x = work.pop()
            if x.q in seen:
                continue
            seen.add(x.q)
            if x.q in rts:
                out[x.q] = x
                continue
            for (c, e) in prog.callers_of(x.name):
                if prog.resolve(prog.unit_of(c), e['callee']) is x:
                    work.append(c)
        return out
    owners = [f for f in prog.all_funcs() if f.q not in freers and any(e['ev'] == 'call' and e.get('callee') in fnames and freer_of(f, e) for e in f.events())]
    writers = [f for f in prog.all_funcs() if any(e['ev'] == 'store' and last_member(e['lhs']) == DEPTH and strip(e['lhs']).get('k') == 'member' for e in f.events())]
    need = nearest_roots(owners)
    wneed = nearest_roots(writers)
    byloc = {}
    reached_from = set()
    allneed = dict(wneed)
    allneed.update(need)
    for q in sorted(allneed):
        g = Inliner(prog, stop=lambda t: t.q in freers).inline(allneed[q])
        Vg = view_of(prog, g)
        offs, node_off = level_offsets(g, ('field', DEPTH), {'ROOT': 0}, Vg)
        if q in wneed:
            S = offs.get((g.exit, 0), {})
            ctx.ob('R-C18a.radix', '%s:tree-invariant-preserved' % allneed[q].name, S.get('ROOT') == 0 or 'GONE' in S, loc=allneed[q].loc,
                   detail='at exit the root pointer designates a node at level rat_depth%s (or the tree is gone)'
                          % ('' if S.get('ROOT') in (0, None) else '%+d' % S['ROOT']), fn=q)
        for e in g.events():
            if e['ev'] != 'call' or e.get('callee') not in fnames:
                continue
            tgt = [v for v in freers.values() if v[0].name == e['callee']][0]
            S = offs.get((e['_b'], e['_i']), {})
            ai, li = tgt[3].index(tgt[1]), tgt[3].index(tgt[2])
            anode, alevel = h18.deref_norm(Vg, e['args'][ai]), h18.deref_norm(Vg, e['args'][li])
            par = _child_of(anode)
            o = node_off(par, S) if par is not None else node_off(anode, S)
            if par is not None and o is not None:
                o -= 1
            c = _lin(alevel, ('field', DEPTH), S)
            ok = o is not None and c is not None and o == c
            det = ('subtree at level depth%+d handed on as level depth%+d' % (o, c)) if (o is not None and c is not None) \
                else 'level of the subtree or of the argument not established (node %s, level %s)' % (o, c)
            reached_from.add(allneed[q].name)
            k = e['loc']
            prev = byloc.get(k, (True, det))
            byloc[k] = (prev[0] and ok, det if (prev[0] or not ok) else prev[1])
    if not byloc:
        raise AnalysisBroken('no call of the subtree release outside itself')
    for loc, (ok, det) in sorted(byloc.items()):
        ctx.ob('R-C18a.radix', 'level-removal:subtree-level', ok, loc=loc,
               detail='%s (the children of the root being removed are one level below it; with the level of the root itself the leaves\' slots, '
                      'which hold user timers, would be freed as nodes)' % det)
    d = prog.fn('iv_timer_deinit')
    gd = roles.inlined(prog, d)
    Vd = view_of(prog, gd)
    A = Vd.atoms((gd.exit, 0))
    dsp = {canon(x) for e in gd.events() for x in walk(e) if x.get('k') == 'member' and (x.get('record'), x['field']) == DEPTH}
    dsp |= {canon(x) for b in gd.blocks.values() if b.term and b.term.get('cond') for x in walk(b.term['cond'])
            if x.get('k') == 'member' and (x.get('record'), x['field']) == DEPTH}
    # ... or a local that provably differs from the depth by a constant there (a countdown stepped once per removed
    # level): `n <= o` with n == depth + o says depth <= 0; a depth counts levels and is never negative
    doffs, _ = level_offsets(gd, ('field', DEPTH), {'ROOT': 0}, Vd)
    cands = [(n_, 0) for n_ in dsp]
    cands += [(k[1], v) for k, v in doffs.get((gd.exit, 0), {}).items() if isinstance(k, tuple) and k[0] == 'i']
    none_left = any(atoms_imply(A, '==', n_, str(o)) or atoms_imply(A, '<=', n_, str(o)) for (n_, o) in cands)
    if not none_left:
        # the same fact decided per path instead of at the join in front of the return: every path to the exit takes an edge
        # on which the depth (or a local that differs from it by a known constant there) is known to be zero, and the depth is
        # not stored to afterwards (`if (depth) do { left = remove_level(); } while (left);`: one path knows depth == 0, the
        # other left == 0 with left == depth; their join knows neither spelling)
        bid = {id(b): k for k, b in gd.blocks.items()}

        def zero_on_edge(blk, si):
            end = (bid[id(blk)], len(blk.events))
            At = set(Vd.atoms(end))
            c = blk.term.get('cond') if blk.term else None
            if c is not None and len(blk.succ) == 2 and blk.term.get('cls') not in ('SwitchStmt', 'MethodDispatch'):
                At |= {(op, lc, rc, frozenset()) for (op, lc, rc, l, r) in h18._cond_atoms(c, si == 0) if op != 'const'}
            cs = [(n_, 0) for n_ in dsp] + [(k[1], v) for k, v in doffs.get(end, {}).items() if isinstance(k, tuple) and k[0] == 'i']
            return any(atoms_imply(At, '==', n_, str(o)) or atoms_imply(At, '<=', n_, str(o)) for (n_, o) in cs)

        def tr_(e, s_):
            if e['ev'] == 'store' and last_member(h18.deref_norm(Vd, e['lhs'])) == DEPTH:
                return False
            if e['ev'] == 'call' and e.get('callee') and prog.has_fn(e['callee']) and e['callee'] not in fnames \
                    and any(w.name == e['callee'] for w in writers):
                return False
            return s_
        _, zin = forward(gd, False, tr_, lambda a, b: a and b, edge=lambda blk, si, s_: s_ or zero_on_edge(blk, si))
        none_left = bool(zin.get((gd.exit, 0)))
    ctx.ob('R-C18a.radix', 'timer_deinit:all-levels-removed', 'iv_timer_deinit' in reached_from and none_left, loc=d.loc,
           detail='iv_timer_deinit reaches the level removal and returns only with the depth == 0', fn=d.q)


# --------------------------------------------------------------------------
# R-C18j: blocks owned through a private field of a user-visible object
# --------------------------------------------------------------------------

# exported API: user-visible record -> the call(s) after which the user may dispose of the object.  The owning field is found by
# role (a private field of the record into which a freshly acquired block is stored); so is the function that starts the
# object's life (generic.OBJECT_KINDS: reg / INIT).
OWNER_END = {'iv_fd_pump': ('iv_fd_pump_destroy',)}


def _kind_of_record(rec):
    for K in generic.OBJECT_KINDS:
        if K['rec'] == rec:
            return K
    return None


def owning_fields(prog):
    """{(record, field): [(function, store event)]}: private fields of user-visible object kinds into which a block that the
    library acquired (malloc/calloc, directly or through its own allocation helpers) is stored"""
    acq = acquirers(prog)
    out = {}

    def scan(g, f, V=None):
        unit = prog.unit_of(f)
        kind = lambda x, tn: prog._c18_kind_of(x, unit, tn)
        tainted = None
        for e in g.events():
            if e['ev'] != 'store' or e.get('op') != '=' or 'rhs' not in e:
                continue
            lhs = h18.deref_norm(V, e['lhs']) if V is not None else e['lhs']
            lm = last_member(lhs)
            K = _kind_of_record(lm[0]) if lm else None
            if K is None or lm[1] in K['user']:
                continue
            if tainted is None:
                tainted = _tainted(g, kind)
            if kind(e['rhs'], tainted) == 'mem':
                out.setdefault(lm, []).append((f, e))
    for f in prog.all_funcs():
        if f.blocks:
            scan(f, f)
    for rec in OWNER_END:
        if any(k[0] == rec for k in out):
            continue
        # the store may be made through an out-parameter or a helper: look at the entry points that take the object
        for r in roles.roots(prog):
            if any(p.get('record') == rec or ('struct %s *' % rec) in (p.get('type') or '') for p in r.params):
                g = roles.inlined(prog, r)
                scan(g, r, view_of(prog, g))
    return out


def _roots_touching(prog, rec, fld):
    rts = {r.q: r for r in roles.roots(prog)}
    need = {}
    for f in prog.all_funcs():
        if not f.blocks:
            continue
        hit = False
        for e in f.events():
            if any(x.get('k') == 'member' and (x.get('record'), x.get('field')) == (rec, fld) for x in walk(e)):
                hit = True
                break
        if not hit:
            for b in f.blocks.values():
                c = b.term.get('cond') if b.term else None
                if isinstance(c, dict) and any(x.get('k') == 'member' and (x.get('record'), x.get('field')) == (rec, fld) for x in walk(c)):
                    hit = True
                    break
        if hit:
            for c in roles.callers_closure(prog, f):
                if c.q in rts:
                    need[c.q] = c
    return [need[q] for q in sorted(need)]


def owned_blocks(ctx):
    prog = ctx.prog
    fields = owning_fields(prog)
    for rec in sorted(OWNER_END):
        if not any(k[0] == rec for k in fields):
            raise AnalysisBroken('no library-acquired block is stored into a private field of %s' % rec)
    for (rec, fld), stores in sorted(fields.items()):
        if rec not in OWNER_END:
            ctx.note('R-C18j: %s.%s holds a library-acquired block (%s) that objects registered with the loop refer to as well; its '
                     'release by their handlers is not judged here' % (rec, fld, stores[0][0].name))
            continue
        K = _kind_of_record(rec)
        births = set(K['reg']) | ({K['init']} if K.get('init') else set())
        ends = [n for n in OWNER_END[rec] if prog.has_fn(n)]
        if not ends:
            raise AnalysisBroken('%s: none of the end-of-life functions %s exists' % (rec, '/'.join(OWNER_END[rec])))
        roots_ = _roots_touching(prog, rec, fld)
        sites, lost, where = {}, {}, {}
        per_root = []
        for r in roots_:
            g = roles.inlined(prog, r)
            V = view_of(prog, g)
            keys = h18.field_keys(V, rec, fld)
            for key in sorted(keys):
                s_, l_, exits, _n = h18.owned_flow(V, rec, fld, key, r.name in births)
                for loc, e in s_.items():
                    sites.setdefault(loc, e)
                    where.setdefault(loc, set()).add(r.name)
                for loc, why in l_.items():
                    lost.setdefault(loc, (why, r.name))
                per_root.append((r, key, exits))
        if not sites:
            raise AnalysisBroken('%s.%s: no store to the owning field found in any entry point' % (rec, fld))
        for loc, e in sorted(sites.items(), key=lambda kv: h18._locpos(kv[0])):
            fn_ = (e.get('fn') or '').split(':')[-1] or '/'.join(sorted(where[loc]))
            bad = lost.get(loc)
            ctx.ob('R-C18j', '%s.%s:store in %s' % (rec, fld, fn_), bad is None, loc=loc,
                   detail=('%s [entry point %s]' % bad) if bad else
                   'the block the field held before this store is released, handed to a cache list, known to be absent, or kept in a '
                   'local that is released before the return, on every path of %s' % '/'.join(sorted(where[loc])), fn=e.get('fn'))
        for (r, key, exits) in per_root:
            if r.name in ends:
                ctx.ob('R-C18j', '%s:%s.%s released at return' % (r.name, rec, fld), 'live' not in exits, loc=r.loc,
                       detail='at every return of the call that ends the object\'s life the block attached through %s has been released, '
                              'handed to a cache list, or there was none (found: %s)' % (key, '/'.join(sorted(exits)) or 'no return'), fn=r.q)
            ctx.ob('R-C18j', '%s:%s.%s not both attached and released' % (r.name, rec, fld), not ({'freed', 'handed'} & exits), loc=r.loc,
                   detail='no return leaves the field pointing to a block that was passed to free or handed to a cache list in this call '
                          '(found: %s)' % ('/'.join(sorted(exits)) or 'no return'), fn=r.q)
        for n in ends:
            if not any(r.name == n for (r, _, _) in per_root):
                ctx.ob('R-C18j', '%s:%s.%s released at return' % (n, rec, fld), False, loc=prog.fn(n).loc,
                       detail='the call that ends the object\'s life does not look at the owning field at all', fn=prog.fn(n).q)


# --------------------------------------------------------------------------
# R-C18k: a block allocated into a local is freed, stored into a longer-lived holder, or returned on every path
# --------------------------------------------------------------------------

MEM_PRIMS = tuple(sorted(k for k, v in ACQUIRE.items() if v == 'mem'))


def _alloc_sites(g):
    """{loc: store event} of the stores `L = malloc(...)` / `L = calloc(...)` into a local variable (also `*&L = ...`)"""
    out = {}
    for e in g.events():
        if e['ev'] != 'store' or e.get('op') != '=' or 'rhs' not in e:
            continue
        l = h18.plain_lhs(e['lhs'])
        l = strip(e['lhs']) if l is None else l
        if not (isinstance(l, dict) and l.get('k') == 'var' and h18.local_name(l) is not None):
            continue
        r = strip(e['rhs'])
        while isinstance(r, dict) and r.get('k') in ('cast', 'load', 'paren') and isinstance(r.get('e'), dict):
            r = strip(r['e'])
        if isinstance(r, dict) and r.get('k') == 'call' and r.get('callee') in MEM_PRIMS:
            out.setdefault(e['loc'], e)
    return out


def local_blocks(ctx):
    prog = ctx.prog
    acq = acquirers(prog)
    F = {}
    for f in prog.all_funcs():
        if f.blocks and _alloc_sites(f):
            F[f.q] = f
    # a function that returns the block makes its callers answer for it: they see the allocation with the helper inlined
    work = [f for f in F.values()]
    while work:
        f = work.pop()
        if acq.get(f.q) != 'mem':
            continue
        for (c, e) in prog.callers_of(f.name):
            if c.blocks and c.q not in F and prog.resolve(prog.unit_of(c), e['callee']) is f:
                F[c.q] = c
                work.append(c)
    verdict, where, origin = {}, {}, {}
    inl = Inliner(prog, stop=lambda t: not t.static)
    for q in sorted(F):
        f = F[q]
        # static helpers are part of the function; a function with external linkage (the registration API of another module)
        # that is handed the block or an address inside it is a holder in its own right
        g = inl.inline(f)
        V = view_of(prog, g)
        for loc, e in sorted(_alloc_sites(g).items(), key=lambda kv: h18._locpos(kv[0])):
            _s, lost, exits, _n = h18.owned_flow(V, None, None, None, True, site=loc)
            why = None
            if lost:
                at = sorted(lost, key=h18._locpos)[0]
                why = 'in %s the block is still owned by nobody else when %s' % (
                    f.name, 'the same allocation runs again' if at == loc else 'the last local holding it is overwritten at %s' % at.split('/')[-1])
            elif 'live' in exits:
                why = '%s can return with the block neither freed, nor stored into a longer-lived holder, nor handed on, nor returned' % f.name
            origin.setdefault(loc, (e.get('fn') or '').split(':')[-1] or f.name)
            where.setdefault(loc, []).append(f.name)
            if why and loc not in verdict:
                verdict[loc] = why
    if not origin:
        raise AnalysisBroken('no allocation into a local found in the library')
    for loc in sorted(origin, key=h18._locpos):
        ctx.ob('R-C18k', '%s:block allocated here has an owner at every return' % origin[loc], loc not in verdict, loc=loc,
               detail=verdict.get(loc) or 'freed, stored outside the frame, linked, handed on, returned or NULL on every path of %s'
               % '/'.join(sorted(set(where[loc]))))


# --------------------------------------------------------------------------
# R-C18j.fd: descriptors kept inside a heap block are closed before the block is freed
# --------------------------------------------------------------------------

PIPE_CALLS = {'pipe': 0, 'pipe2': 0}
PIPE_SYSCALLS = {22: 1, 293: 1}          # x86-64: pipe, pipe2 (argument position of the descriptor pair)
CLOSE = ('close',)


def _pipe_target(e):
    """the expression handed to pipe()/pipe2() to receive the descriptor pair, else None"""
    if e['ev'] != 'call':
        return None
    c, args = e.get('callee'), e.get('args') or []
    if c in PIPE_CALLS and len(args) > PIPE_CALLS[c]:
        return args[PIPE_CALLS[c]]
    if c == 'syscall' and args and _intval(args[0]) in PIPE_SYSCALLS and len(args) > PIPE_SYSCALLS[_intval(args[0])]:
        return args[PIPE_SYSCALLS[_intval(args[0])]]
    return None


def _heap_member(V, x):
    """(record of the block, field path inside it, pointer expression) for `P->a.b` (P a pointer to a heap record)"""
    x = strip(h18.deref_norm(V, x)) if V is not None else strip(x)
    n = 0
    while isinstance(x, dict) and x.get('k') == 'var' and V is not None and n < 4:
        y = V.resolve(x)
        if y is x or not isinstance(y, dict) or y.get('k') == 'var' and y.get('name') == x.get('name'):
            break
        x = strip(y)
        n += 1
    if isinstance(x, dict) and x.get('k') == 'addr':        # &P->a.b[0]
        y = strip(x['e'])
        if isinstance(y, dict) and y.get('k') == 'index' and _intval(y.get('idx')) == 0:
            x = strip(y['base'])
    path = []
    while isinstance(x, dict) and x.get('k') == 'member':
        path.append(x['field'])
        if x.get('arrow'):
            return x.get('record'), tuple(reversed(path)), x['base']
        x = strip(x['base'])
    return None


def _local_array(V, t):
    t = strip(h18.deref_norm(V, t)) if V is not None else strip(t)
    if isinstance(t, dict) and t.get('k') == 'addr':
        y = strip(t['e'])
        if isinstance(y, dict) and y.get('k') == 'index' and _intval(y.get('idx')) == 0:
            t = strip(y['base'])
    if isinstance(t, dict) and t.get('k') == 'var' and t.get('vk') in ('local', 'param'):
        return t['name']
    return None


def _copied_pair(V, g, t):
    """pipe() filled a local pair whose elements are then stored into a member array of a heap block: that member"""
    la = _local_array(V, t)
    if la is None:
        return None
    for e in g.events():
        if e['ev'] == 'store' and e.get('op') == '=' and 'rhs' in e:
            r = strip(e['rhs'])
            l = strip(e['lhs'])
            if isinstance(r, dict) and r.get('k') == 'index' and var_name(r.get('base')) == la and \
                    isinstance(l, dict) and l.get('k') == 'index':
                hm = _heap_member(V, l['base'])
                if hm is not None and hm[0]:
                    return hm
    return None


def _contradicts(a, b):
    """two atoms (op, name, integer text) about the same name cannot both hold"""
    if a[1] != b[1]:
        return False
    try:
        ca, cb = int(a[2]), int(b[2])
    except ValueError:
        return False
    sat = {'==': lambda v, c: v == c, '!=': lambda v, c: v != c, '<': lambda v, c: v < c, '<=': lambda v, c: v <= c,
           '>': lambda v, c: v > c, '>=': lambda v, c: v >= c}
    if a[0] not in sat or b[0] not in sat:
        return False
    return not any(sat[a[0]](v, ca) and sat[b[0]](v, cb) for v in (ca - 1, ca, ca + 1, cb - 1, cb, cb + 1))


def descriptor_blocks(prog):
    """{(heap record, field path): (guard atoms, [acquisition sites])}: member arrays of heap blocks that pipe()/pipe2() fills,
    with the conditions on file-scope variables under which every such acquisition is made (the mode)"""
    owners = roles.functions_with(prog, lambda e: _pipe_target(e) is not None)
    rts = {r.q: r for r in roles.roots(prog)}
    found = {}
    for o in owners:
        ctxs = {}
        for c in roles.callers_closure(prog, o):
            if c.q in rts:
                ctxs[c.q] = c
        for q in sorted(ctxs):
            r = ctxs[q]
            g = roles.inlined(prog, r)
            V = view_of(prog, g)
            unit = prog.unit_of(r)
            for e in g.events():
                t = _pipe_target(e)
                if t is None or e.get('fn', r.q) != o.q:
                    continue
                hm = _heap_member(V, t)
                if hm is None or not hm[0]:
                    hm = _copied_pair(V, g, t)        # pipe(local pair), then X->member[i] = pair[j]
                if hm is None or not hm[0]:
                    continue
                guards = set()
                for a in V.at(e):
                    if a[0] in ('==', '!=', '<', '<=', '>', '>=') and a[2].lstrip('-').isdigit():
                        x = V.expr_named(a[1])
                        rv = None
                        if isinstance(x, dict):
                            rv = root_var(x)
                        if (rv is not None and rv.get('vk') in ('global', 'staticlocal')) or \
                                (x is None and prog.global_for(unit, a[1]) is not None):
                            guards.add((a[0], a[1], a[2]))
                ent = found.setdefault((hm[0], hm[1]), [None, []])
                ent[0] = guards if ent[0] is None else (ent[0] & guards)
                ent[1].append((r, e))
    return {k: (frozenset(v[0] or ()), v[1]) for k, v in found.items()}


def _pipe_target_node(x):
    if isinstance(x, dict) and x.get('k') == 'call':
        return _pipe_target(dict(x, ev='call'))
    return None


def _closed_before_free(prog, V, site, rec, path, guards, n=2):
    """(proof, detail) for `free(X)` at `site`.  Configurations (names, closed, off, hold) per path from the entry of the viewed
    function: names = locals holding X's value, closed = indices of X->path[] passed to close since, off = the path took an edge
    that contradicts a mode guard, hold = what the block may hold: 'unknown' (it came from elsewhere), 'none' (fresh from
    malloc/calloc, nothing acquired since), ('pending', R, prior) (pipe() was called, its result is in the locals R and untested),
    ('ok', R) (acquired; the locals R are 0).  Proven iff on every path: off, or hold == 'none', or all n indices closed."""
    g = V.g
    xn = var_name(site['args'][0])
    gnames = {a[1] for a in guards}
    unit = prog.unit_of(g)

    def member_of_x(x, names):
        hm = _heap_member(V, x)
        return hm is not None and hm[1] == path and var_name(hm[2]) in names

    def about_x(a, names):
        a = strip(a)
        if var_name(a) in names:
            return True
        r = h18.interior_root(a)
        if r is not None and var_name(r) in names:
            return True
        hm = _heap_member(V, a)
        return hm is not None and var_name(hm[2]) in names

    def closed_index(a, names, pt, env):
        a = strip(a)
        k = 0
        while isinstance(a, dict) and a.get('k') == 'var' and k < 4:
            y = V.resolve(a)
            if not isinstance(y, dict) or (y.get('k') == 'var' and y.get('name') == a.get('name')):
                break
            a = strip(y)
            k += 1
        if not isinstance(a, dict) or a.get('k') != 'index':
            return None
        if not member_of_x(a['base'], names):
            return None
        c = V.const_int(a['idx'], pt)
        if c is not None:
            return frozenset([c])
        iv = var_name(a['idx'])
        if iv is not None and iv in dict(env):
            return frozenset([dict(env)[iv]])
        lo, hi = V.range(a['idx'], pt)
        if lo == hi:
            return frozenset([int(lo)])
        if lo == 0 and hi == n - 1:
            return frozenset(range(n))       # a loop over the whole pair
        return frozenset()

    def rnames_of(hold):
        return hold[1] if isinstance(hold, tuple) else frozenset()

    def with_rnames(hold, R):
        if not isinstance(hold, tuple):
            return hold
        if hold[0] == 'pending' and not R:
            return 'unknown'                 # the result was discarded: the pair may have been acquired
        return (hold[0], R) + hold[2:]

    # integer locals that subscript the descriptor array somewhere: followed exactly while they hold small constants, so a
    # loop over the pair is walked iteration by iteration
    idxvars = set()
    for e_ in g.events():
        if e_['ev'] == 'call' and e_.get('callee') in CLOSE and e_.get('args'):
            a_ = strip(e_['args'][0])
            if isinstance(a_, dict) and a_.get('k') == 'index' and var_name(a_.get('idx')):
                idxvars.add(var_name(a_['idx']))

    def step_env(e, env):
        l = strip(e['lhs'])
        pl = h18.plain_lhs(e['lhs'])
        if pl is not None:
            l = pl
        if not (isinstance(l, dict) and l.get('k') == 'var' and l['name'] in idxvars):
            return env
        nm = l['name']
        d = dict(env)
        old = d.pop(nm, None)
        op = e.get('op')
        new = None
        if op == '=' and 'rhs' in e:
            new = _intval(e['rhs'])
        elif old is not None and op in ('++', '--'):
            new = old + (1 if op == '++' else -1)
        elif old is not None and op in ('+=', '-=') and 'rhs' in e and _intval(e['rhs']) is not None:
            new = old + _intval(e['rhs']) * (1 if op == '+=' else -1)
        if new is not None and -64 <= new <= 64:
            d[nm] = new
        return frozenset(d.items())

    def tr1(e, cfg5):
        env = cfg5[4]
        if e['ev'] == 'store' and idxvars:
            env = step_env(e, env)
        elif e['ev'] == 'call' and env:
            ks = set()
            for a_ in e.get('args') or []:
                a_ = strip(a_)
                if isinstance(a_, dict) and a_.get('k') == 'addr' and var_name(a_.get('e')):
                    ks.add(var_name(a_['e']))
            if ks:
                env = frozenset(kv for kv in env if kv[0] not in ks)
        return tr0(e, cfg5[:4], env) + (env,)

    def tr0(e, cfg, env):
        names, closed, off, hold = cfg
        if e['ev'] == 'store':
            l = strip(e['lhs'])
            pl = h18.plain_lhs(e['lhs'])
            if pl is not None:
                l = pl
            if isinstance(l, dict) and l.get('k') == 'var':
                nm = l['name']
                plain = e.get('op') == '=' and 'rhs' in e
                if nm in gnames:
                    return (names, closed, False, hold)
                R = rnames_of(hold)
                if isinstance(hold, tuple):
                    if plain and hold[0] == 'pending' and any(_pipe_target_node(x) is not None and member_of_x(_pipe_target_node(x), names)
                                                               for x in walk(e['rhs'])):
                        if _pipe_target_node(strip(e['rhs'])) is None:
                            return (names, closed, off, 'unknown')       # the result is consumed inside an expression: not followed
                        return (names, closed, off, with_rnames(hold, R | {nm}))
                    if plain and hold[0] == 'ok' and _intval(e['rhs']) == 0:
                        return (names, closed, off, with_rnames(hold, R | {nm}))      # one more local known to be 0
                    if plain and var_name(e['rhs']) in R and var_name(e['rhs']) != nm:
                        return (names, closed, off, with_rnames(hold, R | {nm}))
                    if nm in R:
                        hold = with_rnames(hold, R - {nm})
                if plain and var_name(e['rhs']) in names and nm not in names:
                    return (names | {nm}, closed, off, hold)
                if nm == xn:
                    r = e.get('rhs')
                    fr = plain and any(x.get('k') == 'call' and x.get('callee') in ('malloc', 'calloc') for x in walk(r))
                    src = var_name(r) if plain else None
                    return (frozenset([xn]) | (frozenset([src]) if src else frozenset()), frozenset(), off, 'none' if fr else 'unknown')
                if nm in names:
                    return (names - {nm}, closed, off, hold)
                return (names, closed, off, hold)
            elif any(a_[1] == canon(l) for a_ in guards):
                return (names, closed, False, hold)
            elif isinstance(l, dict) and l.get('k') == 'index' and member_of_x(l['base'], names):
                # a descriptor is stored into the array by hand (copied from a local pair): from here on the block holds it
                c = V.const_int(l['idx'], (e['_b'], e['_i']))
                return (names, (closed - {c}) if c is not None else frozenset(), off, 'unknown')
            return cfg
        if e['ev'] == 'call':
            t = _pipe_target(e)
            if t is not None:
                if member_of_x(t, names):
                    return (names, frozenset(), off, ('pending', frozenset(), hold if hold in ('none', 'unknown') else 'unknown'))
                return cfg
            c = e.get('callee')
            if c in CLOSE and e.get('args'):
                ci = closed_index(e['args'][0], names, (e['_b'], e['_i']), env)
                if ci:
                    return (names, closed | ci, off, hold)
                return cfg
            if c and c not in PRIMITIVES:
                t_ = prog.resolve(unit, c) if unit else None
                if t_ is not None and t_.blocks and any(about_x(a, names) for a in e.get('args') or []):
                    return (names, closed, off, 'unknown')      # library code not in sight was handed the block
        return cfg

    def transfer(e, S):
        out = frozenset(tr1(e, c) for c in S)
        if len(out) > 400:
            raise AnalysisBroken('descriptor analysis of %s: too many configurations' % g.name)
        return out

    def edge(blk, si, S):
        if not blk.term or blk.term.get('cond') is None or len(blk.succ) != 2 or blk.term.get('cls') in ('SwitchStmt', 'MethodDispatch'):
            return S
        # `*&v` (a result handed back through an out-parameter, helper inlined) is v
        allat = h18._cond_atoms(h18.deref_norm(V, blk.term['cond']), si == 0)
        if any(a[0] == 'const' and a[1] == 'False' for a in allat):
            return None
        atoms = [(a[0], a[1], a[2]) for a in allat if a[0] != 'const']
        if not atoms:
            return S
        turn_off = any(_contradicts(a, gd) for a in atoms for gd in guards)
        turn_on = not turn_off and any(a[1] == gd[1] for a in atoms for gd in guards)     # the mode variable was tested and is not off
        out = set()
        for (names, closed, off, hold, env) in S:
            dead = any(a[1] == kv[0] and _contradicts(a, ('==', kv[0], str(kv[1]))) for a in atoms for kv in env)
            if isinstance(hold, tuple):
                for a in atoms:
                    if not isinstance(hold, tuple) or a[1] not in hold[1]:
                        continue
                    failed = _contradicts(a, ('==', a[1], '0'))
                    okay = _contradicts(a, ('<', a[1], '0'))
                    if hold[0] == 'pending':
                        if failed:
                            hold = hold[2]
                        elif okay:
                            hold = ('ok', hold[1])
                    elif failed:
                        dead = True
            if not dead:
                out.add((names, closed, (off or turn_off) and not turn_on, hold, env))
        return frozenset(out) if out else None
    init = frozenset([(frozenset([xn]), frozenset(), False, 'unknown', frozenset())])
    _, ev_in = forward(g, init, transfer, lambda a, b: a | b, edge=edge)
    S = ev_in.get((site['_b'], site['_i']))
    if S is None:
        return 'unreachable', 'the call cannot be reached'
    need = frozenset(range(n))
    bad = [c for c in S if not (c[2] or c[3] == 'none' or need <= c[1])]
    where = '%s->%s' % (xn, '.'.join(path))
    if bad:
        c = bad[0]
        return None, 'on some path to free(%s) only the descriptors %s of %s were closed, the block may hold a pair (%s) and the path does ' \
                     'not exclude the mode in which it is acquired (%s)' \
            % (xn, sorted(c[1]) or 'none', where, c[3] if isinstance(c[3], str) else c[3][0],
               ', '.join('%s %s %s' % (a[1], a[0], a[2]) for a in sorted(guards)) or 'always')
    how = sorted({'mode off' if c[2] else 'nothing acquired' if c[3] == 'none' else 'closed' for c in S})
    return '/'.join(how), 'every path to free(%s): %s[0..%d] closed, or the mode (%s) is off, or the block is fresh and its pair was not ' \
                          'acquired [%s]' % (xn, where, n - 1, ', '.join('%s %s %s' % (a[1], a[0], a[2]) for a in sorted(guards)) or 'none',
                                             '/'.join(how))


def owned_descriptors(ctx):
    prog = ctx.prog
    blocks = descriptor_blocks(prog)
    if not blocks:
        raise AnalysisBroken('no heap block receives descriptors from pipe()/pipe2()')
    for (rec, path), (guards, acqs) in sorted(blocks.items()):
        def is_site(e, rec=rec):
            if e['ev'] != 'call' or e.get('callee') not in h18.FREE or not e.get('args'):
                return False
            a = strip(e['args'][0])
            return isinstance(a, dict) and a.get('k') == 'var' and a.get('record') == rec and a.get('ptr')

        def collect(V, events, context=False, is_site=is_site):
            out = {}
            for e in events:
                if is_site(e):
                    out.setdefault(e['loc'], []).append(e)
            return out
        owners = roles.functions_with(prog, is_site)
        if not owners:
            ctx.ob('R-C18j.fd', '%s.%s:never freed' % (rec, '.'.join(path)), False, loc=acqs[0][1]['loc'],
                   detail='blocks of this type receive a descriptor pair but no free() of such a block exists')
            continue
        for f in owners:
            res = h18.site_verdict(prog, f, collect, lambda V, s, rec=rec, path=path, guards=guards: _closed_before_free(prog, V, s, rec, path, guards))
            for loc, (site, proof, det, kind) in sorted(res.items(), key=lambda kv: h18._locpos(kv[0])):
                ctx.ob('R-C18j.fd', '%s.%s:free in %s' % (rec, '.'.join(path), f.name), bool(proof), loc=loc,
                       detail='%s (%s)' % (det, kind), fn=f.q)


# --------------------------------------------------------------------------
# R-C18m: a block is passed to free only with every loop object embedded in it unregistered
# --------------------------------------------------------------------------

ONE_SHOT_KINDS = ('iv_timer_', 'iv_task_')      # the runner takes these out of its structures before it calls the handler (C01 one_shot)
LIST_ADDS = ('iv_list_add', 'iv_list_add_tail')
LIST_DELS = ('iv_list_del', 'iv_list_del_init')


def _kind_api(prog):
    """{record name of a loop-object kind (private and public spelling): (register functions, unregister functions,
    one-shot?)} -- the exported register/unregister pairs of generic.OBJECT_KINDS"""
    out = {}
    for K in generic.OBJECT_KINDS:
        regs = [r for r in K['reg'] if 'register' in r and prog.has_fn(r)]
        unregs = sorted({r[:r.index('register')] + 'unregister' for r in regs})
        unregs = [u for u in unregs if prog.has_fn(u)]
        if not regs or not unregs:
            continue
        v = (tuple(regs), tuple(unregs), K['rec'] in ONE_SHOT_KINDS)
        out[K['rec']] = v
        if K['rec'].endswith('_'):
            out[K['rec'][:-1]] = v
    return out


def _registry_records(prog, api):
    """records into whose own fields a register function of some kind writes (the per-thread state: counters, lists,
    trees of registered objects): an object registered there and embedded in that very block goes with the block"""
    out = set()
    inl = Inliner(prog, stop=lambda t: not t.static)
    for names in {v[0] for v in api.values()}:
        for n in names:
            try:
                g = inl.inline(prog.fn(n))
            except AnalysisBroken:
                continue
            for e in g.events():
                if e['ev'] == 'store':
                    lm = last_member(e['lhs'])
                    if lm and lm[0] not in api and not str(lm[0]).startswith('<anon'):
                        out.add(lm[0])
    return out


class _Emb(object):
    """typestate of one embedded member (rec.fld, of kind api entry K) in one function g (static helpers inlined)"""

    def __init__(self, prog, g, rec, fld, K, handlers):
        self.prog, self.g, self.rec, self.fld, self.K = prog, g, rec, fld, K
        self.al = _copy_aliases(g)
        self.handlers = handlers
        self.int_regs = {n for n in K[0] if prog.has_fn(n) and str(prog.fn(n).ret).strip() != 'void'}

    def an(self, x):
        al = self.al

        def fn(n):
            if '_was' in n:      # an access path that copy propagation put in the place of the read of a caching local
                return al.get(n['_was']) or {'k': 'var', 'vk': 'local', 'name': n['_was']}
            return al.get(n['name']) if n.get('k') == 'var' and n.get('name') in al else None
        return canon(subst(h18.deref_norm(None, x), fn))

    def resolve(self, x):
        """x with single-definition locals of g followed (value at the time of that one assignment)"""
        defs = self.__dict__.get('_defs')
        if defs is None:
            defs = {}
            for e in self.g.events():
                if e['ev'] == 'store' and isinstance(strip(e['lhs']), dict) and strip(e['lhs']).get('k') == 'var':
                    defs.setdefault(strip(e['lhs'])['name'], []).append(e)
            self._defs = defs
        x = strip(strip_load(strip(x))) if isinstance(x, dict) else x
        for _ in range(6):
            if not (isinstance(x, dict) and x.get('k') == 'var' and x.get('vk') in ('local', 'param')):
                break
            ds = defs.get(x['name'], [])
            if len(ds) != 1 or ds[0].get('op') != '=' or 'rhs' not in ds[0]:
                break
            r = strip(strip_load(strip(ds[0]['rhs'])))
            while isinstance(r, dict) and r.get('k') == 'cast':
                r = strip(strip_load(strip(r['e'])))
            if not (isinstance(r, dict) and r.get('k') in ('var', 'addr')):
                break
            x = r
        return x

    def member_addr(self, x):
        """(record, field, normalised base) when the pointer value x is `&B->field`"""
        x = self.resolve(x)
        while isinstance(x, dict) and x.get('k') == 'cast':
            x = strip(strip_load(strip(x['e'])))
        if isinstance(x, dict) and x.get('k') == 'addr':
            m = strip(h18.deref_norm(None, x['e']))
            if isinstance(m, dict) and m.get('k') == 'member' and last_member(m):
                return last_member(m) + (self.an(m['base']) if m.get('arrow') else '&' + self.an(m['base']),)
        return None

    def field_of(self, x):
        m = strip(strip_load(strip(h18.deref_norm(None, x)))) if isinstance(x, dict) else x
        if isinstance(m, dict) and m.get('k') == 'member' and last_member(m):
            return last_member(m) + (self.an(m['base']) if m.get('arrow') else '&' + self.an(m['base']),)
        return None

    def is_member(self, e, names, base):
        if e['ev'] not in ('call', 'enter') or e.get('callee') not in names or not e.get('args'):
            return False
        ma = self.member_addr(e['args'][0])
        return ma is not None and ma[0] == self.rec and ma[1] == self.fld and (base is None or ma[2] == base)

    def own_handler(self, base):
        """g is the handler installed in this one-shot member and `base` is its cookie argument: the runner has taken the
        member out of its structures before the call"""
        params = {p_['name'] for p_ in self.g.params if p_.get('name')}
        return bool(self.K[2] and self.g.q in self.handlers and base in params)

    def states(self, base, guards=(), trust_own=True):
        """{point: 'U' | 'R' | ('T', holder) | '?'} for the member of the block `base` (normalised spelling)"""
        g, K = self.g, self.K
        init = 'U' if (trust_own and self.own_handler(base)) else '?'

        def tr(e, s):
            if e['ev'] == 'store' and e.get('op') == '=' and 'rhs' in e:
                l = strip(e['lhs'])
                r = strip(e['rhs'])
                while isinstance(r, dict) and r.get('k') in ('cast', 'load', 'paren') and isinstance(r.get('e'), dict):
                    r = strip(r['e'])
                if isinstance(l, dict) and l.get('k') == 'var' and self.an(l) == base and isinstance(r, dict) and r.get('k') == 'call' \
                        and r.get('callee') in MEM_PRIMS:
                    return 'U'      # a fresh block: nothing in it was ever registered
                if isinstance(s, tuple) and s[1] is None and isinstance(r, dict) and r.get('k') == 'call' and r.get('callee') in K[0] \
                        and isinstance(l, dict) and l.get('k') == 'var':
                    return ('T', l['name'])
                return s
            if self.is_member(e, K[1], base):
                return 'U'
            if self.is_member(e, K[0], base):
                return ('T', None) if (e.get('callee') in self.int_regs and e.get('used')) else 'R'
            return s

        def edge(blk, si, s):
            if not (blk.term and blk.term.get('cond') is not None and len(blk.succ) == 2):
                return s
            cv = _intval(blk.term['cond'])
            if cv is not None and bool(cv) != (si == 0):
                return None     # a condition that is a constant in this calling context: the other edge is never taken
            if s == 'U':
                return s
            for (op, a, b, l, r) in norm_cond(blk.term['cond'], si == 0):
                if op == 'const':
                    continue
                if isinstance(s, tuple):
                    lc = strip(l) if isinstance(l, dict) else None
                    direct = isinstance(lc, dict) and lc.get('k') == 'call' and lc.get('callee') in K[0]
                    if (a == s[1] or direct) and ((op == '<' and b == '0') or (op == '==' and b == '-1') or (op == '<=' and b == '-1')):
                        return 'U'      # the registration failed: the object is not registered
                for G in guards:
                    if G[0] == 'eq' and isinstance(l, dict):
                        fo = self.field_of(l)
                        if fo is None and s == '?':
                            # a local that cached the field (one definition); the member was not registered by this activation
                            # since, so what the field held then still decides
                            lv = strip(strip_load(strip(l)))
                            if isinstance(lv, dict) and lv.get('k') == 'var' and lv.get('vk') == 'local':
                                self.resolve(lv)
                                ds = self._defs.get(lv['name'], [])
                                if len(ds) == 1 and ds[0].get('op') == '=' and 'rhs' in ds[0]:
                                    fo = self.field_of(ds[0]['rhs'])
                        if fo is not None and fo == (self.rec, G[1], base) and ((op == '!=' and b == G[2]) or (op == '==' and b != G[2] and _is_const_text(b))):
                            return 'U'
                    if G[0] == 'linked' and list_empty_test((op, a, b, l, r)) == 'empty':
                        ma = self.member_addr(strip(l)['args'][0])
                        if ma is not None and ma == (self.rec, G[1], base):
                            return 'U'
            return s

        def jn(a, b):
            if a == b:
                return a
            return 'R' if ('R' in (a, b) or isinstance(a, tuple) or isinstance(b, tuple)) else '?'
        # the typestate is kept apart per sign class of the plain locals that carry a helper's result to the caller's test
        # (`return -1` after the failed registration / `return fd` after the successful one; `if (fd < 0) free(B)`): a
        # disjunct is (typestate, {(local, 'neg' | 'nonneg')})
        pipes = set()
        for e in g.events():
            if e['ev'] in ('call', 'enter') and e.get('callee') in ('pipe', 'pipe2') and e.get('args'):
                pipes.add(self.an(self.resolve(e['args'][0])))

        def cls_of(r, env):
            r = strip(strip_load(strip(r))) if isinstance(r, dict) else r
            while isinstance(r, dict) and r.get('k') in ('cast', 'paren') and isinstance(r.get('e'), dict):
                r = strip(strip_load(strip(r['e'])))
            if not isinstance(r, dict):
                return None
            if r.get('k') == 'int':
                return 'neg' if r['v'] < 0 else 'nonneg'
            if r.get('k') == 'un' and r.get('op') == '-' and _intval(r.get('e')) is not None:
                return 'neg' if _intval(r['e']) > 0 else 'nonneg'
            if r.get('k') == 'var':
                return dict(env).get(r['name'])
            if r.get('k') == 'index' and isinstance(r.get('base'), dict):
                names = {self.an(self.resolve(r['base']))}
                bv = strip(strip_load(strip(r['base'])))
                if isinstance(bv, dict) and bv.get('k') == 'var':
                    ds = self._defs.get(bv['name'], [])
                    if len(ds) == 1 and ds[0].get('op') == '=' and 'rhs' in ds[0]:
                        names.add(self.an(ds[0]['rhs']))      # `int *pair = info->data_pipe` (one definition)
                if names & pipes:
                    return 'nonneg'      # a descriptor the kernel handed out
            return None

        def trD(e, S):
            out = set()
            for (ts, env) in S:
                ts2 = tr(e, ts)
                if e['ev'] == 'store' and isinstance(strip(e['lhs']), dict) and strip(e['lhs']).get('k') == 'var':
                    n = strip(e['lhs'])['name']
                    c = cls_of(e['rhs'], env) if (e.get('op') == '=' and 'rhs' in e) else None
                    env = frozenset(x for x in env if x[0] != n) | ({(n, c)} if c else frozenset())
                out.add((ts2, env))
            return frozenset(out)

        def edgeD(blk, si, S):
            out = set()
            atoms = []
            if blk.term and blk.term.get('cond') is not None and len(blk.succ) == 2:
                atoms = [x for x in norm_cond(blk.term['cond'], si == 0) if x[0] != 'const']
            for (ts, env) in S:
                ts2 = edge(blk, si, ts)
                if ts2 is None:
                    continue
                d = dict(env)
                dead = False
                for (op, a_, b_, _, _) in atoms:
                    c = d.get(a_)
                    if c == 'nonneg' and ((op == '<' and b_ == '0') or (op in ('==', '<=') and b_ == '-1')):
                        dead = True
                    if c == 'neg' and ((op == '>=' and b_ == '0') or (op == '>' and b_ == '-1')):
                        dead = True
                if not dead:
                    out.add((ts2, env))
            return frozenset(out) if out else None

        def jnD(A, B):
            U_ = A | B
            if len(U_) > 24:
                t = None
                for (ts, _) in U_:
                    t = ts if t is None else jn(t, ts)
                return frozenset({(t, frozenset())})
            return U_
        _, evD = forward(g, frozenset({(init, frozenset())}), trD, jnD, edge=edgeD)
        ev_in = {}
        for pt, S in evD.items():
            t = None
            for (ts, _) in S:
                t = ts if t is None else jn(t, ts)
            ev_in[pt] = t
        return ev_in

    def facts(self, init=frozenset()):
        """{point: frozenset of (base, 'eq', field, const text) / (base, 'linked', field)}: what this activation has
        established about fields of blocks of the record (must, forward)"""
        rec = self.rec

        def tr(e, s):
            if s is None:
                return None
            if e['ev'] == 'store':
                fo = self.field_of(e['lhs'])
                if fo is not None and fo[0] == rec:
                    s = frozenset(x for x in s if not (x[1] == 'eq' and x[2] == fo[1]))
                    if e.get('op') == '=' and 'rhs' in e and _const_text(e['rhs']) is not None:
                        s = s | {(fo[2], 'eq', fo[1], _const_text(e['rhs']))}
                return s
            if e['ev'] in ('call', 'enter') and e.get('callee') in LIST_ADDS + LIST_DELS and e.get('args'):
                ma = self.member_addr(e['args'][0])
                if ma is not None and ma[0] == rec:
                    s = frozenset(x for x in s if not (x[1] == 'linked' and x[2] == ma[1]))
                    if e['callee'] in LIST_ADDS:
                        s = s | {(ma[2], 'linked', ma[1])}
            return s

        def jn(a, b):
            if a is None:
                return b
            if b is None:
                return a
            return a & b
        _, ev_in = forward(self.g, init, tr, jn)
        return ev_in


def _const_text(x):
    x = strip(x)
    while isinstance(x, dict) and x.get('k') in ('cast', 'paren') and isinstance(x.get('e'), dict):
        x = strip(x['e'])
    if isinstance(x, dict) and x.get('k') == 'null':
        return '0'
    if isinstance(x, dict) and x.get('k') == 'int':
        return str(x['v'])
    return None


def _is_const_text(b):
    return bool(re.match(r'^-?\d+$', str(b)))


def embedded_members(ctx):
    prog = ctx.prog
    api = _kind_api(prog)
    if not api:
        raise AnalysisBroken('no register/unregister pair of a loop-object kind found')
    registry = _registry_records(prog, api)
    emb = {}
    for rn, r in prog.records.items():
        ms = [(f_['name'], f_['record']) for f_ in r.get('fields', []) if f_.get('record') in api and not f_.get('ptr')]
        if ms:
            emb[rn] = ms
    inl = Inliner(prog, stop=lambda t: not t.static)
    rts = {r.q: r for r in roles.roots(prog)}
    cache = {}

    def rooted(f):
        """the functions f is analysed in: itself when it is an entry point (exported / address taken), else every
        entry point that reaches it by direct calls; static helpers inlined"""
        qs = [f.q] if f.q in rts else sorted(c.q for c in roles.callers_closure(prog, f) if c.q in rts)
        out = []
        for q in qs:
            if q not in cache:
                try:
                    cache[q] = inl.inline(rts[q])
                except AnalysisBroken:
                    cache[q] = None
            if cache[q] is not None:
                out.append(cache[q])
        return out

    def arg_record(e):
        a = strip(strip_load(strip(e['args'][0]))) if e.get('args') else None
        if isinstance(a, dict) and a.get('ptr') and a.get('record') in emb and a.get('k') in ('var', 'member'):
            return a['record']
        return None

    # handlers installed into the embedded member: `B->fld.handler = fn`
    handlers = {}
    for f in prog.all_funcs():
        E0 = None
        for e in f.events():
            if e['ev'] == 'store' and e.get('op') == '=' and 'rhs' in e:
                l = strip(e['lhs'])
                r = strip(e['rhs'])
                if isinstance(l, dict) and l.get('k') == 'member' and isinstance(r, dict) and r.get('k') == 'var' and r.get('vk') == 'func':
                    lm = last_member(l)
                    if not (lm and lm[1] == 'handler' and lm[0] in api and isinstance(l.get('base'), dict)):
                        continue
                    if l.get('arrow'):
                        # through a pointer to the member (`t = &B->fld; t->handler = fn`, one definition)
                        E0 = E0 or _Emb(prog, f, None, None, ((), (), False), ())
                        ma = E0.member_addr(l['base'])
                        bm = ma[:2] if ma is not None else None
                    else:
                        bm = last_member(l['base'])
                    if bm and bm[0] in emb:
                        t = prog.resolve(prog.unit_of(f), r['name'])
                        if t is not None:
                            handlers.setdefault(tuple(bm), set()).add(t.q)

    owners = [f for f in prog.all_funcs() if f.blocks and any(e['ev'] == 'call' and e.get('callee') == 'free' and arg_record(e) for e in f.events())]
    guards_memo = {}

    def guards_of(rec, fld, K):
        """facts about the block that hold at every registration of the member and that nothing in sight undoes while
        the member may be registered: a path on which such a fact is found false has the member unregistered"""
        k = (rec, fld)
        if k in guards_memo:
            return guards_memo[k]
        guards_memo[k] = ()
        cand = None
        fs = [f for f in prog.all_funcs() if f.blocks]
        # pass 0: registrations outside the member's own handler; pass 1: the handler re-arming its own member -- it cannot be
        # the first registration, the fact held when the member was registered before and is undone by others only with the
        # member explicitly unregistered (which cancels the pending handler call), so it holds at the handler's entry; it
        # must not have been undone by this activation before the re-registration
        for rearm in (False, True):
            for f in fs:
                if not any(e['ev'] == 'call' and e.get('callee') in K[0] for e in f.events()):
                    continue
                for g in rooted(f):
                    E = _Emb(prog, g, rec, fld, K, handlers.get(k, ()))
                    F = None
                    for e in g.events():
                        if E.is_member(e, K[0], None):
                            base = E.member_addr(e['args'][0])[2]
                            if E.own_handler(base) != rearm:
                                continue
                            if rearm and not cand:
                                continue
                            F = F if F is not None else E.facts(frozenset((base,) + G for G in cand) if rearm else frozenset())
                            here = {x[1:] for x in (F.get((e['_b'], e['_i'])) or ()) if x[0] == base}
                            cand = here if cand is None else (cand & here)
        out = []
        for G in sorted(cand or ()):
            ok = True
            for f in fs:
                for g in rooted(f) if any(_falsifies(None, e, rec, G) for e in f.events()) else ():
                    E = _Emb(prog, g, rec, fld, K, handlers.get(k, ()))
                    for e in g.events():
                        base = _falsifies(E, e, rec, G)
                        if not base:
                            continue
                        S = E.states(base)
                        if S.get((e['_b'], e['_i'])) == 'U':
                            continue
                        after = must_pass(g, lambda x: E.is_member(x, K[1], base), start_event=e)
                        pts = [(pb, pi) for (pb, pi, _) in exits_of(g)] + [(g.exit, 0)]
                        if not all(after.get(p) for p in pts if p in after):
                            ok = False
            if ok:
                out.append(G)
        guards_memo[k] = tuple(out)
        return guards_memo[k]

    done, detail = {}, {}
    for f in sorted(owners, key=lambda f: f.q):
        for g in rooted(f):
            for e in g.events():
                if not (e['ev'] == 'call' and e.get('callee') == 'free'):
                    continue
                rec = arg_record(e)
                if rec is None or rec in registry:
                    continue
                for (fld, krec) in emb[rec]:
                    K = api[krec]
                    E = _Emb(prog, g, rec, fld, K, handlers.get((rec, fld), ()))
                    base = E.an(e['args'][0])
                    gs = guards_of(rec, fld, K)
                    S = E.states(base, gs)
                    s = S.get((e['_b'], e['_i']))
                    if s is None:
                        continue        # not reachable in this context
                    k = (e.get('fn') or f.q, e['loc'], rec, fld)
                    done[k] = done.get(k, True) and s == 'U'
                    if s != 'U':
                        detail[k] = 'in %s the member is %s here' % (g.name, {'R': 'registered', '?': 'not known to be unregistered'}.get(s, 'registered unless the call failed'))
                    detail.setdefault((rec, fld), gs)
    for k in sorted(done, key=lambda k: (str(k[0]), h18._locpos(k[1]), k[3])):
        fnq, loc, rec, fld = k
        gs = detail.get((rec, fld), ())
        ctx.ob('R-C18m', '%s:free(%s):%s unregistered' % (str(fnq).split(':')[-1], rec, fld), done[k], loc=loc,
               detail='on every path to this free, in every entry point that reaches it, %s.%s was unregistered since it was last registered, or '
                      'the block is fresh from malloc with the member never (successfully) registered, or the activation is the one-shot '
                      'member\'s own handler, or a fact that holds at every registration of the member and is only undone with the member '
                      'unregistered is found false (%s); %s' % (rec, fld, ', '.join('%s %s' % (G[0], G[1]) for G in gs) or 'no such fact', detail.get(k, 'holds')),
               fn=fnq)


def _falsifies(E, e, rec, G):
    """base (normalised spelling; True without E) of the block whose guard fact G this event may undo"""
    if G[0] == 'eq' and e['ev'] == 'store':
        lm = last_member(e['lhs'])
        if lm and lm[0] == rec and lm[1] == G[1] and not (e.get('op') == '=' and 'rhs' in e and _const_text(e['rhs']) == G[2]):
            if E is None:
                return True
            fo = E.field_of(e['lhs'])
            return fo[2] if fo is not None else None
    if G[0] == 'linked' and e['ev'] in ('call', 'enter') and e.get('callee') in LIST_DELS and e.get('args'):
        if E is None:
            a = strip(e['args'][0])
            a = strip(a['e']) if isinstance(a, dict) and a.get('k') == 'addr' else None
            lm = last_member(a) if isinstance(a, dict) else None
            return bool(lm and lm[0] == rec and lm[1] == G[1]) or (a is None)
        ma = E.member_addr(e['args'][0])
        if ma is not None and ma[0] == rec and ma[1] == G[1]:
            return ma[2]
    return None
