"""Helpers of the C01 rules: value/alias resolution that makes the rules independent of how the
source spells an object, a list node or an array (local caching a pointer, helper split, operand order).

Nothing in here knows an ivykis function or variable name; everything is derived from types
((record, field) of member steps), from definitions of locals, or from roles."""
import os

from ..core import (Inliner, AnalysisBroken, subst, partition_flags, copy_propagate, _partition_one, _is_boolean_expr, strip, strip_load, canon, walk, last_member, lvalue_steps, forward, PURE_CALLS, _keys_read)
from ..analyses import aval, callback_kind, CALLBACK_FIELDS
from .. import roles

# public view of a record and the private view the library works on: one object kind
TWIN = {'iv_fd': 'iv_fd_', 'iv_task': 'iv_task_', 'iv_timer': 'iv_timer_'}

LIST_DEL = ('iv_list_del', 'iv_list_del_init')
LIST_ADD = ('iv_list_add', 'iv_list_add_tail')


def norm_rec(r):
    return TWIN.get(r, r)


def is_localvar(x):
    return isinstance(x, dict) and x.get('k') == 'var' and x.get('vk') in ('local', 'param')


def var_names(e):
    """names of the local variables known to hold the value of e: e itself when it is a variable, and
    the local whose read copy propagation replaced by e"""
    out = set()
    x = e
    while isinstance(x, dict):
        if '_was' in x:
            out.add(x['_was'])
        if x.get('k') in ('load', 'cast', 'paren', 'stmtexpr') and isinstance(x.get('e'), dict):
            x = x['e']
        else:
            break
    if is_localvar(x):
        out.add(x['name'])
    return out


def const_of(e):
    v = aval(e, {}) if e is not None else '?'
    return v[1] if isinstance(v, tuple) else None


# --------------------------------------------------------------------------
# definitions of locals (flow-insensitive)
# --------------------------------------------------------------------------

def _cache_get(g, name):
    """per-graph cache; Inliner.inline() shallow-copies the Func it starts from, attributes included, so an
    entry is only valid for the very object (and block table) it was computed on"""
    c = g.__dict__.get(name)
    if c is not None and c[0] is g and c[1] is g.blocks:
        return c[2]
    return None


def _cache_put(g, name, val):
    g.__dict__[name] = (g, g.blocks, val)
    return val


def local_defs(g):
    """{local name: [rhs expression | None (not a plain assignment)]} over all stores of g (cached on g)"""
    d = _cache_get(g, '_h01_defs')
    if d is None:
        d = {}
        for e in g.events():
            if e['ev'] == 'store':
                l = strip(e['lhs'])
                if isinstance(l, dict) and l.get('k') == 'var' and l.get('vk') in ('local', 'param'):
                    d.setdefault(l['name'], []).append(e['rhs'] if e.get('op') == '=' and 'rhs' in e else None)
        _cache_put(g, '_h01_defs', d)
    return d


def member_of_ptr(g, x, depth=4):
    """(record, field) of the member the pointer expression x designates: `&o->f`, or a local all of
    whose definitions are such an address of the same member (`node = &ev->list; iv_list_del(node)`)."""
    x = strip(x)
    if not isinstance(x, dict):
        return None
    if x.get('k') == 'addr':
        return last_member(x['e'])
    if is_localvar(x) and depth > 0 and g is not None:
        ds = local_defs(g).get(x['name'])
        if not ds or any(r is None for r in ds):
            return None
        keys = {member_of_ptr(g, r, depth - 1) for r in ds}
        if len(keys) == 1:
            return keys.pop()
    return None


def arg_member(g, e, i=0):
    a = e['args'][i] if len(e.get('args', [])) > i else None
    return member_of_ptr(g, a) if a is not None else None


# --------------------------------------------------------------------------
# what a pointer value designates, across helper boundaries
# --------------------------------------------------------------------------

def _param_index(f, name):
    for i, p in enumerate(f.params):
        if p['name'] == name:
            return i
    return None


def _call_sites(prog, f):
    """[(caller, call event)] of the direct calls of f"""
    out = []
    for (c, e) in prog.callers_of(f.name):
        u = prog.unit_of(c)
        t = prog.resolve(u, e['callee']) if u else None
        if t is None or t.q == f.q:
            out.append((c, e))
    return out


def value_records(prog, f, x, kinds, depth=3):
    """Object kinds (records of `kinds`, public twins normalised) the pointer value x may designate in f: by its
    static type (variable, member, iv_container_of); for an untyped (`void *`) local or parameter by what flows
    into it: the definitions of the local, and for a parameter of a static helper the arguments of every caller."""
    y = x
    while isinstance(y, dict) and y.get('k') in ('load', 'cast', 'stmtexpr') and 'e' in y:
        # pointer arithmetic cast to an object type (`(T *)((char *)node - offsetof(T, m))`): a T by its type
        if y.get('k') == 'cast' and y.get('record') in kinds and str(y.get('to', '')).rstrip().endswith('*') \
                and isinstance(strip(y['e']), dict) and strip(y['e']).get('k') == 'bin':
            return {norm_rec(y['record'])}
        y = y['e']
    x = strip(x)
    if not isinstance(x, dict):
        return set()
    k = x.get('k')
    if k == 'var':
        if x.get('ptr') and x.get('record'):
            return {norm_rec(x['record'])} if x['record'] in kinds else set()
        if x.get('vk') in ('local', 'param') and depth > 0 and '*' in str(x.get('type', '*')) and not x.get('record'):
            out = set()
            for r in local_defs(f).get(x['name'], []):
                if r is not None:
                    out |= value_records(prog, f, r, kinds, depth - 1)
            i = _param_index(f, x['name']) if x.get('vk') == 'param' else None
            if i is not None and f.static:
                for (c, e) in _call_sites(prog, f):
                    if len(e.get('args', [])) > i:
                        out |= value_records(prog, c, e['args'][i], kinds, depth - 1)
            return out
        return set()
    if k == 'member':
        return {norm_rec(x['trecord'])} if x.get('tptr') and x.get('trecord') in kinds else set()
    if k == 'container_of':
        return {norm_rec(x['record'])} if x.get('record') in kinds else set()
    if k == 'cond':
        return value_records(prog, f, x['a'], kinds, depth) | value_records(prog, f, x['b'], kinds, depth)
    return set()


def points_to_local(prog, f, p, depth=3):
    """the pointer p of f always designates a local variable of an active function (an out-parameter: `&v` at
    every call site of the static helper, or a local only ever assigned such an address): a store through it
    does not outlive the call chain"""
    p = strip(p)
    if not isinstance(p, dict):
        return False
    if p.get('k') == 'addr':
        v = strip(p['e'])
        while isinstance(v, dict) and v.get('k') in ('member', 'index') and not v.get('arrow'):
            v = strip(v['base'])       # &local.field, &local[i]
        return isinstance(v, dict) and v.get('k') == 'var' and v.get('vk') in ('local', 'param')
    if not is_localvar(p) or depth <= 0:
        return False
    ds = local_defs(f).get(p['name'], [])
    if any(r is None or not points_to_local(prog, f, r, depth - 1) for r in ds):
        return False
    if p.get('vk') == 'param' and _param_index(f, p['name']) is not None:
        if not f.static or f.q in roles.address_taken(prog):
            return False
        sites = _call_sites(prog, f)
        i = _param_index(f, p['name'])
        return bool(sites) and all(len(e.get('args', [])) > i and points_to_local(prog, c, e['args'][i], depth - 1) for (c, e) in sites)
    return bool(ds)


def pointee_lvalue(prog, f, p, depth=3):
    """The member lvalue `X->m` / `X.m` that the pointer p of f always designates: p is `&X->m`, a local all of whose
    definitions are addresses of one and the same member (`slot = &st->marker`), or a parameter of a static helper
    that is given such an address at every call site.  None for anything else (an array / heap slot, a pointer that is
    stepped, a pointer read from memory): `*p = v` then is a store into that member, whatever p is called."""
    y = strip(p)
    if not isinstance(y, dict):
        return None
    if y.get('k') == 'addr':
        z = strip_load(y['e'])
        return z if isinstance(z, dict) and z.get('k') == 'member' else None
    if not is_localvar(y) or depth <= 0:
        return None
    cands = []
    for r in local_defs(f).get(y['name'], []):
        t = pointee_lvalue(prog, f, r, depth - 1) if r is not None else None
        if t is None:
            return None
        cands.append(t)
    i = _param_index(f, y['name']) if y.get('vk') == 'param' else None
    if i is not None:
        if not f.static or f.q in roles.address_taken(prog):
            return None
        sites = _call_sites(prog, f)
        if not sites:
            return None
        for (c, e) in sites:
            t = pointee_lvalue(prog, c, e['args'][i], depth - 1) if len(e.get('args', [])) > i else None
            if t is None:
                return None
            cands.append(t)
    if not cands or len({last_member(t) for t in cands}) != 1:
        return None
    return cands[0]


# --------------------------------------------------------------------------
# open-coded iv_container_of
# --------------------------------------------------------------------------

def _pointee_record(p):
    y = strip(p)
    if isinstance(y, dict):
        if y.get('k') == 'var' and y.get('ptr'):
            return y.get('record')
        if y.get('k') == 'member' and y.get('tptr'):
            return y.get('trecord')
        if y.get('k') == 'addr':
            z = strip(y['e'])
            if isinstance(z, dict) and z.get('k') == 'member' and not z.get('tptr'):
                return z.get('trecord')
            if isinstance(z, dict) and z.get('k') == 'var' and not z.get('ptr'):
                return z.get('record')
    return None


def as_container_of(x, records):
    """`(T *)((char *)P - C)` where C is the offset of a member m of T that has the type P points to (the expansion of
    offsetof(T, m) is folded to C): the node iv_container_of(P, T, m) builds, or None.  Decided from the record layout,
    not from the spelling."""
    if not (isinstance(x, dict) and x.get('k') == 'cast' and x.get('record') in records
            and str(x.get('to', '')).rstrip().endswith('*')):
        return None
    b = strip(x['e'])
    if not (isinstance(b, dict) and b.get('k') == 'bin' and b.get('op') == '-'):
        return None
    c = const_of(b['r'])
    if c is None or c < 0:
        return None
    P = b['l']
    while isinstance(P, dict) and P.get('k') == 'cast' and 'e' in P:
        P = P['e']
    if not isinstance(P, dict) or const_of(P) is not None:
        return None
    prec = _pointee_record(P)
    flds = [fl for fl in records[x['record']].get('fields', []) if fl.get('offset') == c and fl.get('record') and not fl.get('ptr')]
    if prec is not None:
        flds = [fl for fl in flds if fl['record'] == prec]
    if len(flds) != 1:
        return None
    return {'k': 'container_of', 'record': x['record'], 'member': flds[0]['name'], 'e': P}


def _lift_container_of(g, records):
    """rewrite every open-coded iv_container_of of g (events and branch conditions) into the node the macro gives"""
    def r_(nd):
        if nd.get('k') == 'cast' and nd.get('record'):
            c = as_container_of(nd, records)
            if c is not None:
                return dict(c, e=subst(c['e'], r_))
        return None

    def has(v):
        return any(y.get('k') == 'cast' and y.get('record') and isinstance(strip(y.get('e')), dict)
                   and strip(y['e']).get('k') == 'bin' for y in walk(v))
    n = 0
    for b, blk in g.blocks.items():
        out = []
        for e in blk.events:
            if has(e):
                e2 = {}
                for k_, v in e.items():
                    e2[k_] = subst(v, r_) if isinstance(v, (dict, list)) and k_ != 'chain' else v
                if e2 != e:
                    n += 1
                e = e2
            out.append(e)
        blk.events = out
        if blk.term and blk.term.get('cond') is not None and has(blk.term['cond']):
            blk.term = dict(blk.term, cond=subst(blk.term['cond'], r_))
    return n


# --------------------------------------------------------------------------
# locals that cache a field
# --------------------------------------------------------------------------

LIST_PRIMITIVES = ('iv_list_del', 'iv_list_del_init', 'iv_list_add', 'iv_list_add_tail', 'INIT_IV_LIST_HEAD',
                   '__iv_list_steal_elements', 'iv_list_splice', 'iv_list_splice_tail', 'iv_list_splice_init',
                   'iv_list_splice_tail_init')


def field_caches(g):
    """Forward must-analysis: facts (x, (record, field), bases) = "the local x holds the value that the field
    record.field of the object held in the locals `bases` has *now*".  Generated by `x = O->f` (and copies of such a
    local); killed by a definition of x or of a base, by a store to that field through any pointer (may alias), by a
    store through a bare pointer, by a user callback, a lock operation (the field may be shared) or any call that is
    not known to leave object fields alone; a list primitive only writes iv_list_head fields.
    Returns the event_in map ((block, len(events)) is the state at the branch)."""
    c = _cache_get(g, '_h01_fc')
    if c is not None:
        return c

    def drop_var(S, x):
        return frozenset(f for f in S if f[0] != x and x not in f[2])

    def tr(e, S):
        ev = e['ev']
        if ev == 'decl':
            return drop_var(S, e['name']) if S else S
        if ev == 'store':
            l = strip(e['lhs'])
            if isinstance(l, dict) and l.get('k') == 'var':
                x = l['name']
                S0 = S
                S = drop_var(S, x)
                if e.get('op') != '=' or 'rhs' not in e or l.get('vk') not in ('local', 'param'):
                    return S
                r = strip(e['rhs'])
                if isinstance(r, dict) and r.get('k') == 'member' and not any(y.get('k') in ('call', 'assign', 'incdec') for y in walk(r)):
                    bases = frozenset(base_var_names(r))
                    if x not in bases and not any(y.get('k') in ('deref', 'index') for y in walk(r)):
                        S = S | {(x, (r.get('record'), r['field']), bases)}
                elif is_localvar(r) and r['name'] != x:
                    S = S | frozenset((x, f[1], f[2]) for f in S0 if f[0] == r['name'] and x not in f[2])
                return S
            if not S:
                return S
            kills = set(lvalue_steps(e['lhs']))
            lm = last_member(e['lhs'])
            if lm:
                kills.add(lm)
            if not kills:
                return frozenset()          # *p = v, a[i] = v: may be any field
            return frozenset(f for f in S if f[1] not in kills)
        if ev == 'call':
            if not S:
                return S
            if 'fnexpr' in e:
                return frozenset()
            nm = e.get('callee')
            if nm in LIST_PRIMITIVES:
                S = frozenset(f for f in S if f[1][0] != 'iv_list_head')
            elif nm not in PURE_CALLS and nm not in ('free', 'close', 'abort'):
                return frozenset()
            for a in e.get('args', []):
                a = strip(a)
                if isinstance(a, dict) and a.get('k') == 'addr':
                    v = strip(a['e'])
                    if isinstance(v, dict) and v.get('k') == 'var':
                        S = drop_var(S, v['name'])
            return S
        return S
    _, ev_in = forward(g, frozenset(), tr, lambda a, b: a & b)
    return _cache_put(g, '_h01_fc', ev_in)


def field_of(g, blk, x):
    """((record, field), base locals) of the object field whose current value the operand x of blk's branch condition
    is: a read of the field, or a local that caches it (field_caches); (None, set()) otherwise"""
    lm = last_member(x)
    if lm:
        return lm, base_var_names(x)
    names = var_names(x)
    if names:
        S = field_caches(g).get((blk.id, len(blk.events))) or ()
        for f in sorted(S, key=lambda f: (f[0], str(f[1]))):
            if f[0] in names:
                return f[1], set(f[2])
    return None, set()


# --------------------------------------------------------------------------
# list operations: the primitive calls, or their open-coded definitions
# --------------------------------------------------------------------------

def _node_ptr(m):
    """for the lvalue N.next / N->next (m): the pointer to the node N"""
    return m['base'] if m['arrow'] else {'k': 'addr', 'e': m['base']}


def _is_lh(m, fields=('next', 'prev')):
    return isinstance(m, dict) and m.get('k') == 'member' and m.get('record') == 'iv_list_head' and m['field'] in fields


def _open_coded(g):
    """{id(store event): ('del'|'add', node pointer expression)} for list operations written out as stores in one block:
         del:  P->next = X; Q->prev = Y   where P and Y are both the (old) N->prev and X and Q both the (old) N->next of one
               node N: spelled out (`N->prev->next = N->next; N->next->prev = N->prev`), through locals that cache the
               neighbours (`prev = N->prev; next = N->next; prev->next = next; next->prev = prev`), in either order;
               the later of the two stores is the operation
         add:  N->next = X; N->prev = Y;  with X, Y not NULL and not N itself (iv_list_add / iv_list_add_tail bodies)"""
    c = _cache_get(g, '_h01_oc')
    if c is not None:
        return c
    c = {}
    def ident(p):
        # the names a node pointer value is known by: its spelling and the locals that hold it (a cached
        # `node = head.next` is spelled head.next while that is valid and `node` afterwards)
        return frozenset(var_names(p) | {canon(p)})
    parts = set()
    for blk in g.blocks.values():
        half, link, env = [], {}, {}

        def sym(x):
            """(names of N, field, N) when the value x is N->field of a list node N (read here, or cached in a local)"""
            m = strip(x)
            if _is_lh(m):
                P = _node_ptr(m)
                return (ident(P), m['field'], P)
            for n in var_names(x):
                if n in env:
                    return env[n]
            return None
        for e in blk.events:
            if e['ev'] == 'call':
                half, link, env = [], {}, {}
                continue
            if e['ev'] == 'store' and isinstance(strip(e['lhs']), dict) and strip(e['lhs']).get('k') == 'var':
                x = strip(e['lhs'])['name']
                half = [h for h in half if x not in h[0]]
                env = {n: v for n, v in env.items() if n != x and x not in v[0]}
                if e.get('op') == '=' and 'rhs' in e and _is_lh(strip(e['rhs'])):
                    v = sym(e['rhs'])
                    if x not in v[0]:
                        env[x] = v
                continue
            if e['ev'] != 'store' or e.get('op') != '=' or 'rhs' not in e:
                continue
            l, r = strip(e['lhs']), strip(e['rhs'])
            if not _is_lh(l):
                continue
            sl = sym(l['base']) if l['arrow'] else None
            sr = sym(e['rhs'])
            if sl and sr and sl[1] != l['field'] and sr[1] == l['field'] and (sl[0] & sr[0]):
                k = sl[0] | sr[0]
                mates = [h for h in half if (k & h[0]) and h[1] != l['field']]
                if mates:
                    c[id(e)] = ('del', sr[2])
                    parts.update(h[2] for h in mates)
                half.append((k, l['field'], id(e)))
                continue
            env = {}
            if isinstance(r, dict) and r.get('k') not in ('null',) and const_of(r) is None:
                k = canon(_node_ptr(l))
                if canon(r) == k:
                    continue
                if link.get(k, l['field']) != l['field']:
                    c[id(e)] = ('add', _node_ptr(l))
                link[k] = l['field']
    _cache_put(g, '_h01_ocp', frozenset(parts))
    return _cache_put(g, '_h01_oc', c)


def edge_atoms(blk, si):
    """atoms (op, lhs canon, rhs canon, lhs expr, rhs expr) that hold on the edge to blk.succ[si]: the branch condition
    with its polarity; for `switch (x)`: x == v on the edge of `case v`, x != every case value on the default edge"""
    from ..core import norm_cond
    t = blk.term
    if not t or t.get('cond') is None:
        return []
    if t.get('cls') == 'SwitchStmt':
        cases = t.get('cases') or []
        c = t['cond']
        if si >= len(cases):
            return []
        me = cases[si]
        if isinstance(me, int):
            return [('==', canon(c), str(me), c, {'k': 'int', 'v': me})]
        if me == 'default':
            return [('!=', canon(c), str(cv), c, {'k': 'int', 'v': cv}) for cv in cases if isinstance(cv, int)]
        return []
    if t.get('cls') == 'MethodDispatch' or len(blk.succ) != 2:
        return []
    return [a for a in norm_cond(t['cond'], si == 0) if a[0] != 'const']


def open_coded_parts(g):
    """ids of the stores that are the first half of an open-coded list operation recognised by _open_coded"""
    _open_coded(g)
    return _cache_get(g, '_h01_ocp') or frozenset()


def is_local_name(g, name):
    """name is a local of g (a variable, not the spelling of an access path)"""
    c = _cache_get(g, '_h01_locals')
    if c is None:
        c = set()
        for e in g.events():
            if e['ev'] == 'decl':
                c.add(e['name'])
            for x in walk(e):
                if is_localvar(x):
                    c.add(x['name'])
        _cache_put(g, '_h01_locals', c)
    return name in c


HARMLESS_EXTERNALS = ('free', 'iv_list_empty', '___mutex_lock', '___mutex_unlock', 'close', 'abort')


def harmless_call(g, e):
    """a direct call that cannot modify a list: a pure primitive or a libc function that is not given a list"""
    nm = e.get('callee')
    return nm in PURE_CALLS or nm in HARMLESS_EXTERNALS


def list_op(g, e):
    """('del'|'add', node pointer expression) when the event unlinks / links a list node"""
    if e['ev'] == 'call' and e.get('args'):
        if e.get('callee') in LIST_DEL:
            return ('del', e['args'][0])
        if e.get('callee') in LIST_ADD:
            return ('add', e['args'][0])
        return None
    if e['ev'] == 'store' and g is not None:
        return _open_coded(g).get(id(e))
    return None


def list_op_member(g, e):
    """('del'|'add', (record, field) of the node) or None"""
    o = list_op(g, e)
    if o is None:
        return None
    return (o[0], member_of_ptr(g, o[1]))


def object_vars(g, root, rec):
    """locals of the (inlined) root that always hold the root's parameter of kind `rec`
    (the object an unregister call is about): the parameter and locals only ever assigned from it"""
    want = norm_rec(rec)
    objs = {p['name'] for p in root.params if p.get('ptr') and norm_rec(p.get('record')) == want}
    defs = local_defs(g)
    changed = True
    while changed:
        changed = False
        for v, ds in defs.items():
            if v in objs or not ds:
                continue
            if all(r is not None and is_localvar(strip(r)) and strip(r)['name'] in objs for r in ds):
                objs.add(v)
                changed = True
    return objs


def base_var_names(lv):
    """for an lvalue `X->f...` / `X->a.b`: the locals that hold X"""
    x = strip(lv)
    while isinstance(x, dict) and x.get('k') == 'member':
        if x['arrow']:
            return var_names(x['base'])
        x = strip(x['base'])
    return set()


def depends_on(g, x, pred, seen=None, depth=12):
    """does the value of x depend (through definitions of locals, call arguments, return temporaries of
    inlined helpers) on a sub-expression satisfying pred"""
    seen = set() if seen is None else seen
    for y in walk(x):
        if pred(y):
            return True
        if is_localvar(y) and y['name'] not in seen and depth > 0:
            seen.add(y['name'])
            for r in local_defs(g).get(y['name'], []):
                if r is not None and depends_on(g, r, pred, seen, depth - 1):
                    return True
    return False


def resolve_ptr(g, x, depth=4):
    """x, or when x is a local all of whose definitions are the same address expression (`lock = &st->mutex`), that
    expression"""
    y = strip(x)
    if is_localvar(y) and depth > 0 and g is not None:
        ds = local_defs(g).get(y['name'])
        if ds and all(r is not None for r in ds) and len({canon(r) for r in ds}) == 1:
            r = strip(ds[0])
            if isinstance(r, dict) and r.get('k') in ('addr', 'var'):
                return resolve_ptr(g, ds[0], depth - 1)
    return x


def locks_held(g):
    """analyses.locksets with the lock object resolved through locals that name it"""
    from ..analyses import lock_effect
    def tr(e, S):
        if e['ev'] == 'call' and e.get('args'):
            e = dict(e, args=[resolve_ptr(g, a) for a in e['args']])
        for (op, lid) in lock_effect(e):
            S = frozenset(x for x in S if x != lid)
            if op == 'lock':
                S = S | {lid}
        return S
    _, ev_in = forward(g, frozenset(), tr, lambda a, b: a & b)
    return ev_in


# --------------------------------------------------------------------------
# pointers into a block of memory (the kernel-filled array)
# --------------------------------------------------------------------------

def ptr_base(x):
    """the pointer P that x is derived from by offsetting: P, (T)P, P + i, &P[i], &P[i].f, &P->f, &*P;
    for an array object A: A, &A[i]"""
    x = strip(x)
    if not isinstance(x, dict):
        return None
    k = x.get('k')
    if k == 'addr':
        y = strip_load(x['e'])
        while isinstance(y, dict):
            yk = y.get('k')
            if yk == 'member':
                if y['arrow']:
                    return ptr_base(y['base'])
                y = strip_load(y['base'])
            elif yk == 'index':
                return ptr_base(y['base'])
            elif yk == 'deref':
                return ptr_base(y['e'])
            elif yk in ('cast', 'paren'):
                y = strip_load(y['e'])
            elif yk == 'var':
                return y
            else:
                return None
        return None
    if k == 'bin' and x.get('op') in ('+', '-'):
        return ptr_base(x['l']) or ptr_base(x['r'])
    if k == 'incdec':
        return ptr_base(x['e'])
    if k == 'assign':
        return ptr_base(x['l'])
    if k == 'cond':
        return ptr_base(x['a']) or ptr_base(x['b'])
    if k in ('var', 'member'):
        return x
    return None


def designator(p):
    p = strip(p)
    if not isinstance(p, dict):
        return None
    if p.get('k') == 'var' and p.get('vk') != 'func':
        return ('var', p['name'])
    if p.get('k') == 'member':
        return ('fld', p.get('record'), p['field'])
    return None


def designators(x):
    """designators of the pointer x is derived from, under every name its value is known by"""
    out = set()
    pb = ptr_base(x)
    d = designator(pb)
    if d:
        out.add(d)
    if pb is not None:
        # the pointer itself may be a propagated copy of a local
        y = x
        while isinstance(y, dict):
            if '_was' in y and strip(y) is pb:
                out.add(('var', y['_was']))
            if y.get('k') in ('load', 'cast', 'paren') and isinstance(y.get('e'), dict):
                y = y['e']
            else:
                break
    return out


def pointer_closure(g, seeds):
    """All designators (locals, record fields) that may hold a pointer into the memory block the seed
    designators point to: closed over assignments in both directions (`p = st->arr + i; wait(p)`
    makes st->arr a pointer into the block as well; a local assigned from several blocks joins them: conservative)."""
    T = set(seeds)
    changed = True
    while changed:
        changed = False
        for e in g.events():
            if e['ev'] != 'store' or e.get('op') != '=' or 'rhs' not in e:
                continue
            dl = designator(e['lhs'])
            if dl is None:
                continue
            dr = designators(e['rhs'])
            if dr & T and dl not in T:
                T.add(dl)
                changed = True
            if dl in T and dl[0] == 'var':
                # p = P (+ i): p points into the block, hence so does P
                for d in dr:
                    if d not in T:
                        T.add(d)
                        changed = True
    return T


def slot_identity(prog, f, ptr, depth=2):
    """what array / memory a slot pointer of f points into, as far as it can be named: the record fields and globals
    the pointer is derived from (through locals, and for a parameter of a static helper through the arguments of its
    callers); empty when it comes out of a call (a heap node)"""
    kinds = {}
    for e in f.events():
        for x in walk(e):
            if x.get('k') == 'var':
                kinds[x['name']] = x.get('vk')
    out = set()
    for d in pointer_closure(f, designators(ptr)):
        if d[0] == 'fld':
            out.add(d)
        elif d[0] == 'var' and kinds.get(d[1]) in ('global', 'staticlocal'):
            out.add(('glob', d[1]))
        elif d[0] == 'var' and depth > 0 and f.static and _param_index(f, d[1]) is not None:
            i = _param_index(f, d[1])
            for (c, e) in _call_sites(prog, f):
                if len(e.get('args', [])) > i:
                    out |= slot_identity(prog, c, e['args'][i], depth - 1)
    return frozenset(out)


def reads_block(x, T):
    """does evaluating x read memory of the block designated by T (element, field of element, *p)"""
    for y in walk(x):
        k = y.get('k')
        if k == 'index':
            p = y['base']
        elif k == 'member' and y.get('arrow'):
            p = y['base']
        elif k == 'deref':
            p = y['e']
        else:
            continue
        if designators(p) & T:
            return True
    return False


# --------------------------------------------------------------------------
# contexts
# --------------------------------------------------------------------------

def inlined(prog, f, **kw):
    """Inliner(prog, **kw).inline(f), cached on the program object itself (roles.inlined keys its cache
    by id(prog), which is reused when a process analyses several programs one after the other)"""
    c = prog.__dict__.setdefault('_h01_inl', {})
    key = (f.q, tuple(sorted(kw.items())))
    if key not in c:
        g = Inliner(prog, **kw).inline(f)
        _lift_container_of(g, prog.records)
        _resolve_out_params(g)
        _fold_constant_branches(g)
        lowered = _lower_cond_stores(g)
        if _forward_temp_copies(g) and kw.get('prune'):
            from ..analyses import prune_infeasible
            prune_infeasible(g)
        # a flag fed by a flag (`alive = helper()` with a boolean helper; `b = a`) only becomes a constant-valued
        # local once the first one is eliminated: repeat the core's flag partitioning until nothing is left
        if os.environ.get('IVY_NO_FLAGS') != '1':
            shadows = _null_shadow_insert(g, f) + _counter_shadow_insert(g, f)
            for _ in range(8 if shadows else 3):
                done = list(partition_flags(g))
                for name in _copied_flags(g)[:4]:
                    if _partition_one(g, name, 900):
                        done.append(name)
                if not done:
                    break
                try:
                    copy_propagate(g)
                except AnalysisBroken:
                    pass
            if shadows:
                _null_shadow_remove(g)
        if lowered and kw.get('prune'):
            from ..analyses import prune_infeasible
            prune_infeasible(g)
        _fold_constant_branches(g)
        c[key] = g
    return c[key]


NZ = '#nz'
CTR = '#ctr'


def _fold_constant_branches(g):
    """A two-way branch whose condition is a comparison of constants (`NULL != NULL` after the inliner substituted the
    constant argument of a shared helper: `drain(list, deliver_to = NULL)` ... `if (deliver_to != NULL) deliver_to->handler()`)
    has one outcome: the other edge is removed, as analyses.prune_infeasible does for edges refuted by must-facts.  The code
    behind it cannot run in this calling context.  Only comparisons / negations of literal constants are folded (a literal
    `0` loop condition of `do { } while (0)` is left alone)."""
    n = 0
    for b, blk in g.blocks.items():
        t = blk.term
        if not t or t.get('cond') is None or len(blk.succ) != 2 or t.get('cls') in ('SwitchStmt', 'MethodDispatch'):
            continue
        c = strip(t['cond'])
        while isinstance(c, dict) and c.get('k') == 'un' and c.get('op') == '!':
            c = strip(c['e'])
        if not (isinstance(c, dict) and c.get('k') == 'bin' and c.get('op') in ('==', '!=', '<', '>', '<=', '>=')):
            continue
        if not all(isinstance(strip(x), dict) and strip(x).get('k') in ('null', 'int') for x in (c['l'], c['r'])):
            continue
        v = aval(t['cond'], {})
        if not isinstance(v, tuple):
            continue
        gone = 1 if v[1] else 0
        blk.succ = [s_ for i, s_ in enumerate(blk.succ) if i != gone]
        blk.term = dict(t, pruned=('true' if gone == 0 else 'false'), cls='Pruned')
        blk.term.pop('cond', None)
        n += 1
    if n:
        g._preds = None
    return n


def _counter_shadow_insert(g, root):
    """Trace partitioning on "first iteration / later iteration" of a counted loop.  A local integer i that is only ever
    assigned one constant c0 and otherwise only stepped in one direction (`i++`, `i += k`, k > 0; or only downwards) has
    left c0 for good once it was stepped.  For such a counter a shadow integer `i#ctr` (0: i == c0, 1: stepped since) is
    maintained, and every branch condition that compares i with a constant *and whose outcome is determined by the shadow
    alone* (`i > 0`, `i != 0`, `i == 0`, `0 < i` for c0 = 0 counting up) is spelled with the shadow; the core's flag
    partitioning then threads the test: `for (i = 0; i < n; i++) { if (i > 0 && marker == NULL) break; ... handler(); }`
    becomes the peeled form in which the re-test of the marker follows every handler call.  The shadows are removed
    afterwards (_null_shadow_remove): a refinement of the CFG with the original events and conditions."""
    addr_taken, defs, bad = set(), {}, set()
    rootparams = {p['name'] for p in root.params}
    for b, blk in g.blocks.items():
        srcs = list(blk.events)
        for e in srcs:
            for x in walk(e):
                k = x.get('k')
                if k == 'addr':
                    v = strip(x['e'])
                    if isinstance(v, dict) and v.get('k') == 'var':
                        addr_taken.add(v['name'])
                elif k in ('incdec', 'assign'):
                    # stepped inside an expression: not followed
                    for y in walk(x.get('e') if k == 'incdec' else x.get('l')):
                        if y.get('k') == 'var':
                            bad.add(y['name'])
            if e['ev'] == 'store':
                l = strip(e['lhs'])
                if isinstance(l, dict) and l.get('k') == 'var' and l.get('vk') == 'local':
                    defs.setdefault(l['name'], []).append(e)
        if blk.term and blk.term.get('cond') is not None:
            for x in walk(blk.term['cond']):
                if x.get('k') in ('incdec', 'assign'):
                    for y in walk(x.get('e') if x['k'] == 'incdec' else x.get('l')):
                        if y.get('k') == 'var':
                            bad.add(y['name'])

    def classify(e, name):
        """('init', c) | ('step', +1/-1) | None"""
        op = e.get('op')
        if op == '=' and 'rhs' in e:
            c = const_of(e['rhs'])
            if c is not None and isinstance(strip(e['rhs']), dict) and strip(e['rhs']).get('k') in ('int', 'un'):
                return ('init', c)
            r = strip(e['rhs'])
            if isinstance(r, dict) and r.get('k') == 'bin' and r.get('op') in ('+', '-'):
                k = const_of(r['r'])
                if var_names(r['l']) == {name} and k is not None and k > 0:
                    return ('step', 1 if r['op'] == '+' else -1)
            return None
        if op in ('++', '--') and 'rhs' not in e:
            return ('step', 1 if op == '++' else -1)
        if op in ('+=', '-=') and 'rhs' in e:
            k = const_of(e['rhs'])
            if k is not None and k > 0:
                return ('step', 1 if op == '+=' else -1)
        return None
    cand = {}
    for n, es in defs.items():
        if n in addr_taken or n in bad or n in rootparams or NZ in n or CTR in n or n.startswith('$ret'):
            continue
        ks = [classify(e, n) for e in es]
        if any(k is None for k in ks):
            continue
        inits = {k[1] for k in ks if k[0] == 'init'}
        dirs = {k[1] for k in ks if k[0] == 'step'}
        if len(inits) == 1 and len(dirs) == 1:
            cand[n] = (inits.pop(), dirs.pop())
    if not cand:
        return 0

    def decided(op, c, c0, d, state):
        """truth of `i op c` when the shadow is `state` (None: not determined)"""
        if state == 0:
            return {'==': c0 == c, '!=': c0 != c, '<': c0 < c, '>': c0 > c, '<=': c0 <= c, '>=': c0 >= c}[op]
        if d < 0:       # mirror: -i counts up from -c0
            op = {'<': '>', '>': '<', '<=': '>=', '>=': '<='}.get(op, op)
            c, c0 = -c, -c0
        # i >= c0 + 1
        if op == '>':
            return True if c <= c0 else None
        if op == '>=':
            return True if c <= c0 + 1 else None
        if op == '<':
            return False if c <= c0 + 1 else None
        if op == '<=':
            return False if c <= c0 else None
        if op == '==':
            return False if c <= c0 else None
        if op == '!=':
            return True if c <= c0 else None
        return None

    def shadow(n):
        return {'k': 'load', 'e': {'k': 'var', 'name': n + CTR, 'vk': 'local', 'type': 'int'}}
    used = set()
    SWAPOP = {'<': '>', '>': '<', '<=': '>=', '>=': '<=', '==': '==', '!=': '!='}

    def rw(c):
        c0_ = c
        while isinstance(c, dict) and c.get('k') in ('load', 'cast', 'paren') and isinstance(c.get('e'), dict):
            c = c['e']
        if not isinstance(c, dict):
            return None
        k = c.get('k')
        if k == 'un' and c.get('op') == '!':
            a = rw(c['e'])
            return None if a is None else dict(c, e=a)
        if k == 'bin' and c.get('op') in ('&&', '||'):
            a, b = rw(c['l']), rw(c['r'])
            if a is None and b is None:
                return None
            return dict(c, l=a if a is not None else c['l'], r=b if b is not None else c['r'])
        if k == 'bin' and c.get('op') in SWAPOP:
            for (a, b, op) in ((c['l'], c['r'], c['op']), (c['r'], c['l'], SWAPOP[c['op']])):
                sa = strip(a)
                cv = const_of(b)
                if is_localvar(sa) and sa['name'] in cand and cv is not None and not var_names(b):
                    c0, d = cand[sa['name']]
                    t0, t1 = decided(op, cv, c0, d, 0), decided(op, cv, c0, d, 1)
                    if t0 is None or t1 is None or t0 == t1:
                        return None
                    used.add(sa['name'])
                    return {'k': 'bin', 'op': '!=' if t1 else '==', 'l': shadow(sa['name']), 'r': {'k': 'int', 'v': 0},
                            'type': 'int', '_orig': c0_}
            return None
        sa = strip(c0_)
        if is_localvar(sa) and sa['name'] in cand and cand[sa['name']] in ((0, 1), (0, -1)):
            used.add(sa['name'])      # `if (i)`
            return {'k': 'bin', 'op': '!=', 'l': shadow(sa['name']), 'r': {'k': 'int', 'v': 0}, 'type': 'int', '_orig': c0_}
        return None
    newconds = {}
    for b, blk in g.blocks.items():
        if blk.term and blk.term.get('cond') is not None and len(blk.succ) == 2 and blk.term.get('cls') not in ('SwitchStmt', 'MethodDispatch'):
            c = rw(blk.term['cond'])
            if c is not None:
                newconds[b] = c
    if not used:
        return 0
    for b, c in newconds.items():
        g.blocks[b].term = dict(g.blocks[b].term, cond=c)
    for b, blk in g.blocks.items():
        out = []
        for e in blk.events:
            out.append(e)
            if e['ev'] == 'store':
                l = strip(e['lhs'])
                if isinstance(l, dict) and l.get('k') == 'var' and l['name'] in used and l.get('vk') == 'local':
                    k = classify(e, l['name'])
                    out.append({'ev': 'store', 'op': '=', 'lhs': {'k': 'var', 'name': l['name'] + CTR, 'vk': 'local', 'type': 'int'},
                                'rhs': {'k': 'int', 'v': 0 if k[0] == 'init' else 1}, 'loc': e.get('loc', ''), 'used': False,
                                'synthetic': True, 'shadow': True, 'fn': e.get('fn'), 'chain': e.get('chain')})
        blk.events = out
        for i, e in enumerate(blk.events):
            e['_b'] = b
            e['_i'] = i
    g._preds = None
    return len(used)


def _null_shadow_insert(g, root):
    """Trace partitioning on the nullness of pointer locals.  A dequeue / lookup helper that returns "the object, or
    NULL when there is none" (`while ((we = pop(q)) != NULL)`) merges, at its return, the path that found the queue
    empty with the path that took an element; the caller's NULL test separates them again.  For every local pointer p
    that is only ever assigned NULL, an address (`&x`, iv_container_of(..): never NULL) or a copy of another such
    local, and that is compared with NULL, a shadow integer `p#nz` is maintained next to it and the NULL tests of p are
    spelled with the shadow; the core's flag partitioning then threads the tests.  The shadows are removed afterwards
    (_null_shadow_remove): the result is a refinement of the CFG with the original events and conditions."""
    addr_taken, defs = set(), {}
    rootparams = {p['name'] for p in root.params}
    for e in g.events():
        for x in walk(e):
            if x.get('k') == 'addr':
                v = strip(x['e'])
                if isinstance(v, dict) and v.get('k') == 'var':
                    addr_taken.add(v['name'])
        if e['ev'] == 'store':
            l = strip(e['lhs'])
            if isinstance(l, dict) and l.get('k') == 'var' and l.get('vk') in ('local', 'param'):
                defs.setdefault(l['name'], []).append(e)

    def classify(e):
        if e.get('op') != '=' or 'rhs' not in e:
            return None
        r = strip(e['rhs'])
        if not isinstance(r, dict):
            return None
        if r.get('k') == 'null' or (r.get('k') == 'int' and r['v'] == 0):
            return ('const', 0)
        if r.get('k') in ('addr', 'container_of'):
            return ('const', 1)
        if is_localvar(r):
            return ('copy', r['name'])
        return None
    cand = {n for n, es in defs.items() if n not in addr_taken and n not in rootparams and NZ not in n
            and all(classify(e) is not None for e in es)}
    changed = True
    while changed:
        changed = False
        for n in sorted(cand):
            if any(classify(e)[0] == 'copy' and classify(e)[1] not in cand for e in defs[n]):
                cand.discard(n)
                changed = True
    if not cand:
        return 0

    def shadow(n):
        return {'k': 'load', 'e': {'k': 'var', 'name': n + NZ, 'vk': 'local', 'type': 'int'}}

    def tested_var(x):
        """candidate whose value the boolean operand x tests: p, (p = q), or an expression known to equal p"""
        y = x
        while isinstance(y, dict) and y.get('k') in ('load', 'cast', 'paren', 'stmtexpr') and isinstance(y.get('e'), dict):
            y = y['e']
        if isinstance(y, dict) and y.get('k') == 'assign' and y.get('op') == '=':
            y = strip(y['l'])
        if is_localvar(y) and y['name'] in cand:
            return y['name']
        return None

    used = set()

    def rw(c):
        """the condition with NULL tests of candidates spelled with their shadows (None: nothing to rewrite)"""
        c0 = c
        while isinstance(c, dict) and c.get('k') in ('load', 'cast', 'paren') and isinstance(c.get('e'), dict):
            c = c['e']
        if not isinstance(c, dict):
            return None
        k = c.get('k')
        if k == 'un' and c.get('op') == '!':
            a = rw(c['e'])
            return None if a is None else dict(c, e=a)
        if k == 'bin' and c.get('op') in ('&&', '||'):
            a, b = rw(c['l']), rw(c['r'])
            if a is None and b is None:
                return None
            return dict(c, l=a if a is not None else c['l'], r=b if b is not None else c['r'])
        if k == 'bin' and c.get('op') in ('==', '!='):
            for (a, b) in ((c['l'], c['r']), (c['r'], c['l'])):
                sb = strip(b)
                if isinstance(sb, dict) and (sb.get('k') == 'null' or (sb.get('k') == 'int' and sb['v'] == 0)):
                    n = tested_var(a)
                    if n:
                        used.add(n)
                        return {'k': 'bin', 'op': c['op'], 'l': shadow(n), 'r': {'k': 'int', 'v': 0}, 'type': 'int', '_orig': c0}
            return None
        n = tested_var(c0)
        if n:
            used.add(n)
            return {'k': 'bin', 'op': '!=', 'l': shadow(n), 'r': {'k': 'int', 'v': 0}, 'type': 'int', '_orig': c0}
        return None

    newconds = {}
    for b, blk in g.blocks.items():
        if blk.term and blk.term.get('cond') is not None and len(blk.succ) == 2 and blk.term.get('cls') not in ('SwitchStmt', 'MethodDispatch'):
            c = rw(blk.term['cond'])
            if c is not None:
                newconds[b] = c
    # only the candidates a test depends on (through copies), and only when a NULL can reach them
    need, work = set(), list(used)
    while work:
        n = work.pop()
        if n in need:
            continue
        need.add(n)
        for e in defs[n]:
            k = classify(e)
            if k[0] == 'copy':
                work.append(k[1])
    if not any(classify(e) == ('const', 0) for n in need for e in defs[n]):
        return 0
    for b, c in newconds.items():
        g.blocks[b].term = dict(g.blocks[b].term, cond=c)
    for b, blk in g.blocks.items():
        out = []
        for e in blk.events:
            out.append(e)
            if e['ev'] == 'store':
                l = strip(e['lhs'])
                if isinstance(l, dict) and l.get('k') == 'var' and l['name'] in need and l.get('vk') in ('local', 'param'):
                    k = classify(e)
                    rhs = {'k': 'int', 'v': k[1]} if k[0] == 'const' else shadow(k[1])
                    out.append({'ev': 'store', 'op': '=', 'lhs': {'k': 'var', 'name': l['name'] + NZ, 'vk': 'local', 'type': 'int'},
                                'rhs': rhs, 'loc': e.get('loc', ''), 'used': False, 'synthetic': True, 'shadow': True,
                                'fn': e.get('fn'), 'chain': e.get('chain')})
        blk.events = out
        for i, e in enumerate(blk.events):
            e['_b'] = b
            e['_i'] = i
    g._preds = None
    return len(need)


def _null_shadow_remove(g):
    def back(nd):
        return nd['_orig'] if isinstance(nd, dict) and '_orig' in nd else None
    for b, blk in g.blocks.items():
        blk.events = [e for e in blk.events if not e.get('shadow')]
        for i, e in enumerate(blk.events):
            e['_b'] = b
            e['_i'] = i
        if blk.term and blk.term.get('cond') is not None and any('_orig' in x for x in walk(blk.term['cond'])):
            blk.term = dict(blk.term, cond=subst(blk.term['cond'], back))
    g._preds = None


def _resolve_out_params(g):
    """A pointer with a single definition `p = &X` names the location X wherever it is dereferenced:
       * an out-parameter of an inlined helper is the caller's variable: `*&v` is `v`, and `*p` is `v` for the
         inliner's temporary `p = &v`; `take(&batch, &t)` storing `*_t = obj` thereby (re)defines the caller's `t` like
         a returned value would;
       * a cached address (`slot = &st->marker`, also when obtained from an accessor helper that returns the address)
         names the field: `*slot = NULL` is `st->marker = NULL`.
       X is a variable, or a field path `v->a.b` / `v.a.b` of a variable v that is never reassigned (so that the path
       designates the same location at the definition and at the use); p's own address is never taken."""
    addr_taken, ndefs, cand = set(), {}, {}
    for e in g.events():
        if e['ev'] == 'store':
            l = strip(e['lhs'])
            if isinstance(l, dict) and l.get('k') == 'var':
                ndefs[l['name']] = ndefs.get(l['name'], 0) + 1
                r = strip_load(e['rhs']) if e.get('op') == '=' and 'rhs' in e else None
                if isinstance(r, dict) and l.get('vk') in ('local', 'param'):
                    cand[l['name']] = r
    for e in g.events():
        for x in walk(e):
            if x.get('k') == 'addr':
                v = strip(x['e'])
                if isinstance(v, dict) and v.get('k') == 'var':
                    addr_taken.add(v['name'])
    rootparams = {p_['name'] for p_ in g.params}

    def stable_path(x):
        """x is v, v.a.b or v->a.b with v a local that is never reassigned (for a bare variable: any local)"""
        y = strip_load(x)
        if isinstance(y, dict) and y.get('k') == 'var':
            return y.get('vk') in ('local', 'param')
        while isinstance(y, dict) and y.get('k') == 'member':
            b_ = strip_load(y['base'])
            if y['arrow'] or (isinstance(b_, dict) and b_.get('k') == 'var'):
                return isinstance(b_, dict) and b_.get('k') == 'var' and b_.get('vk') in ('local', 'param') \
                    and ndefs.get(b_['name'], 0) <= (0 if b_['name'] in rootparams else 1) and b_['name'] not in addr_taken
            y = b_
        return False
    target = {}
    changed = True
    while changed:
        changed = False
        for p_, r in cand.items():
            if p_ in target or ndefs.get(p_) != 1 or p_ in addr_taken or p_ in rootparams:
                continue
            if r.get('k') == 'addr' and stable_path(r['e']):
                target[p_] = strip_load(r['e'])
                changed = True
            elif r.get('k') == 'var' and r['name'] in target:
                target[p_] = target[r['name']]
                changed = True

    def r_(nd):
        if nd.get('k') == 'deref':
            b = strip_load(nd['e'])
            if isinstance(b, dict) and b.get('k') == 'addr':
                return subst(b['e'], r_)
            if isinstance(b, dict) and b.get('k') == 'var' and b['name'] in target:
                return dict(target[b['name']])
        return None
    n = 0
    for b, blk in g.blocks.items():
        out = []
        for e in blk.events:
            if any(x.get('k') == 'deref' for x in walk(e)):
                e2 = {}
                for k_, v in e.items():
                    e2[k_] = subst(v, r_) if isinstance(v, (dict, list)) and k_ != 'chain' else v
                n += 1
                e = e2
            out.append(e)
        blk.events = out
        if blk.term and blk.term.get('cond') is not None and any(x.get('k') == 'deref' for x in walk(blk.term['cond'])):
            blk.term = dict(blk.term, cond=subst(blk.term['cond'], r_))
    return n


def _lower_cond_stores(g, limit=64):
    """`x = c ? a : b` (x a local, c / a / b free of calls and assignments) becomes `if (c) x = a; else x = b;`: a decision
    computed into a variable with a conditional-expression chain (`action = idle ? KICK : full ? NONE : START;
    switch (action)`) then is a local that is only assigned constants, which flag partitioning threads into the
    switch / if that consumes it.  The branch re-evaluates c where the store stood; nothing between the original
    evaluation of c and the store can have changed it (only the reads of the arms lie in between)."""
    from ..core import Block

    def pure(x):
        return not any(y.get('k') in ('call', 'assign', 'incdec', 'stmtexpr') for y in walk(x))

    def cond_rhs(e):
        if e['ev'] != 'store' or e.get('op') != '=' or 'rhs' not in e:
            return None
        l = strip(e['lhs'])
        if not (isinstance(l, dict) and l.get('k') == 'var' and l.get('vk') in ('local', 'param')):
            return None
        r = e['rhs']
        while isinstance(r, dict) and r.get('k') in ('load', 'cast', 'paren') and isinstance(r.get('e'), dict):
            r = r['e']
        if isinstance(r, dict) and r.get('k') == 'cond' and pure(r):
            return r
        return None
    n = 0
    work = list(g.blocks)
    while work and n < limit:
        b = work.pop()
        blk = g.blocks[b]
        for i, e in enumerate(blk.events):
            r = cond_rhs(e)
            if r is None:
                continue
            nid = max(g.blocks) + 1
            rest = Block(nid, blk.events[i + 1:], list(blk.succ), blk.term, blk.noreturn)
            bt = Block(nid + 1, [dict(e, rhs=r['a'])], [nid], None)
            bf = Block(nid + 2, [dict(e, rhs=r['b'])], [nid], None)
            for nb in (rest, bt, bf):
                g.blocks[nb.id] = nb
            blk.events = blk.events[:i]
            blk.term = {'cls': 'CondStore', 'cond': r['c'], 'loc': e.get('loc', '')}
            blk.succ = [bt.id, bf.id]
            blk.noreturn = False
            if g.exit == b:
                g.exit = nid
            work += [nid, nid + 1, nid + 2]
            n += 1
            break
    if n:
        for b, blk in g.blocks.items():
            for i, e in enumerate(blk.events):
                e['_b'] = b
                e['_i'] = i
        g._preds = None
    return n


def _forward_temp_copies(g):
    """The inliner passes an argument that is not syntactically stable through a temporary (`p@N = arg`), and a
    returned local through `$retN`.  When such a temporary is a plain copy of a variable (`fd@2 = (T)_fd`,
    `$ret1 = t@1`) it is renamed to that variable, so that the text-based facts of the core (branch atoms, markers,
    infeasible-edge pruning) speak about one name.  Sound: the temporary has this single definition, lives only
    while the callee runs (a parameter) or until its value is consumed (a return temporary), neither variable has
    its address taken, and the callee cannot assign the caller's variable."""
    addr_taken, ndefs = set(), {}
    for e in g.events():
        for x in walk(e):
            if x.get('k') == 'addr':
                v = strip(x['e'])
                if isinstance(v, dict) and v.get('k') == 'var':
                    addr_taken.add(v['name'])
        if e['ev'] == 'store':
            l = strip(e['lhs'])
            if isinstance(l, dict) and l.get('k') == 'var':
                ndefs[l['name']] = ndefs.get(l['name'], 0) + 1
    ren = {}
    for e in g.events():
        if e['ev'] != 'store' or e.get('op') != '=' or 'rhs' not in e:
            continue
        l = strip(e['lhs'])
        if not (isinstance(l, dict) and l.get('k') == 'var'):
            continue
        a = l['name']
        if not (e.get('is_param') or a.startswith('$ret')) or ndefs.get(a) != 1 or a in addr_taken:
            continue
        r = strip(e['rhs'])
        if is_localvar(r) and r['name'] != a and r['name'] not in addr_taken:
            # the source must not change while the temporary is in use: a root parameter / local that is never
            # assigned, or itself a single-definition temporary of the inliner
            b = r['name']
            if ndefs.get(b, 0) == 0 or (ndefs.get(b) == 1 and ('@' in b or b.startswith('$ret'))):
                ren[a] = b
    if not ren:
        return 0
    def final(n):
        seen = set()
        while n in ren and n not in seen:
            seen.add(n)
            n = ren[n]
        return n
    def r_(nd):
        if nd.get('k') == 'var' and nd.get('name') in ren and nd.get('vk') != 'func':
            m = dict(nd)
            m['name'] = final(nd['name'])
            return m
        return None
    for b, blk in g.blocks.items():
        out = []
        for e in blk.events:
            if e['ev'] == 'store' and isinstance(strip(e['lhs']), dict) and strip(e['lhs']).get('k') == 'var' \
                    and strip(e['lhs'])['name'] in ren:
                continue
            if e['ev'] == 'decl' and e.get('name') in ren:
                continue
            e2 = {}
            for k_, v in e.items():
                e2[k_] = subst(v, r_) if isinstance(v, (dict, list)) and k_ != 'chain' else v
            if e2['ev'] == 'leave' and e2.get('retvar') in ren:
                e2['retvar'] = final(e2['retvar'])
            out.append(e2)
        blk.events = out
        if blk.term and blk.term.get('cond') is not None:
            blk.term = dict(blk.term, cond=subst(blk.term['cond'], r_))
        for i, e in enumerate(blk.events):
            e['_b'] = b
            e['_i'] = i
    g._preds = None
    return len(ren)


def _copied_flags(g):
    """locals that are only ever assigned constants / boolean expressions and are not tested themselves but copied
    into another local (`alive = helper_result`): eliminating them turns the copy into a flag the core handles"""
    addr_taken, ok, bad, copied = set(), set(), set(), set()
    for e in g.events():
        for x in walk(e):
            if x.get('k') == 'addr':
                v = strip(x['e'])
                if isinstance(v, dict) and v.get('k') == 'var':
                    addr_taken.add(v['name'])
        if e['ev'] == 'store':
            l = strip(e['lhs'])
            if isinstance(l, dict) and l.get('k') == 'var' and l.get('vk') == 'local':
                r = strip(e.get('rhs')) if 'rhs' in e else None
                if e.get('op') == '=' and isinstance(r, dict) and (r.get('k') == 'int' or _is_boolean_expr(r)):
                    ok.add(l['name'])
                else:
                    bad.add(l['name'])
                if e.get('op') == '=' and isinstance(r, dict) and r.get('k') == 'var' and r.get('vk') == 'local' and r['name'] != l['name']:
                    copied.add(r['name'])
    return sorted(n for n in ok if n not in bad and n not in addr_taken and n in copied)


def local_array_defs(g):
    """{name of a local array: [every value stored into one of its elements | None (not a plain assignment)]}, only for
    arrays of automatic storage that are used element-wise and nowhere else: each occurrence of the name is the base of
    `a[k]` (read or assigned), no address of an element is formed, the array is not passed on or copied.  What `a[i]`
    may hold, for any i, is then one of the listed values (cached on g)."""
    d = _cache_get(g, '_h01_arrdefs')
    if d is not None:
        return d
    arrays, inits = set(), {}
    for e in g.events():
        if e['ev'] == 'decl' and 'bound' in e and not e.get('static'):
            arrays.add(e['name'])
            ini = e.get('init')
            if isinstance(ini, dict):
                inits[e['name']] = list(ini.get('elems') or []) if ini.get('k') == 'init' else [None]
    total, asbase, escaped, vals = {}, {}, set(), {a: list(inits.get(a, [])) for a in arrays}

    def base_name(ix):
        b = strip(ix.get('base'))
        return b['name'] if isinstance(b, dict) and b.get('k') == 'var' and b.get('name') in arrays else None

    def scan(x):
        for n in walk(x):
            k = n.get('k')
            if k == 'var' and n.get('name') in arrays:
                total[n['name']] = total.get(n['name'], 0) + 1
            elif k == 'index':
                a = base_name(n)
                if a:
                    asbase[a] = asbase.get(a, 0) + 1
            elif k == 'addr':
                y = strip(n.get('e'))
                while isinstance(y, dict) and y.get('k') in ('index', 'member') and not (y.get('k') == 'member' and y.get('arrow')):
                    if y.get('k') == 'index' and base_name(y):
                        escaped.add(base_name(y))
                    y = strip(y.get('base'))
    for b in g.blocks.values():
        for e in b.events:
            scan({k: v for k, v in e.items() if k not in ('_b', '_i', 'chain')})
            if e['ev'] == 'store':
                l = strip(e['lhs'])
                if isinstance(l, dict) and l.get('k') == 'index' and base_name(l):
                    vals[base_name(l)].append(e['rhs'] if e.get('op') == '=' and 'rhs' in e else None)
                elif isinstance(l, dict) and l.get('k') != 'var':
                    # a store into part of an element (`a[k].f = ..`) is not a plain element assignment
                    y = l
                    while isinstance(y, dict) and y.get('k') in ('index', 'member') and not (y.get('k') == 'member' and y.get('arrow')):
                        y = strip(y.get('base'))
                        if isinstance(y, dict) and y.get('k') == 'index' and base_name(y):
                            vals[base_name(y)].append(None)
        if b.term and b.term.get('cond') is not None:
            scan(b.term['cond'])
    d = {a: vals[a] for a in arrays if a not in escaped and total.get(a, 0) == asbase.get(a, 0) and vals[a]}
    return _cache_put(g, '_h01_arrdefs', d)


def element_of_local_array(g, x):
    """name of the element-wise used local array (local_array_defs) the expression `a[k]` reads, else None"""
    m = strip(x)
    if isinstance(m, dict) and m.get('k') == 'index' and g is not None:
        b = strip(m.get('base'))
        if isinstance(b, dict) and b.get('k') == 'var' and b['name'] in local_array_defs(g):
            return b['name']
    return None


def call_targets(g, e, depth=4):
    """the function-pointer members an indirect call may go through: `o->handler(..)`, or a local / parameter /
    return temporary all of whose definitions read such members (`fn = o->handler; fn(arg)`, a trampoline's parameter,
    `h = pick_handler(o, band)` with a selector helper returning one of several handler fields, `c ? o->a : o->b`);
    [] when some definition is not understood"""
    fe = e.get('fnexpr')
    if fe is None:
        return []
    seen = set()

    def union(key, ds, how, d):
        if key in seen:
            return []
        seen.add(key)
        if not ds or any(r is None for r in ds):
            return None
        out = []
        for r in ds:
            o = how(r, d - 1)
            if o is None:
                return None
            out += o
        return out

    def ptr(x, d):
        """members the pointer value x may designate: `&o->f`, a local pointer or an element of a local table of
        pointers all of whose definitions are such addresses, `c ? &o->a : &o->b`; None when not understood"""
        m = strip(x)
        if not isinstance(m, dict):
            return None
        if m.get('k') == 'addr':
            y = strip(m['e'])
            return [y] if isinstance(y, dict) and y.get('k') == 'member' else None
        if m.get('k') == 'cond':
            a, b = ptr(m['a'], d), ptr(m['b'], d)
            return None if a is None or b is None else a + b
        if d <= 0 or g is None:
            return None
        arr = element_of_local_array(g, m)
        if arr:
            return union(('parr', arr), local_array_defs(g)[arr], ptr, d)
        if is_localvar(m):
            return union(('pvar', m['name']), local_defs(g).get(m['name']), ptr, d)
        return None

    def res(x, d):
        m = strip(x)
        if not isinstance(m, dict):
            return None
        if m.get('k') == 'member':
            return [m]
        if m.get('k') == 'cond':
            a, b = res(m['a'], d), res(m['b'], d)
            return None if a is None or b is None else a + b
        if m.get('k') == 'null' or (m.get('k') == 'int' and m.get('v') == 0):
            return []          # a NULL alternative is never called
        if m.get('k') == 'deref' and d > 0:
            # `*p` with p a pointer to a function-pointer member: what is called is the member p designates
            return ptr(m['e'], d - 1)
        arr = element_of_local_array(g, m)
        if arr and d > 0:
            # an element of a local table of function pointers (`tab[0] = o->a; tab[1] = o->b; tab[i](..)`)
            return union(('arr', arr), local_array_defs(g)[arr], res, d)
        if is_localvar(m) and g is not None and d > 0:
            if m['name'] in seen:
                return []
            seen.add(m['name'])
            ds = local_defs(g).get(m['name'])
            if not ds or any(r is None for r in ds):
                return None
            out = []
            for r in ds:
                o = res(r, d - 1)
                if o is None:
                    return None
                out += o
            return out
        return None
    return res(fe, depth) or []


def call_target(g, e):
    """the single function-pointer member an indirect call goes through (None when there are none or several)"""
    ms = call_targets(g, e)
    if ms and len({canon(x) for x in ms}) == 1:
        return ms[0]
    return None


def cb_kind(g, e):
    """kind of user callback entered by the call event (None: not a user callback)"""
    if e['ev'] != 'call' or 'fnexpr' not in e:
        return None
    kinds = {CALLBACK_FIELDS.get((m.get('record'), m['field'])) for m in call_targets(g, e)}
    if len(kinds) == 1 and None not in kinds:
        return kinds.pop()
    return None


def is_user_cb(e):
    k = callback_kind(e)
    return k[1] if k and k[0] == 'callback' else None


def callback_contexts(prog):
    """[(function, inlined graph)] in which user-callback sites are to be judged: every root of the
    library (exported function, installed handler, method slot) with its helpers inlined, plus, for
    callback sites no root reaches within the inlining depth, the function that contains them."""
    c = getattr(prog, '_h01_cbctx', None)
    if c is not None:
        return c
    out, covered = [], set()
    rts = roles.roots(prog)
    for r in rts:
        g = inlined(prog, r)
        locs = {e['loc'] for e in g.events() if cb_kind(g, e)}
        if locs:
            out.append((r, g))
            covered |= locs
    rq = {r.q for r in rts}
    for f in sorted(prog.all_funcs(), key=lambda f: f.q):
        if f.q in rq:
            continue
        locs = {e['loc'] for e in f.events() if cb_kind(f, e)}
        if locs - covered:
            out.append((f, inlined(prog, f)))
    prog._h01_cbctx = out
    return out


def _through(g, x):
    """the lvalue *p spelled as the location p is known to point at (`slot = &o->marker; *slot = v` is `o->marker = v`)"""
    y = strip(x)
    if isinstance(y, dict) and y.get('k') == 'deref':
        t = strip(resolve_ptr(g, y['e']))
        if isinstance(t, dict) and t.get('k') == 'addr' and t is not strip(y['e']):
            return t['e']
    return x


def stale_after_callback(fn, is_callback, keep_kinds=()):
    """analyses.stale_after_callback (same analysis, same result tuple) with the liveness marker identified by its
    role instead of its shape:
       marker M : a location for which the function executed `M = v` (v a pointer to a user object), M being a field,
                  a field written through a pointer to it (`*slot = v`), or a local whose address was published (the
                  object pointer itself, or a separate `void *alive = v` all of whose definitions are v / NULL);
                  the edge `M != NULL` (or `M == v`) revives v."""
    from ..analyses import USER_OBJECT_RECORDS, derefs_by_event
    from ..core import norm_cond
    objvars = {}
    for e in fn.events():
        for x in walk(e):
            if x.get('k') == 'var' and x.get('vk') in ('local', 'param') and x.get('ptr') \
                    and x.get('record') in USER_OBJECT_RECORDS:
                objvars[x['name']] = x['record']
        if e['ev'] == 'decl' and e.get('ptr') and e.get('record') in USER_OBJECT_RECORDS:
            objvars[e['name']] = e['record']
    for p in fn.params:
        if p.get('ptr') and p.get('record') in USER_OBJECT_RECORDS:
            objvars[p['name']] = p['record']
    defs = local_defs(fn)
    # not user-owned: a pointer that only ever holds the address of a sub-object embedded in a record of the library
    # (`timer = &thr->idle_timer`, `&st->events_kick`): that memory belongs to the library's record, no callback can
    # free it (reading the field through `thr->idle_timer.x` was never a finding either)
    def embedded_in_library(r):
        a = strip(r)
        if not (isinstance(a, dict) and a.get('k') == 'addr'):
            return False
        y = strip(a['e'])
        if not (isinstance(y, dict) and y.get('k') == 'member'):
            return False
        while isinstance(y, dict) and y.get('k') in ('member', 'index'):
            if y.get('k') == 'member' and y['arrow']:
                b = strip(y['base'])
                return isinstance(b, dict) and b.get('k') == 'var' and b.get('ptr') and bool(b.get('record')) \
                    and b.get('record') not in USER_OBJECT_RECORDS and b['name'] not in objvars
            y = strip(y['base'])
        return isinstance(y, dict) and y.get('k') == 'var' and y.get('vk') in ('global', 'staticlocal')
    params = {p['name'] for p in fn.params}
    for v in sorted(objvars):
        ds = defs.get(v)
        if v not in params and ds and all(r is not None and embedded_in_library(r) for r in ds):
            del objvars[v]
    # interior pointers: a local only ever assigned `&v->member...` of an object pointer v dies and revives with v
    derived = {}

    tables = {}         # array -> [pseudo-names]

    def owner_of(r):
        a = strip(r)
        if isinstance(a, dict) and a.get('k') == 'addr':
            y = strip(a['e'])
            while isinstance(y, dict) and y.get('k') in ('member', 'index'):
                if y.get('k') == 'member' and y['arrow']:
                    b = strip(y['base'])
                    return b['name'] if is_localvar(b) and b['name'] in objvars else None
                y = strip(y['base'])
            return None
        if isinstance(a, dict) and a.get('k') == 'cond':
            o1, o2 = owner_of(a['a']), owner_of(a['b'])
            return o1 if o1 == o2 else None
        # a copy of an interior pointer, or an element of a table of interior pointers, belongs to the same object
        if is_localvar(a) and a['name'] in derived and a['name'] not in tables:
            return derived[a['name']]
        t = element_of_local_array(fn, a)
        if t in tables:
            return derived[t]
        return None
    # interior pointers: a local only ever assigned `&v->member...` of an object pointer v (or a copy of such a pointer)
    # dies and revives with v.  A local table of interior pointers (`slot[0] = &v->a; slot[1] = &v->b; ... *slot[i]`)
    # likewise: an element is tracked under the pseudo-name `slot[k]` (strong update by `slot[k] = ..`), or as
    # `slot[*]` (never refreshed by an element store) when some store has a computed index
    arrdefs = local_array_defs(fn)
    changed = True
    while changed:
        changed = False
        for d, ds in defs.items():
            if d in objvars or d in derived or not ds or any(r is None for r in ds):
                continue
            owners = {owner_of(r) for r in ds}
            if len(owners) == 1 and None not in owners:
                derived[d] = owners.pop()
                changed = True
        for a, ds in arrdefs.items():
            if a in objvars or a in derived or any(r is None for r in ds):
                continue
            owners = {owner_of(r) for r in ds}
            if len(owners) != 1 or None in owners:
                continue
            ks = set()
            for e in fn.events():
                if e['ev'] == 'decl' and e.get('name') == a and isinstance(e.get('init'), dict):
                    ks |= set(range(len(e['init'].get('elems') or [])))
                if e['ev'] == 'store':
                    l = strip(e['lhs'])
                    if isinstance(l, dict) and l.get('k') == 'index' and element_of_local_array(fn, l) == a:
                        ks.add(const_of(l.get('idx')))
            names = ['%s[*]' % a] if None in ks else ['%s[%d]' % (a, k) for k in sorted(ks)]
            tables[a] = names
            v = owners.pop()
            for n in names:
                derived[n] = v
            derived[a] = v
            changed = True

    def table_access(x):
        """(array, pseudo-names read) when the access path x dereferences an element of a tracked table"""
        x = strip(x) if isinstance(x, dict) and x.get('k') in ('cast', 'stmtexpr') else x
        while isinstance(x, dict):
            k = x.get('k')
            if k == 'member' and x['arrow']:
                b = strip(x['base'])
            elif k == 'deref':
                b = strip(x['e'])
            elif k in ('member', 'index'):
                x = x['base']
                continue
            elif k in ('cast', 'addr', 'load'):
                x = x['e']
                continue
            else:
                return None
            a = element_of_local_array(fn, b)
            if a in tables:
                c = const_of(b.get('idx'))
                n = '%s[%d]' % (a, c) if c is not None else None
                return a, ([n] if n in tables[a] else list(tables[a]))
            return None
        return None
    for d, v in derived.items():
        if '[' not in d:
            objvars[d] = objvars[v]
    published = set()       # locals whose address is stored somewhere
    for e in fn.events():
        if e['ev'] == 'store' and e.get('op') == '=' and 'rhs' in e:
            r = strip(e['rhs'])
            if isinstance(r, dict) and r.get('k') == 'addr':
                v = strip(r['e'])
                if isinstance(v, dict) and v.get('k') == 'var':
                    published.add(v['name'])
    markers = {}      # canon(M) -> var
    for e in fn.events():
        if e['ev'] == 'store' and e.get('op') == '=' and 'rhs' in e:
            r = strip(e['rhs'])
            lhs = _through(fn, e['lhs'])
            l = strip(lhs)
            if isinstance(r, dict) and r.get('k') == 'var' and r['name'] in objvars and isinstance(l, dict):
                if l.get('k') == 'member':
                    markers[canon(lhs)] = r['name']
                elif l.get('k') == 'var' and l.get('vk') == 'local' and l['name'] in published and l['name'] not in objvars:
                    ds = defs.get(l['name'], [])
                    if all(d is not None and (const_of(d) == 0 or (is_localvar(strip(d)) and strip(d)['name'] == r['name'])) for d in ds):
                        markers[l['name']] = r['name']
            if isinstance(r, dict) and r.get('k') == 'addr':
                v = strip(r['e'])
                if isinstance(v, dict) and v.get('k') == 'var' and v['name'] in objvars:
                    markers[v['name']] = v['name']

    def transfer(e, S):
        if e['ev'] == 'store':
            l = strip(e['lhs'])
            n = None
            if l.get('k') == 'var' and (l['name'] in derived or any(x[0] == l['name'] for x in S)):
                S = frozenset(x for x in S if x[0] != l['name'])
                n = l['name'] if l['name'] in derived else None
            elif l.get('k') == 'index' and S and element_of_local_array(fn, l) in tables:
                c = const_of(l.get('idx'))
                if c is not None:
                    n = '%s[%d]' % (element_of_local_array(fn, l), c)
                    S = frozenset(x for x in S if x[0] != n)
            if n is not None and S:
                # an interior pointer computed from an object that is stale at this point is stale itself
                src = [x for x in S if x[0] == derived[n]]
                if src:
                    S = S | frozenset([(n, src[0][1])])
        elif e['ev'] == 'decl':
            if any(x[0] == e['name'] for x in S):
                S = frozenset(x for x in S if x[0] != e['name'])
            if e['name'] in tables and S:
                # a new incarnation of the table: its elements are (re)defined by the initialiser / not yet defined
                S = frozenset(x for x in S if x[0] not in tables[e['name']])
        elif e['ev'] == 'call':
            cb = is_callback(e)
            if cb:
                add = set()
                for v, rec in objvars.items():
                    if rec in keep_kinds or (cb == 'work' and rec == 'iv_work_item'):
                        continue
                    for n in tables.get(v, [v]):
                        add.add((n, e.get('loc')))
                S = S | frozenset(add)
        return S

    # Must-equality of pointer locals (`live = self`): a published marker local M that is found != NULL still holds the
    # value of its last definition in this function (the only foreign writer, unregister, stores NULL through the
    # published address), so every local that must hold that same value designates the same, live object.  Facts are
    # pairs {x, y}; generated by a plain copy between locals (transitively), killed by any (re)definition of either
    # and by passing the address of either to a call.
    def eq_kill(E, x):
        return frozenset(p for p in E if x not in p)

    def eq_tr(e, E):
        if e['ev'] == 'decl':
            return eq_kill(E, e['name']) if E else E
        if e['ev'] == 'store':
            l = strip(e['lhs'])
            if isinstance(l, dict) and l.get('k') == 'var':
                x = l['name']
                E = eq_kill(E, x) if E else E
                r = strip(e['rhs']) if e.get('op') == '=' and 'rhs' in e else None
                if is_localvar(l) and is_localvar(r) and r['name'] != x and x in objvars and r['name'] in objvars:
                    y = r['name']
                    peers = {y} | {z for p in E if y in p for z in p}
                    E = E | frozenset(frozenset((x, z)) for z in peers if z != x)
            return E
        if e['ev'] == 'call' and E:
            for a in e.get('args', []):
                a = strip(a)
                if isinstance(a, dict) and a.get('k') == 'addr' and isinstance(strip(a['e']), dict) and strip(a['e']).get('k') == 'var':
                    E = eq_kill(E, strip(a['e'])['name'])
        return E
    eq_at = {}
    if markers:
        _, eq_at = forward(fn, frozenset(), eq_tr, lambda a, b: a & b)

    def edge(blk, si, S):
        if not S or not blk.term or blk.term.get('cond') is None or len(blk.succ) != 2:
            return S
        if blk.term.get('cls') in ('SwitchStmt', 'MethodDispatch'):
            return S
        for (op, lc, rc, l, r) in norm_cond(blk.term['cond'], si == 0):
            keys = {lc}
            if isinstance(l, dict):
                keys.add(canon(_through(fn, l)))
            for k in keys:
                if k not in markers:
                    continue
                if (op == '!=' and rc == '0') or (op == '==' and rc == markers[k]):
                    v = markers[k]
                    # locals that must hold, at this test, the value of the revived pointer (or of the marker local)
                    E = eq_at.get((blk.id, len(blk.events))) or ()
                    same = {v} | {z for p in E if (k in p or v in p) for z in p}
                    S = frozenset(x for x in S if x[0] not in same and derived.get(x[0]) not in same)
        return S

    _, ev_in = forward(fn, frozenset(), transfer, lambda a, b: a | b, edge=edge)
    reports = []
    for b, blk in fn.blocks.items():
        for i, e in enumerate(blk.events):
            S = ev_in.get((b, i))
            if not S:
                continue
            names = {x[0]: x[1] for x in S}
            for (v, acc) in derefs_by_event(e):
                if v['name'] in names:
                    reports.append((e, v['name'], acc, names[v['name']]))
            if tables:
                cands = []
                if e['ev'] == 'load':
                    cands.append(e['e'])
                elif e['ev'] == 'store':
                    cands.append(e['lhs'])
                elif e['ev'] in ('call', 'enter'):
                    cands += [strip(a)['e'] for a in e.get('args', []) if isinstance(strip(a), dict) and strip(a).get('k') == 'addr']
                    if e['ev'] == 'call' and 'fnexpr' in e:
                        cands.append(strip(e['fnexpr']))
                for x in cands:
                    t = table_access(x)
                    if t:
                        for n in t[1]:
                            if n in names:
                                reports.append((e, t[0], canon(x), names[n]))
                                break
    return reports, objvars, markers


def field_exists(prog, rec, fld):
    """does any function of the program mention the member rec.fld"""
    c = prog.__dict__.setdefault('_h01_fields', None)
    if c is None:
        c = set()
        for f in prog.all_funcs():
            for e in f.events():
                for x in walk(e):
                    if x.get('k') == 'member':
                        c.add((x.get('record'), x['field']))
                    elif x.get('k') == 'container_of':
                        c.add((x.get('record'), x.get('member')))
        prog.__dict__['_h01_fields'] = c
    return (rec, fld) in c or (norm_rec(rec), fld) in c


def owner_name(e, default):
    q = e.get('fn') or default
    return q.split(':')[-1]


# --------------------------------------------------------------------------
# unlinked / stamped since definition (one-shot objects)
# --------------------------------------------------------------------------

def oneshot_facts(g, stamp_fields):
    """Forward must-analysis.  Facts (all die when the variable they speak about is redefined):
         ('eq', a, b)              locals a and b hold the same pointer
         ('node', n, v, key, mk)   the value known as n (a local, or a pure access path reading the
                                   locations mk) is &v->key  (v = container_of(n, key))
         ('unl', v, key)           *v was unlinked from the list it was on through its node `key`
         ('st', v, fld)            v->fld holds the stamp value stamp_fields[fld]
         ('unln', n)               the list node the local n points to was unlinked (its object is computed afterwards)
         ('via', v, key)           v was computed from its node `key` (the list it was found on goes through that node)
       A user callback forgets what is known about objects (it may re-register them)."""
    def cls(S, v):
        out = {v}
        for f in S:
            if f[0] == 'eq':
                if f[1] == v:
                    out.add(f[2])
                elif f[2] == v:
                    out.add(f[1])
        return out

    def drop_var(S, x):
        return frozenset(f for f in S if not (
            (f[0] == 'eq' and x in (f[1], f[2])) or
            (f[0] == 'node' and (f[1] == x or f[2] == x or ('var', x) in f[4])) or
            (f[0] in ('unl', 'st', 'unln', 'via') and f[1] == x)))

    def drop_mem(S, kills=None):
        return frozenset(f for f in S if not (f[0] == 'node' and f[4] and (kills is None or (f[4] & kills))))

    def unlink(node, S):
        a = strip(node)
        add = set()
        if isinstance(a, dict) and a.get('k') == 'addr' and last_member(a['e']):
            key = last_member(a['e'])
            for b in base_var_names(a['e']):
                for u in cls(S, b):
                    add.add(('unl', u, key))
        names = var_names(node) | {canon(node)}
        for f in S:
            if f[0] == 'node' and f[1] in names:
                for u in cls(S, f[2]):
                    add.add(('unl', u, f[3]))
        # the node pointer itself was unlinked: whatever object is computed from it afterwards is unlinked
        for n in var_names(node):
            add.add(('unln', n))
        return drop_mem(S) | frozenset(add)

    def relink(node, S):
        key = member_of_ptr(g, node)
        # linked again: through a pointer that may alias any object of that kind
        return drop_mem(frozenset(f for f in S if not ((f[0] == 'unl' and (key is None or f[2] == key)) or f[0] == 'unln')))

    def transfer(e, S):
        ev = e['ev']
        lo = list_op(g, e)
        if lo is not None:
            return unlink(lo[1], S) if lo[0] == 'del' else relink(lo[1], S)
        if ev == 'decl':
            return drop_var(S, e['name'])
        if ev == 'store':
            l = strip(e['lhs'])
            if isinstance(l, dict) and l.get('k') == 'var':
                x = l['name']
                S0 = S
                S = drop_var(S, x)
                if e.get('op') != '=' or 'rhs' not in e or l.get('vk') not in ('local', 'param'):
                    return S
                r = strip(e['rhs'])
                if is_localvar(r) and r['name'] != x:
                    w = r['name']
                    add = {('eq',) + tuple(sorted((x, u))) for u in cls(S0, w) if u != x}
                    for f in S0:
                        if f[0] == 'node' and f[2] == w and f[1] != x and ('var', x) not in f[4]:
                            add.add(('node', f[1], x, f[3], f[4]))
                        elif f[0] in ('unl', 'st', 'via') and f[1] == w:
                            add.add((f[0], x, f[2]))
                        elif f[0] == 'unln' and f[1] == w:
                            add.add(('unln', x))
                    return S | frozenset(add)
                if isinstance(r, dict) and r.get('k') == 'container_of':
                    key = (r.get('record'), r.get('member'))
                    add = {('via', x, key)}        # x was reached through its node `key`
                    for n in var_names(r['e']):
                        if n != x:
                            add.add(('node', n, x, key, frozenset()))
                            if ('unln', n) in S0:
                                add.add(('unl', x, key))
                    inner = strip(r['e'])
                    if isinstance(inner, dict) and inner.get('k') != 'var' and not any(y.get('k') == 'call' for y in walk(inner)):
                        mk = frozenset(_keys_read(inner))
                        if ('var', x) not in mk:
                            add.add(('node', canon(inner), x, key, mk))
                    return S | frozenset(add)
                return S
            # store to memory
            kills = set(lvalue_steps(e['lhs']))
            if isinstance(l, dict) and l.get('k') in ('deref', 'index') and not kills:
                kills.add(('mem', '*'))
            if not kills:
                lm = last_member(e['lhs'])
                if lm:
                    kills.add(lm)
            S = drop_mem(S, kills)
            lm = last_member(e['lhs'])
            if lm in stamp_fields:
                val = const_of(e.get('rhs')) if e.get('op') == '=' else None
                if val is None or val != stamp_fields[lm]:
                    # a store of another value through a pointer that may alias invalidates every stamp
                    S = frozenset(f for f in S if not (f[0] == 'st' and f[2] == lm))
                else:
                    add = set()
                    for b in base_var_names(e['lhs']):
                        for u in cls(S, b):
                            add.add(('st', u, lm))
                    S = S | frozenset(add)
            return S
        if ev == 'call':
            if 'fnexpr' in e:
                return frozenset(f for f in drop_mem(S) if f[0] not in ('unl', 'st', 'unln'))
            nm = e.get('callee')
            if nm not in PURE_CALLS:
                S = drop_mem(S)
            for a in e.get('args', []):
                a = strip(a)
                if isinstance(a, dict) and a.get('k') == 'addr':
                    v = strip(a['e'])
                    if isinstance(v, dict) and v.get('k') == 'var':
                        S = drop_var(S, v['name'])
            return S
        return S

    _, ev_in = forward(g, frozenset(), transfer, lambda a, b: a & b)
    return ev_in
