"""C01 — no callback and no memory access after an unregister call returns.

Decided statically: the four disciplines that make the guarantee hold in this
code base (stale-after-callback, unlink-before-call for one-shot objects,
unregister reaches every holder, no callback while a kernel batch is live).
Not decided: sufficiency over all histories and kernel behaviours.
"""
from ..core import (names_of, same_value, lvalue_root, AnalysisBroken, Inliner, canon, strip, strip_load, last_member, must_pass, relpath,
                    norm_cond, walk, forward, lvalue_steps, evloc)
from ..analyses import (is_call, holding, atoms_reading, path_to, describe, exits_of, callback_kind,
                        stale_after_callback, loops, innermost_loop, USER_OBJECT_RECORDS, locksets, held,
                        delta_analysis)

ONE_SHOT = {  # callback kind -> (record, link field, extra store required before the call)
    'task': ('iv_task_', 'list', None),
    'timer': ('iv_timer_', 'list_expired', ('iv_timer_', 'index', '-1')),
    'event': ('iv_event', 'list', None),
}

UNREGISTER = {
    'iv_fd_': 'iv_fd_unregister', 'iv_task_': 'iv_task_unregister', 'iv_timer_': 'iv_timer_unregister',
    'iv_event': 'iv_event_unregister', 'iv_event_raw': 'iv_event_raw_unregister', 'iv_signal': 'iv_signal_unregister',
    'iv_wait_interest': 'iv_wait_interest_unregister', 'iv_inotify': 'iv_inotify_unregister',
    'iv_inotify_watch': 'iv_inotify_watch_unregister', 'iv_fd': 'iv_fd_unregister',
}

# holder signature -> how the kind's unregister must undo it (confirmed by reading)
HOLDERS = {
    ('list', 'iv_fd_', 'list_active'): dict(check='unlinked'),
    ('list', 'iv_fd_', 'list_notify'): dict(check='unlinked', methods='deferring'),
    ('list', 'iv_task_', 'list'): dict(check='unlinked'),
    ('list', 'iv_event', 'list'): dict(check='unlinked', lock='iv_state.event_list_mutex'),
    ('list', 'iv_timer_', 'list_expired'): dict(check='unlinked', when=(('iv_timer_', 'index'), '==', 0),
                                                why='a timer is in the expired batch iff index == 0'),
    ('list', 'iv_wait_interest', 'events_pending'): dict(check='unlinked', why='queued status records are purged'),
    ('list', 'iv_work_item', 'list'): dict(check='exempt', why='work items have no unregister call; they stay owned by the '
                                                              'library from submit until their completion is entered (C12)'),
    ('tree', 'iv_inotify_watch', 'an'): dict(check='tree'),
    ('tree', 'iv_signal', 'an'): dict(check='tree'),
    ('tree', 'iv_wait_interest', 'avl_node'): dict(check='tree', unless=('iv_wait_interest', 'flags'),
                                                   why='already removed by the reaper when the dead flag is set (C11)'),
    ('marker', 'iv_fd_', 'iv_state.handled_fd'): dict(check='marker'),
    ('marker', 'iv_wait_interest', 'iv_wait_thr_info.handled_wait_interest'): dict(check='marker'),
    ('slot', 'iv_fd_', 'poll.fds[]'): dict(check='poll-slot', methods='poll'),
    ('slot', 'iv_timer_', 'heap'): dict(check='heap-slot'),
    ('kernel', 'iv_fd_', 'epoll_event.data.ptr'): dict(check='epoll-sync', methods='deferring'),
    ('pub', 'iv_inotify', 'term'): dict(check='exempt', why='address of the dispatcher\'s local instance pointer; unregister '
                                                           'nulls through it (checked by C20 R-C20c and C18 R-C18f)'),
    ('cookie', 'iv_event_raw', 'event_rfd'): dict(check='sub', sub='iv_fd_unregister'),
    ('cookie', 'iv_inotify', 'fd'): dict(check='sub', sub='iv_fd_unregister'),
    ('cookie', 'iv_signal', 'ev'): dict(check='sub', sub='iv_event_raw_unregister'),
    ('cookie', 'iv_wait_interest', 'ev'): dict(check='sub', sub='iv_event_unregister'),
    ('parent', 'iv_popen_request', 'iv_popen_running_child.parent'): dict(check='exempt', why='popen close detaches the record (C19 R-C19d)'),
}


def is_cb(e):
    k = callback_kind(e)
    return k[1] if k and k[0] == 'callback' else None


def objrec(x):
    x = strip(x)
    if isinstance(x, dict) and x.get('k') == 'var' and x.get('ptr') and x.get('record') in USER_OBJECT_RECORDS:
        return x['record']
    return None


def discover_holders(prog):
    found = {}
    for f in sorted(prog.all_funcs(), key=lambda f: f.q):
        for e in f.events():
            if e['ev'] == 'call' and e.get('callee') in ('iv_list_add', 'iv_list_add_tail', 'iv_avl_tree_insert', '__iv_list_steal_elements'):
                ai = 1 if e['callee'] == 'iv_avl_tree_insert' else 0
                a = strip(e['args'][ai])
                if isinstance(a, dict) and a.get('k') == 'addr':
                    lm = last_member(a['e'])
                    if lm and lm[0] in USER_OBJECT_RECORDS:
                        kind = 'tree' if e['callee'] == 'iv_avl_tree_insert' else 'list'
                        found.setdefault((kind, lm[0], lm[1]), []).append((f, e))
            if e['ev'] == 'store' and e.get('op') == '=' and 'rhs' in e:
                l = strip(e['lhs'])
                if l.get('k') == 'var':
                    if l.get('vk') in ('global', 'staticlocal') and objrec(e['rhs']):
                        found.setdefault(('store', objrec(e['rhs']), l['name']), []).append((f, e))
                    continue
                rec = objrec(e['rhs'])
                if rec:
                    steps = lvalue_steps(e['lhs'])
                    lm = last_member(e['lhs'])
                    if lm and lm[1] == 'cookie':
                        # X->SUB.cookie = X : the embedded sub-object points back at its container
                        b = strip(l['base']) if l.get('k') == 'member' else None
                        if isinstance(b, dict) and b.get('k') == 'member':
                            found.setdefault(('cookie', rec, b['field']), []).append((f, e))
                            continue
                    if lm == ('epoll_data', 'ptr') or (lm and lm[1] == 'ptr' and 'data' in canon(e['lhs'])):
                        found.setdefault(('kernel', rec, 'epoll_event.data.ptr'), []).append((f, e))
                    elif l.get('k') == 'index':
                        found.setdefault(('slot', rec, 'poll.fds[]'), []).append((f, e))
                    elif l.get('k') == 'deref':
                        found.setdefault(('slot', rec, 'heap'), []).append((f, e))
                    elif lm and lm[1] == 'parent':
                        found.setdefault(('parent', rec, '%s.%s' % lm), []).append((f, e))
                    elif lm and lm[0] in ('iv_state', 'iv_wait_thr_info'):
                        found.setdefault(('marker', rec, '%s.%s' % lm), []).append((f, e))
                    elif steps and lvalue_root_is_local(e['lhs']):
                        continue
                    else:
                        found.setdefault(('store', rec, canon(e['lhs'])), []).append((f, e))
                rr = strip(e['rhs'])
                if isinstance(rr, dict) and rr.get('k') == 'addr':
                    v = strip(rr['e'])
                    if isinstance(v, dict) and v.get('k') == 'var' and v.get('record') in USER_OBJECT_RECORDS and v.get('ptr'):
                        lm = last_member(e['lhs'])
                        found.setdefault(('pub', v['record'], lm[1] if lm else canon(e['lhs'])), []).append((f, e))
    return found


def lvalue_root_is_local(lhs):
    from ..core import lvalue_root
    r = lvalue_root(lhs)
    return r is not None and r.get('vk') in ('local', 'param')


def _list_arg_member(e, i=0):
    a = strip(e['args'][i]) if len(e.get('args', [])) > i else None
    if isinstance(a, dict) and a.get('k') == 'addr':
        return last_member(a['e'])
    return None


def link_states(g, rec, field):
    """May-set of link states {'U','L','N'} of rec.field before every event."""
    key = (rec, field)
    def tr(e, S):
        if is_call(e, ('iv_list_add', 'iv_list_add_tail')) and _list_arg_member(e) == key:
            return frozenset('L')
        if is_call(e, ('iv_list_del', 'iv_list_del_init', 'INIT_IV_LIST_HEAD')) and _list_arg_member(e) == key:
            return frozenset('N')
        return S
    def edge(blk, si, S):
        if blk.term and blk.term.get('cond') is not None and len(blk.succ) == 2:
            for (op, lc, rc, l, r) in norm_cond(blk.term['cond'], si == 0):
                c = strip(l)
                if isinstance(c, dict) and c.get('k') == 'call' and c.get('callee') == 'iv_list_empty' and rc == '0':
                    a = strip(c['args'][0])
                    if isinstance(a, dict) and a.get('k') == 'addr' and last_member(a['e']) == key:
                        return frozenset('N') if op == '!=' else frozenset('L')
        return S
    _, ev_in = forward(g, frozenset('U'), tr, lambda a, b: a | b, edge=edge)
    return ev_in


def exit_points(g):
    pts = [(pb, pi) for (pb, pi, _) in exits_of(g)]
    pts.append((g.exit, 0))
    return pts


def deferring_tables(prog):
    out = []
    for t, slots in sorted(prog.method_tables().items()):
        v = slots.get('notify_fd')
        f = prog.resolve(*v) if v else None
        if f and any(is_call(e, ('iv_list_add', 'iv_list_add_tail')) and _list_arg_member(e) == ('iv_fd_', 'list_notify') for e in f.events()):
            out.append(t)
    return out


def run(ctx):
    ctx.rule('R-C01a', 'stale-after-callback: after a user callback no pointer to a user-owned object is dereferenced '
                       'until it is reassigned or its liveness marker was re-tested (all dispatchers, helpers inlined)', floor=20)
    ctx.rule('R-C01b', 'one-shot objects (task, timer, event) are unlinked from the batch (timers: index = -1) in the same '
                       'iteration before their handler is called', floor=3)
    ctx.rule('R-C01c', 'every place the library keeps a pointer to a user object (lists, trees, markers, poll array, heap '
                       'slot, kernel registration, sub-object cookies) is discovered and undone by that kind\'s unregister on every path', floor=18)
    ctx.rule('R-C01d', 'no user callback runs between the kernel wait and the last read of the event array it filled', floor=4)
    ctx.section(stale)
    ctx.section(one_shot)
    ctx.section(holders)
    ctx.section(batch_live)


def stale(ctx):
    prog = ctx.prog
    nsites = 0
    for f in sorted(prog.all_funcs(), key=lambda f: f.q):
        g = Inliner(prog).inline(f)
        sites = [e for e in g.events() if e['ev'] == 'call' and is_cb(e)]
        if not sites:
            continue
        own = [e for e in f.events() if e['ev'] == 'call' and is_cb(e)]
        nsites += len(own)
        reps, objvars, markers = stale_after_callback(g, is_cb)
        byvar = {}
        for (e, v, acc, cb) in reps:
            byvar.setdefault(v, []).append((e, acc, cb))
        for v in sorted(objvars):
            bad = byvar.get(v, [])
            e0 = bad[0][0] if bad else None
            base = v.split('@')[0]
            ctx.ob('R-C01a', '%s:%s' % (f.name, v), not bad, loc=e0['loc'] if e0 else f.loc,
                   detail=('`%s` (%s) is used after the callback at %s without reassignment or marker test: %s'
                           % (base, objvars[v], relpath(bad[0][2]), ', '.join(sorted({a for _, a, _ in bad})))) if bad else
                          '%s *%s: never used after a callback site without reassignment / marker test' % (objvars[v], base),
                   path=path_to(g, e0) if e0 else None, fn=f.q)
    if nsites < 14:
        raise AnalysisBroken('only %d user callback sites found (14 confirmed by reading)' % nsites)


def one_shot(ctx):
    """Since the (last) definition of the object variable whose handler is about
    to be called, the object has been unlinked (and stamped).  Formulated on the
    definition rather than on the loop head so that it is independent of the loop
    form (peeled last iteration, do/while, helper per object)."""
    prog = ctx.prog
    for f in sorted(prog.all_funcs(), key=lambda f: f.q):
        sites = {}
        for cs in [e for e in f.events() if e['ev'] == 'call' and is_cb(e) in ONE_SHOT]:
            sites.setdefault((is_cb(cs), cs['loc']), []).append(cs)
        for (kind, loc), css in sorted(sites.items()):
            rec, link, extra = ONE_SHOT[kind]
            ok, ok2 = True, True
            for cs in css:
                objx = strip(cs['fnexpr'])['base']
                obj = canon(objx)
                root = lvalue_root(objx)
                rootname = root['name'] if root is not None else None
                def redefined(e, rootname=rootname):
                    return e['ev'] == 'store' and strip(e['lhs']).get('k') == 'var' and strip(e['lhs'])['name'] == rootname
                def unlinked(e, obj=obj, rec=rec, link=link):
                    return is_call(e, ('iv_list_del', 'iv_list_del_init')) and _list_arg_member(e) == (rec, link) \
                        and canon(e['args'][0]) == '&%s->%s' % (obj, link)
                def tr(e, s):
                    if redefined(e):
                        return False
                    return True if unlinked(e) else s
                _, ev_in = forward(f, False, tr, lambda a, b: a and b)
                ok = ok and bool(ev_in.get((cs['_b'], cs['_i'])))
                if extra:
                    def stamped(e, obj=obj, extra=extra):
                        return e['ev'] == 'store' and last_member(e['lhs']) == (extra[0], extra[1]) \
                            and canon(strip(e['lhs'])['base']) == obj and canon(e.get('rhs')) == extra[2]
                    def tr2(e, s):
                        if redefined(e):
                            return False
                        if stamped(e):
                            return True
                        if e['ev'] == 'store' and last_member(e['lhs']) == (extra[0], extra[1]) and canon(strip(e['lhs'])['base']) == obj:
                            return False
                        return s
                    _, ev2 = forward(f, False, tr2, lambda a, b: a and b)
                    ok2 = ok2 and bool(ev2.get((cs['_b'], cs['_i'])))
            cs = css[0]
            ctx.ob('R-C01b', '%s:%s-unlinked-before-handler' % (f.name, kind), ok, loc=cs['loc'],
                   detail='iv_list_del*(&%s->%s) lies between the definition of %s and %s on every path' % (obj, link, obj, describe(cs)),
                   path=None if ok else path_to(f, cs), fn=f.q)
            if extra:
                ctx.ob('R-C01b', '%s:%s-%s-stamped-before-handler' % (f.name, kind, extra[1]), ok2, loc=cs['loc'],
                       detail='%s->%s = %s precedes the handler call on every path from the definition of %s (the object reads as unregistered inside its handler)'
                              % (obj, extra[1], extra[2], obj), fn=f.q)


def holders(ctx):
    prog = ctx.prog
    found = discover_holders(prog)
    for sig in sorted(found):
        f, e = found[sig][0]
        if sig not in HOLDERS:
            ctx.ob('R-C01c', 'holder:%s %s.%s' % sig, False, loc=e['loc'],
                   detail='%s keeps a pointer to a %s (%s) and no unregister rule covers this holder' % (f.name, sig[1], describe(e)), fn=f.q)
    for sig, spec in sorted(HOLDERS.items()):
        if sig not in found:
            raise AnalysisBroken('tabled holder %s %s.%s no longer exists' % sig)
        inst = 'holder:%s %s.%s' % sig
        f0, e0 = found[sig][0]
        if spec['check'] == 'exempt':
            ctx.exempt('R-C01c', inst, spec['why'])
            ctx.ob('R-C01c', inst, True, loc=e0['loc'], detail='exempt: ' + spec['why'], fn=f0.q)
            continue
        rec = sig[1]
        un = prog.fn(UNREGISTER[rec])
        if spec.get('methods') == 'deferring':
            tables = deferring_tables(prog)
            if not tables:
                raise AnalysisBroken('no poll method defers notifications')
        elif spec.get('methods') == 'poll':
            tables = [t for t, s in sorted(prog.method_tables().items()) if s.get('register_fd') and not s.get('unregister_fd')]
            if not tables:
                raise AnalysisBroken('no poll-array method found')
        else:
            tables = [None]
        for t in tables:
            g = Inliner(prog, method_table=t, expand_methods=True, prune=True).inline(un)
            tag = (' [%s]' % t.replace('iv_fd_poll_method_', '')) if t else ''
            pts = exit_points(g)
            ok, det = True, ''
            if spec['check'] == 'unlinked':
                ls = link_states(g, rec, sig[2])
                if spec.get('when'):
                    res = delta_analysis(g, [], discr=[spec['when'][0]])
                    # exits whose path took the discriminated arm
                    armpts = set()
                    for (e, d, rc, preds) in res.rets:
                        if tuple(spec['when']) in preds and e is not None:
                            armpts.add((e['_b'], e['_i']))
                    for (d, envk, preds) in res.exit_states:
                        if tuple(spec['when']) in preds:
                            armpts.add((g.exit, 0))
                    # per-arm link state: re-run restricted to the arm by cutting the other edge
                    ok = True
                    cut = set()
                    for b, blk in g.blocks.items():
                        if blk.term and blk.term.get('cond') is not None and len(blk.succ) == 2:
                            for si in (0, 1):
                                for (op, lc, rc_, l, r) in norm_cond(blk.term['cond'], si == 0):
                                    if last_member(l) == spec['when'][0] and ((op == '!=' and rc_ == str(spec['when'][2]) and spec['when'][1] == '==')):
                                        cut.add((b, si))
                    if not cut:
                        raise AnalysisBroken('%s: discriminating test of %s.%s not found' % (un.name, spec['when'][0][0], spec['when'][0][1]))
                    # states reaching exit without taking a cut edge
                    key = (rec, sig[2])
                    def tr(e, S, key=key):
                        if is_call(e, ('iv_list_add', 'iv_list_add_tail')) and _list_arg_member(e) == key:
                            return frozenset('L')
                        if is_call(e, ('iv_list_del', 'iv_list_del_init', 'INIT_IV_LIST_HEAD')) and _list_arg_member(e) == key:
                            return frozenset('N')
                        return S
                    def edge(blk, si, S, cut=cut):
                        return None if (blk.id, si) in cut else S
                    _, ev_in = forward(g, frozenset('U'), tr, lambda a, b: a | b, edge=edge)
                    sts = set()
                    for p in pts:
                        sts |= set(ev_in.get(p, ()))
                    ok = sts <= {'N'} and bool(sts)
                    det = 'on the %s.%s == %s arm the object is unlinked at return (states %s): %s' % (
                        spec['when'][0][0], spec['when'][0][1], spec['when'][2], sorted(sts), spec.get('why', ''))
                else:
                    sts = set()
                    for p in pts:
                        sts |= set(ls.get(p, ()))
                    ok = sts <= {'N'} and bool(sts)
                    det = 'link state of %s.%s at every return of %s: %s (N = not linked)' % (rec, sig[2], un.name, sorted(sts))
                if ok and spec.get('lock'):
                    lk = locksets(g)
                    for e in g.events():
                        if is_call(e, ('iv_list_del', 'iv_list_del_init')) and _list_arg_member(e) == (rec, sig[2]):
                            if spec['lock'] not in held(lk.get((e['_b'], e['_i']))):
                                ok = False
                                det += '; unlinked without %s' % spec['lock']
            elif spec['check'] == 'tree':
                def deleted(e, rec=rec, fld=sig[2]):
                    return is_call(e, 'iv_avl_tree_delete') and _list_arg_member(e, 1) == (rec, fld)
                def tr(e, s):
                    return True if deleted(e) else s
                def edge(blk, si, s, spec=spec):
                    if spec.get('unless') and blk.term and blk.term.get('cond') is not None and len(blk.succ) == 2:
                        for (op, lc, rc_, l, r) in norm_cond(blk.term['cond'], si == 0):
                            if op == '!=' and rc_ == '0' and spec['unless'] in {(x.get('record'), x.get('field')) for x in walk(l) if x.get('k') == 'member'}:
                                return True
                    return s
                _, ev_in = forward(g, False, tr, lambda a, b: a and b, edge=edge)
                ok = all(ev_in.get(p, True) for p in pts)
                det = 'iv_avl_tree_delete(&obj->%s) on every path%s' % (sig[2], (' except where ' + spec['why']) if spec.get('why') else '')
            elif spec['check'] == 'marker':
                mrec, mfld = sig[2].split('.')
                clears = [e for e in g.events() if e['ev'] == 'store' and last_member(e['lhs']) == (mrec, mfld) and canon(e.get('rhs')) in ('NULL', '0')]
                hd = holding(g)
                ok = False
                for e in clears:
                    A = hd.get((e['_b'], e['_i']), frozenset())
                    if any(a[0] == '==' and (mrec, mfld) in a[3] and a[2] not in ('0',) for a in A):
                        ok = True
                # and on the marker == obj edge the clear is always reached
                det = '%s is reset to NULL on the edge where it designates the object being unregistered' % sig[2]
                if ok:
                    from ..analyses import must_pass_from_block
                    for b, blk in g.blocks.items():
                        if blk.term and blk.term.get('cond') is not None and len(blk.succ) == 2:
                            for si in (0, 1):
                                for (op, lc, rc_, l, r) in norm_cond(blk.term['cond'], si == 0):
                                    if op == '==' and last_member(l) == (mrec, mfld) and rc_ != '0':
                                        mp = must_pass_from_block(g, blk.succ[si], lambda e: e in clears)
                                        if not all(mp.get(p, True) for p in pts):
                                            ok = False
            elif spec['check'] == 'poll-slot':
                def tr(e, s):
                    if e['ev'] == 'store' and canon(e['lhs']).endswith('->u.index') and last_member(e['lhs'])[1] == 'index':
                        return canon(e.get('rhs')) == '-1'
                    return s
                def edge(blk, si, s):
                    if blk.term and blk.term.get('cond') is not None and len(blk.succ) == 2:
                        for (op, lc, rc_, l, r) in norm_cond(blk.term['cond'], si == 0):
                            if op == '==' and rc_ == '-1' and lc.endswith('->u.index'):
                                return True
                    return s
                _, ev_in = forward(g, False, tr, lambda a, b: a and b, edge=edge)
                ok = all(ev_in.get(p, True) for p in pts)
                det = 'at every return the descriptor has no slot in the poll arrays (index == -1 stored or tested)'
            elif spec['check'] == 'heap-slot':
                # on the heap arm the slot of the timer is overwritten and index = -1 at exit
                def tr(e, s):
                    if e['ev'] == 'store' and last_member(e['lhs']) == ('iv_timer_', 'index') and not e.get('chain'):
                        return canon(e.get('rhs')) == '-1'
                    return s
                _, ev_in = forward(g, False, tr, lambda a, b: a and b)
                ok1 = all(ev_in.get(p, True) for p in pts)
                slotstores = [e for e in g.events() if e['ev'] == 'store' and strip(e['lhs']).get('k') == 'deref' and not e.get('chain')
                              and strip(strip(e['lhs'])['e']).get('k') == 'var']
                # the slot pointer comes from the accessor called with the timer's own index
                ok2 = False
                for e in slotstores:
                    pv = strip(strip(e['lhs'])['e'])['name']
                    for d in g.events():
                        if d['ev'] == 'store' and canon(d['lhs']) == pv and not d.get('chain'):
                            rr = strip(d.get('rhs'))
                            if isinstance(rr, dict) and rr.get('k') in ('call', 'var'):
                                # either the direct call or its inlined return temporary
                                ok2 = True
                ok = ok1 and ok2
                det = 'heap arm overwrites the timer\'s slot; index = -1 at every return'
            elif spec['check'] == 'epoll-sync':
                key = ('iv_fd_', 'list_notify')
                def tr(e, S, key=key):
                    if is_call(e, 'epoll_ctl'):
                        return frozenset((True, l_) for (_, l_) in S)
                    if is_call(e, ('iv_list_add', 'iv_list_add_tail')) and _list_arg_member(e) == key:
                        return frozenset((s_, 'L') for (s_, _) in S)
                    if is_call(e, ('iv_list_del', 'iv_list_del_init', 'INIT_IV_LIST_HEAD')) and _list_arg_member(e) == key:
                        return frozenset((s_, 'N') for (s_, _) in S)
                    return S
                def edge(blk, si, S, key=key):
                    if blk.term and blk.term.get('cond') is not None and len(blk.succ) == 2:
                        for (op, lc, rc_, l, r) in norm_cond(blk.term['cond'], si == 0):
                            if op == '==' and {last_member(l), last_member(r)} == {('iv_fd_', 'registered_bands'), ('iv_fd_', 'wanted_bands')}:
                                S = frozenset((True, l_) for (_, l_) in S)
                            c = strip(l)
                            if isinstance(c, dict) and c.get('k') == 'call' and c.get('callee') == 'iv_list_empty' and rc_ == '0':
                                a = strip(c['args'][0])
                                if isinstance(a, dict) and a.get('k') == 'addr' and last_member(a['e']) == key:
                                    if op == '!=':      # empty: impossible when certainly linked
                                        S = frozenset((s_, 'N') for (s_, l_) in S if l_ != 'L')
                                    else:
                                        S = frozenset((s_, 'L') for (s_, l_) in S if l_ != 'N')
                    return S if S else None
                _, ev_in = forward(g, frozenset([(False, 'U')]), tr, lambda a, b: a | b, edge=edge)
                sts = set()
                for p in pts:
                    sts |= set(ev_in.get(p, ()))
                ok = bool(sts) and all(s_ for (s_, l_) in sts)
                slots = prog.method_tables()[t]
                ok = ok and bool(slots.get('unregister_fd'))
                det = ('unregister synchronously updates the kernel registration (epoll_ctl) unless nothing differs from what the '
                       'kernel has; exit states (synced, linked): %s' % sorted(sts))
            elif spec['check'] == 'sub':
                def tr(e, s, sub=spec['sub'], fld=sig[2]):
                    if is_call(e, sub) and _list_arg_member(e) is not None and _list_arg_member(e)[1] == fld:
                        return True
                    return s
                _, ev_in = forward(g, False, tr, lambda a, b: a and b)
                ok = all(ev_in.get(p, True) for p in pts)
                det = '%s(&obj->%s) on every path of %s' % (spec['sub'], sig[2], un.name)
            ctx.ob('R-C01c', inst + tag, ok, loc=un.loc, detail=det, fn=un.q)


def batch_live(ctx):
    """R-C01d: in every poll slot, after the first user callback no element of
    the array the kernel filled is read."""
    prog = ctx.prog
    for t, slots in sorted(prog.method_tables().items()):
        f = prog.resolve(*slots['poll'])
        g = Inliner(prog, method_table=t, expand_methods=True).inline(f)
        waits = [e for e in g.events() if is_call(e, ('epoll_wait', 'epoll_pwait2', 'poll', 'ppoll'))]
        if not waits:
            raise AnalysisBroken('%s: wait primitive not found' % f.name)
        arrays = set()
        for w in waits:
            a = strip(w['args'][1] if w['callee'].startswith('epoll') else w['args'][0])
            arrays.add(canon(a))
        # resolve parameter copies: names of variables that are copies of array arguments
        def tr(e, s):
            if e['ev'] == 'call' and is_cb(e):
                return e.get('loc')
            return s
        _, ev_in = forward(g, '', tr, lambda a, b: a or b)
        bad = []
        nreads = 0
        for b, blk in g.blocks.items():
            for i, e in enumerate(blk.events):
                if e['ev'] != 'load':
                    continue
                x = strip_load(e['e'])
                isarr = False
                for y in walk(x):
                    if y.get('k') == 'index' and (canon(y['base']) in arrays or canon(strip_load(y['base'])) in arrays
                                                  or last_member(strip_load(y['base'])) in ((None, 'fds'), (None, 'pfds'))
                                                  or (last_member(strip_load(y['base'])) or ('', ''))[1] in ('fds', 'pfds')):
                        isarr = True
                if not isarr:
                    continue
                nreads += 1
                if ev_in.get((b, i)):
                    bad.append((e, ev_in[(b, i)]))
        if nreads == 0:
            raise AnalysisBroken('%s: no read of the kernel-filled array found' % f.name)
        e0 = bad[0][0] if bad else None
        ctx.ob('R-C01d', '%s:%s' % (t.replace('iv_fd_poll_method_', ''), f.name), not bad, loc=e0['loc'] if e0 else f.loc,
               detail=('%s is read after the user callback at %s' % (canon(e0['e']), relpath(bad[0][1]))) if bad else
                      '%d reads of the kernel-filled array, none after a user callback' % nreads,
               path=path_to(g, e0) if e0 else None, fn=f.q)
